#!/venv/bin/python
"""Re-evaluate a seeded change after a check was strengthened and refresh its meta.json.

usage: tools/reeval_seeded.py <name> "<history note>" [extra props, comma separated]
"""
import json
import os
import subprocess
import sys

VERIF = os.path.dirname(os.path.dirname(os.path.abspath(__file__)))


def main():
    name, note = sys.argv[1], sys.argv[2]
    extra = sys.argv[3].split(",") if len(sys.argv) > 3 else []
    dst = os.path.join(VERIF, "seeded", name)
    meta = json.load(open(os.path.join(dst, "meta.json")))
    cmd = [os.path.join(VERIF, "tools", "eval_seeded.py"), dst]
    props = [meta["property"]] + extra
    cmd += ["--props", ",".join(props)]
    r = subprocess.run(cmd, capture_output=True, text=True)
    t = r.stdout
    ev = json.loads(t[t.index("{"):])
    checks = ev["checks"]
    meta["confirmed_by_me"].update({
        "patch_applies_to_repo_head": ev["patch_applies"],
        "repo_tests_pass_with_change": ev["tests_pass_with_change"],
        "demo_exit_without_change": ev["demo_without"],
        "demo_exit_with_change": ev["demo_with"]})
    for p, c in checks.items():
        meta["checks"][p] = {"tier": "quick", "exit": c["exit"], "violations": c["violations"],
                             "first_bucket": (c["first"][:1] or [None])[0]}
    meta["caught_by"] = [p for p, c in meta["checks"].items() if c["exit"] == 1]
    if note:
        meta["history"] = (meta.get("history", "") + " " + note).strip()
    json.dump(meta, open(os.path.join(dst, "meta.json"), "w"), indent=1)
    print(name, "caught by", meta["caught_by"] or "NOBODY", "|",
          (list(checks.values())[0]["first"][:1] or [""])[0][:200])


if __name__ == "__main__":
    main()
