#!/venv/bin/python
"""Evaluate a seeded change (seeded/<name>/{patch.diff,demo.py,meta.json}):
 1. the patch applies to a scratch copy of /repo's working tree (under /var/tmp),
 2. the repository's tests still pass with it,
 3. the demonstration passes without and fails with the change,
 4. the property's check (quick tier; thorough with --thorough) reports a VIOLATION.
usage: tools/eval_seeded.py seeded/<name> [--thorough] [--props C01,C02]
"""
import json
import os
import shutil
import subprocess
import sys
import tempfile

VERIF = os.path.dirname(os.path.dirname(os.path.abspath(__file__)))


def run(cmd, **kw):
    return subprocess.run(cmd, capture_output=True, text=True, **kw)


def main():
    d = os.path.abspath(sys.argv[1])
    meta = json.load(open(os.path.join(d, "meta.json")))
    props = meta["properties"] if "properties" in meta else [meta["property"]]
    for a in sys.argv[2:]:
        if a.startswith("--props"):
            props = sys.argv[sys.argv.index(a) + 1].split(",")
    tier = "thorough" if "--thorough" in sys.argv else "quick"
    tmp = tempfile.mkdtemp(prefix="pymbolic-seed.", dir="/var/tmp")
    out = {"name": os.path.basename(d)}
    try:
        shutil.copytree("/repo/pymbolic", os.path.join(tmp, "pymbolic"))
        shutil.copytree("/repo/test", os.path.join(tmp, "test"))
        env = {**os.environ, "PYTHONPATH": tmp}
        demo = os.path.join(d, "demo.py")
        r0 = run(["/venv/bin/python", "-W", "ignore", demo], env=env, cwd=tmp)
        out["demo_without"] = r0.returncode
        r = run(["patch", "-p1", "-i", os.path.join(d, "patch.diff")], cwd=tmp)
        out["patch_applies"] = r.returncode == 0
        if r.returncode != 0:
            print(r.stdout, r.stderr)
        r1 = run(["/venv/bin/python", "-W", "ignore", demo], env=env, cwd=tmp)
        out["demo_with"] = r1.returncode
        rt = run(["/venv/bin/python", "-m", "pytest", "-q", "-p", "no:cacheprovider", "test"],
                 env=env, cwd=tmp)
        out["tests_pass_with_change"] = rt.returncode == 0
        out["tests_tail"] = rt.stdout.strip().splitlines()[-1:] if rt.stdout else []
        out["checks"] = {}
        for p in props:
            e2 = {**os.environ, "PYMBOLIC_SRC": tmp, "VERIF_OUT_DIR": tmp}
            rc = run([os.path.join(VERIF, "check"), p, tier], env=e2)
            viol = [ln for ln in rc.stdout.splitlines() if ln.startswith("VIOLATION")]
            first = [ln.strip()[:260] for ln in rc.stdout.splitlines() if ln.startswith("  [")][:3]
            out["checks"][p] = {"exit": rc.returncode, "violations": len(viol),
                                "first": first,
                                "summary": rc.stdout.strip().splitlines()[-1:] }
    finally:
        shutil.rmtree(tmp, ignore_errors=True)
    print(json.dumps(out, indent=1))


if __name__ == "__main__":
    main()
