#!/venv/bin/python
"""Regenerate MANIFEST.json from the property modules that exist."""
import importlib
import json
import os
import sys

VERIF = os.path.dirname(os.path.dirname(os.path.abspath(__file__)))
sys.path.insert(0, VERIF)
import warnings  # noqa: E402
warnings.simplefilter("ignore")

NOT_BUILT_REASON = {}

props = [json.loads(ln) for ln in open(os.path.join(VERIF, "properties.jsonl"))]
checks, na = [], []
for p in props:
    pid = p["id"]
    path = os.path.join(VERIF, "pbt", "props", pid.lower() + ".py")
    registered = set(open(os.path.join(VERIF, "tools", "registered.txt")).read().split())
    if not os.path.exists(path) or pid not in registered:
        na.append({"property_id": pid, "reason": NOT_BUILT_REASON.get(
            pid, "check not built yet in this revision of /verif (planned in DESIGN.md section 4); nothing is claimed")})
        continue
    m = importlib.import_module(f"pbt.props.{pid.lower()}")
    if getattr(m, "NOT_CLAIMED", None):
        na.append({"property_id": pid, "reason": m.NOT_CLAIMED})
        continue
    mf = m.MANIFEST
    checks.append({
        "property_id": pid,
        "quick_cmd": f"./check {pid} quick",
        "thorough_cmd": f"./check {pid} thorough",
        "evidence_file": f"evidence/{pid}.json",
        "replay_cmd_template": f"./check {pid} --replay {{path}}",
        "engine": "pbt",
        "level_claimed": {"category": m.LEVEL, "text": mf["text"],
                          "design_ref": mf.get("design_ref", "DESIGN.md section 4")},
        "level_note": mf["note"],
        "technique": mf["technique"],
    })

manifest = {
    "version": 1,
    "setup_cmd": "./setup.sh",
    "hooks": {
        "guard": "PYMBOLIC_VERIF",
        "enable": "no hooks are compiled into /repo: checks observe pymbolic through instrumented subclasses and environments defined in /verif; PYMBOLIC_VERIF is reserved and unused",
        "baseline_off_cmd": "cd /repo && /venv/bin/python -m pytest -ra -q -p no:cacheprovider --timeout=900 --continue-on-collection-errors",
        "source_commits": [],
        "add_only": True,
    },
    "engines": [{
        "name": "pbt", "path": "pbt/",
        "serves_properties": [c["property_id"] for c in checks],
        "kind_free_text": "Hypothesis-driven and exhaustive generated-input search against independent oracles (reference interpreter, CPython, gcc, exact normal forms), collect-then-shrink runner with replay files",
    }],
    "checks": checks,
    "not_applicable": na,
    "notes": "See DESIGN.md. Known findings and fixed defects are listed in known_findings.json; exit 2 of a check means harness error, never a violation.",
}
with open(os.path.join(VERIF, "MANIFEST.json"), "w") as f:
    json.dump(manifest, f, indent=1)
    f.write("\n")
try:
    import jsonschema
    jsonschema.validate(manifest, json.load(open("/root/.vp/MANIFEST.schema.json")))
    print("MANIFEST.json valid;", len(checks), "checks,", len(na), "not claimed")
except ImportError:
    print("jsonschema missing; not validated")
