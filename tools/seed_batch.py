#!/venv/bin/python
"""Import seeded changes written by a sub-agent, evaluate them and write meta.json.

usage: tools/seed_batch.py <ID> <round> [extra props, comma separated]
  round 1: /tmp/seedout-<ID>/changeK  -> seeded/<ID>-K
  round 2: /tmp/seedout2-<ID>/changeK -> seeded/<ID>-r2-K
"""
import glob
import json
import os
import re
import shutil
import subprocess
import sys

VERIF = os.path.dirname(os.path.dirname(os.path.abspath(__file__)))


def main():
    prop, rnd = sys.argv[1], int(sys.argv[2])
    extra = sys.argv[3].split(",") if len(sys.argv) > 3 else []
    src_root = f"/tmp/seedout{'' if rnd == 1 else rnd}-{prop}"
    for src in sorted(glob.glob(os.path.join(src_root, "change*"))):
        k = re.sub(r"\D", "", os.path.basename(src))
        name = f"{prop}-{k}" if rnd == 1 else f"{prop}-r{rnd}-{k}"
        dst = os.path.join(VERIF, "seeded", name)
        os.makedirs(dst, exist_ok=True)
        for f in ("patch.diff", "demo.py", "notes.md"):
            if os.path.exists(os.path.join(src, f)):
                shutil.copy(os.path.join(src, f), os.path.join(dst, f))
        if not os.path.exists(os.path.join(dst, "meta.json")):
            json.dump({"property": prop}, open(os.path.join(dst, "meta.json"), "w"))
        cmd = [os.path.join(VERIF, "tools", "eval_seeded.py"), dst]
        if extra:
            cmd += ["--props", ",".join([prop] + extra)]
        r = subprocess.run(cmd, capture_output=True, text=True)
        t = r.stdout
        try:
            ev = json.loads(t[t.index("{"):])
        except Exception:
            print(name, "EVALUATION FAILED", r.stdout[-500:], r.stderr[-500:])
            continue
        notes = ""
        if os.path.exists(os.path.join(dst, "notes.md")):
            notes = open(os.path.join(dst, "notes.md")).read()
        m = re.search(r"(?is)(need[^\n]*\n(?:.*\n){0,12})", notes)
        checks = ev["checks"]
        meta = {
            "property": prop,
            "round": rnd,
            "origin": "independent sub-agent that was given only the property record and its "
                      "own scratch git worktree of /repo (nothing from /verif)",
            "needs_to_manifest": (m.group(1).strip()[:900] if m else "see notes.md"),
            "confirmed_by_me": {
                "patch_applies_to_repo_head": ev["patch_applies"],
                "repo_tests_pass_with_change": ev["tests_pass_with_change"],
                "demo_exit_without_change": ev["demo_without"],
                "demo_exit_with_change": ev["demo_with"],
                "how": f"tools/eval_seeded.py seeded/{name} (scratch copy of /repo under "
                       "/var/tmp, patch -p1, pytest, demo.py, ./check <ID> quick with "
                       "PYMBOLIC_SRC)"},
            "checks": {p: {"tier": "quick", "exit": c["exit"], "violations": c["violations"],
                           "first_bucket": (c["first"][:1] or [None])[0]}
                       for p, c in checks.items()},
            "caught_by": [p for p, c in checks.items() if c["exit"] == 1],
        }
        old = json.load(open(os.path.join(dst, "meta.json")))
        if "history" in old:
            meta["history"] = old["history"]
        json.dump(meta, open(os.path.join(dst, "meta.json"), "w"), indent=1)
        ok = (ev["patch_applies"] and ev["tests_pass_with_change"]
              and ev["demo_without"] == 0 and ev["demo_with"] != 0)
        print(name, "valid" if ok else "INVALID-SEED", "caught by", meta["caught_by"] or "NOBODY",
              "|", (list(checks.values())[0]["first"][:1] or [""])[0][:160])


if __name__ == "__main__":
    main()
