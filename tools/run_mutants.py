#!/venv/bin/python
"""Sensitivity protocol (DESIGN.md 3.3): apply hand-made single-edit mutants to
a scratch copy of /repo/pymbolic under /var/tmp and run a check against it.

usage: tools/run_mutants.py C02 [quick|thorough] [--tests] [--only NAME]
Mutants live in mutants/<ID>.json: [{"name", "file", "old", "new"}] with
file relative to /repo.  Exit 0 if all mutants are killed.
"""
import json
import os
import shutil
import subprocess
import sys
import tempfile

VERIF = os.path.dirname(os.path.dirname(os.path.abspath(__file__)))


def main():
    prop = sys.argv[1]
    tier = "quick"
    run_tests = "--tests" in sys.argv
    only = None
    if "--only" in sys.argv:
        only = sys.argv[sys.argv.index("--only") + 1]
    if "thorough" in sys.argv:
        tier = "thorough"
    muts = json.load(open(os.path.join(VERIF, "mutants", prop + ".json")))
    results = []
    # mutants that do not break *this* property (examined by hand): kept as a record of
    # what the check is not expected to flag; {"equivalent": "<reason>"} in the file
    why = {m["name"]: m["equivalent"] for m in muts if m.get("equivalent")}

    def one(m):
        tmp = tempfile.mkdtemp(prefix="pymbolic-mut.", dir="/var/tmp")
        try:
            shutil.copytree("/repo/pymbolic", os.path.join(tmp, "pymbolic"))
            shutil.copytree("/repo/test", os.path.join(tmp, "test"))
            path = os.path.join(tmp, m["file"])
            src = open(path).read()
            if src.count(m["old"]) != 1:
                return (m["name"], f"PATCH-FAILED ({src.count(m['old'])} matches)", "", [])
            open(path, "w").write(src.replace(m["old"], m["new"]))
            tests = ""
            if run_tests:
                try:
                    r = subprocess.run(
                        ["/venv/bin/python", "-m", "pytest", "-q", "-x", "-p",
                         "no:cacheprovider", "test"], cwd=tmp,
                        env={**os.environ, "PYTHONPATH": tmp}, capture_output=True,
                        text=True, timeout=600)
                    tests = "tests-pass" if r.returncode == 0 else "TESTS-FAIL"
                except subprocess.TimeoutExpired:
                    tests = "TESTS-HANG"
            env = {**os.environ, "PYMBOLIC_SRC": tmp, "VERIF_OUT_DIR": tmp}
            r = subprocess.run([os.path.join(VERIF, "check"), prop, tier], env=env,
                               capture_output=True, text=True)
            viol = [ln for ln in r.stdout.splitlines() if ln.startswith("VIOLATION")]
            first = [ln for ln in r.stdout.splitlines() if ln.startswith("  [")][:2]
            status = {0: "SURVIVED", 1: "killed", 2: "HARNESS-ERROR"}.get(r.returncode, str(r.returncode))
            if r.returncode == 2:
                first.append(r.stdout[-1500:] + r.stderr[-1500:])
            return (m["name"], f"{status} ({len(viol)} violations)", tests, first)
        finally:
            shutil.rmtree(tmp, ignore_errors=True)

    from concurrent.futures import ThreadPoolExecutor
    sel = [m for m in muts if not only or m["name"] == only]
    with ThreadPoolExecutor(int(os.environ.get("MUT_PAR", "4"))) as ex:
        for res in ex.map(one, sel):
            results.append(res)
            print(res[0], res[1], res[2], flush=True)
            for ln in res[3]:
                print("   ", ln[:220])
    os.makedirs(os.path.join(VERIF, "mutants", "results"), exist_ok=True)
    if not only:
        with open(os.path.join(VERIF, "mutants", "results", prop + ".json"), "w") as f:
            json.dump({"property": prop, "tier": tier,
                       "results": [{"mutant": r[0], "outcome": r[1], "repo_tests": r[2],
                                    **({"not_a_violation_because": why[r[0]]}
                                       if r[0] in why and not r[1].startswith("killed")
                                       else {})}
                                   for r in results]}, f, indent=1)
    surv = [r for r in results if not r[1].startswith("killed") and r[0] not in why]
    for r in results:
        if not r[1].startswith("killed") and r[0] in why:
            print(f"  {r[0]}: survives as declared - {why[r[0]]}")
    print(f"{prop}: {len(results) - len(surv)}/{len(results)} mutants killed")
    # restore evidence/replays polluted by mutant runs is the caller's job
    return 0 if not surv else 1


if __name__ == "__main__":
    sys.exit(main())
