#!/bin/bash
# tools/import_seeded.sh C04   -> copies /tmp/seedout-C04/change{1,2} to seeded/C04-{1,2}
p=$1
for k in 1 2; do
  src=/tmp/seedout-$p/change$k
  [ -d "$src" ] || continue
  dst=/verif/seeded/$p-$k
  mkdir -p $dst
  cp $src/patch.diff $src/demo.py $dst/
  [ -f $src/notes.md ] && cp $src/notes.md $dst/notes.md
  if [ ! -f $dst/meta.json ]; then
    printf '{\n "property": "%s",\n "origin": "independent sub-agent given only the property record and a scratch worktree of /repo",\n "needs_to_manifest": "see notes.md",\n "evaluation": null\n}\n' "$p" > $dst/meta.json
  fi
done
