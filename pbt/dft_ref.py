"""The discrete Fourier transform straight from its definition (O(n^2)), used
as the oracle for pymbolic.algorithm.fft / ifft / sym_fft (C19).

    F[x]_k = sum_j z^(k*j) x_j,   z = exp(-2 i pi sign / n)

The twiddle factor is taken at the exponent k*j reduced mod n in
integer arithmetic (so the argument of exp never grows), and real and
imaginary parts are summed with math.fsum (correctly rounded sums), so the
reference is accurate to a few ulp of the largest term for every n used here.
"""
from __future__ import annotations

import cmath
import math


def twiddles(n, sign=1):
    out = []
    for m in range(n):
        # exact values on the axes keep small cases exact
        if (4 * m) % n == 0:
            q = (4 * m) // n % 4
            w = (1, -1j, -1, 1j)[q] if sign == 1 else (1, 1j, -1, -1j)[q]
            out.append(complex(w))
        else:
            out.append(cmath.exp(-2j * math.pi * sign * m / n))
    return out


FSUM_MAX_N = 64


def dft(x, sign=1):
    """x: sequence of complex; returns list of complex.

    Up to FSUM_MAX_N points: pure Python with correctly rounded sums.  Longer
    inputs: the same twiddle table (one cmath.exp per residue), gathered into
    the n x n matrix and multiplied with numpy (pairwise float accumulation: error
    about n * 1e-16 relative, far inside the tolerance of the check) - the pure
    Python loop costs 0.1-0.5 s per case there, too close to the case timeout
    on a busy machine."""
    n = len(x)
    if n == 0:
        raise ValueError("empty input")
    w = twiddles(n, sign)
    if n > FSUM_MAX_N:
        import numpy as np
        idx = np.outer(np.arange(n), np.arange(n)) % n
        mat = np.array(w, dtype=np.complex128)[idx]
        # elementwise product + pairwise summation: no BLAS call (threaded BLAS
        # under forked, oversubscribed workers stalled for > 20 s)
        prod = mat * np.array(x, dtype=np.complex128)[None, :]
        return [complex(v) for v in prod.sum(axis=1)]
    out = []
    for k in range(n):
        terms = [w[(k * j) % n] * x[j] for j in range(n)]
        out.append(complex(math.fsum(t.real for t in terms),
                           math.fsum(t.imag for t in terms)))
    return out


def idft(x):
    n = len(x)
    return [v / n for v in dft(x, sign=-1)]


def max_abs(v):
    return max((abs(c) for c in v), default=0.0)


def max_err(got, want):
    """Largest |got_k - want_k|; inf if a component is not finite."""
    worst = 0.0
    for g, w in zip(got, want):
        d = abs(complex(g) - complex(w))
        if d != d or d == float("inf"):
            return float("inf")
        worst = max(worst, d)
    return worst
