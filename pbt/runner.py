"""Runner: tiers, seeds, sharding, collect-then-shrink, known findings,
replay files and evidence.  See DESIGN.md section 2.4.

A property module (pbt/props/cNN.py) provides

    PROP, LEVEL, RULE, ASSUMPTIONS
    CHECKS = {sub_name: fn(spec) -> Result}
    generate(ctx)            drives generators, calls ctx.judge(sub, spec)
    HEALTH = {label: minimum share of judged cases}          (optional)
    KNOWN = {finding_id: predicate(sub, spec, fail) -> bool}  (optional)
    finalize(ctx, coverage)  extra coverage keys              (optional)
"""
from __future__ import annotations

import hashlib
import importlib
import json
import multiprocessing
import os
import sys
import time
import traceback
import warnings
from collections import Counter

from pbt.spec import HarnessError, is_node_spec, spec_size

VERIF = os.path.dirname(os.path.dirname(os.path.abspath(__file__)))
# evidence/ and replays/ go here (sensitivity runs redirect them to scratch)
OUT = os.environ.get("VERIF_OUT_DIR") or VERIF
MAX_FAILS_PER_BUCKET = 40
SHRINK_STEPS = 600


# {{{ results of one comparison

class Fail:
    def __init__(self, kind, detail):
        self.kind = kind
        self.detail = str(detail)[:1500]

    def __repr__(self):
        return f"Fail({self.kind!r}, {self.detail!r})"


class Result:
    """What one check function reports for one case."""

    def __init__(self):
        self.fails = []
        self.labels = []
        self.nontrivial = False
        self.skipped = None
        self.comparisons = 0
        self.sample = None

    def fail(self, kind, detail=""):
        if not any(f.kind == kind for f in self.fails):  # one per kind and case
            self.fails.append(Fail(kind, detail))
        return self

    def label(self, *names):
        self.labels.extend(names)
        return self

    def skip(self, reason):
        self.skipped = reason
        return self

    def compared(self, n=1):
        self.comparisons += n

    @property
    def ok(self):
        return not self.fails

# }}}


def spec_hash(sub, spec):
    return hashlib.sha1(
        (sub + "\0" + json.dumps(spec, sort_keys=True, default=repr)).encode()
    ).hexdigest()[:16]


def _crash_site(exc):
    tb = traceback.extract_tb(exc.__traceback__)
    innermost = tb[-1].filename if tb else ""
    site = None
    for fs in tb:
        if "/pymbolic/" in fs.filename and "/verif/" not in fs.filename:
            site = fs.filename.split("/pymbolic/", 1)[1] + ":" + fs.name
    return innermost, site


class CaseTimeout(BaseException):
    pass


def _on_alarm(signum, frame):
    raise CaseTimeout()


CASE_TIMEOUT_S = float(os.environ.get("VERIF_CASE_TIMEOUT_S", "20"))


class _Heart:
    """Shared-memory heartbeat of a shard worker.  SIGALRM cannot interrupt a case
    that is stuck inside one C call (a huge integer power, say); the parent sees the
    start time of the running case, kills the worker when it is overdue, and restarts
    the shard with that case on the skip list."""

    SIZE = 1 << 18

    def __init__(self, ctxm):
        self.t0 = ctxm.Value("d", 0.0, lock=False)
        self.n = ctxm.Value("i", 0, lock=False)
        self.buf = ctxm.Array("c", self.SIZE, lock=False)
        self.skip = set()

    def begin(self, key):
        if len(key) <= self.SIZE:
            self.buf[:len(key)] = key
            self.n.value = len(key)
        else:
            self.n.value = -1
        self.t0.value = time.time()

    def end(self):
        self.t0.value = 0.0

    def current(self):
        n = self.n.value
        return bytes(self.buf[:n]) if n >= 0 else None


_HEART = None


def _case_key(sub, spec):
    return json.dumps([sub, spec], sort_keys=True, default=repr).encode()


def _hang_result(module, timeout, how=""):
    # the reference side is bounded by construction; a case that does not
    # finish is a hang of the code under test (violation) only where the
    # module says so, otherwise it is skipped and counted (inconclusive)
    r = Result()
    if getattr(module, "TIMEOUT_IS_FAIL", False):
        return r.fail("hang", f"case did not finish within {timeout}s{how}")
    return r.skip("case-timeout")


def run_check(module, sub, spec):
    """Run one comparison; never raises except HarnessError."""
    hb = _HEART
    if hb is None:
        return _run_check(module, sub, spec)
    key = _case_key(sub, spec)
    if key in hb.skip:
        return _hang_result(module, getattr(module, "CASE_TIMEOUT_S", CASE_TIMEOUT_S),
                            " (uninterruptible: the worker had to be killed)")
    hb.begin(key)
    try:
        return _run_check(module, sub, spec)
    finally:
        hb.end()


def _run_check(module, sub, spec):
    import signal
    fn = module.CHECKS[sub]
    timeout = getattr(module, "CASE_TIMEOUT_S", CASE_TIMEOUT_S)
    try:
        old = signal.signal(signal.SIGALRM, _on_alarm)
        # periodic after the first shot: an exception raised by the handler can get
        # lost where the interpreter cannot propagate it (a __del__, a C callback)
        signal.setitimer(signal.ITIMER_REAL, timeout, 1.0)
        try:
            with warnings.catch_warnings():
                warnings.simplefilter("ignore")
                res = fn(spec)
        finally:
            signal.setitimer(signal.ITIMER_REAL, 0)
            signal.signal(signal.SIGALRM, old)
    except CaseTimeout:
        return _hang_result(module, timeout)
    except HarnessError:
        raise
    except RecursionError:
        r = Result()
        return r.skip("recursion limit")
    except Exception as exc:  # escaped the check function
        # Explicit HarnessError (above) is the machinery's way to say "bad spec".
        # Anything else means the code under test produced an object or an
        # exception the oracle could not even process: recorded as a failure
        # (on the unchanged tree such a bucket has to be fixed like any other).
        innermost, site = _crash_site(exc)
        r = Result()
        where = site if site is not None else (
            "verif:" + os.path.basename(innermost))
        r.fail(f"crash:{type(exc).__name__}@{where}",
               "".join(traceback.format_exception(exc))[-1200:])
        return r
    if res is None:
        res = Result()
    if not isinstance(res, Result):
        raise HarnessError(f"check {sub} returned {type(res)}")
    return res


# {{{ generic spec shrinking

def _paths(x, path=()):
    """All (path, value) in BFS order (big pieces first)."""
    queue = [(path, x)]
    while queue:
        pth, v = queue.pop(0)
        yield pth, v
        if isinstance(v, list):
            for i, c in enumerate(v):
                if isinstance(c, (list, dict)) or (
                        isinstance(c, (int, float)) and not isinstance(c, bool)):
                    queue.append(((*pth, i), c))
        elif isinstance(v, dict):
            for k, c in v.items():
                if isinstance(c, (list, dict)) or (
                        isinstance(c, (int, float)) and not isinstance(c, bool)):
                    queue.append(((*pth, k), c))


def _replace(x, path, new):
    if not path:
        return new
    if isinstance(x, list):
        y = list(x)
        y[path[0]] = _replace(x[path[0]], path[1:], new)
        return y
    y = dict(x)
    y[path[0]] = _replace(x[path[0]], path[1:], new)
    return y


class ShrinkCfg:
    """How the generic shrinker sees a spec.  Modules may provide
    SHRINK = {"is_node": fn(x)->bool, "is_atom": fn(node)->bool, "leaves": [...]}"""

    def __init__(self, module=None):
        cfg = getattr(module, "SHRINK", {}) if module is not None else {}
        self.is_node = cfg.get("is_node", is_node_spec)
        self.is_atom = cfg.get(
            "is_atom", lambda v: v[0] in ("Var", "Const", "Frac"))
        self.leaves = cfg.get("leaves", _LEAVES)

    def direct_children(self, v):
        out = []

        def rec(c):
            if self.is_node(c):
                out.append(c)
            elif isinstance(c, list):
                for d in c:
                    rec(d)
        for c in v[1:]:
            rec(c)
        return out


_LEAVES = (["Const", "int", 0], ["Const", "int", 1], ["Const", "int", 2],
           ["Var", "x"])


def _candidates(spec, cfg):
    for pth, v in _paths(spec):
        if isinstance(v, list) and cfg.is_node(v):
            if cfg.is_atom(v):
                if len(v) == 3 and isinstance(v[2], (int, float)) \
                        and not isinstance(v[2], bool):
                    for nv in _smaller_numbers(v[2]):
                        yield _replace(spec, pth, [v[0], v[1], nv])
                continue
            for c in cfg.direct_children(v):
                yield _replace(spec, pth, c)
            for leaf in cfg.leaves:
                yield _replace(spec, pth, list(leaf))
            # also try dropping list elements inside the node (arity)
            for i, c in enumerate(v[1:], 1):
                if isinstance(c, list) and c and not cfg.is_node(c):
                    for j in range(len(c)):
                        yield _replace(spec, (*pth, i), c[:j] + c[j + 1:])
        elif isinstance(v, list):
            if len(v) > 0:
                for i in range(len(v)):
                    yield _replace(spec, pth, v[:i] + v[i + 1:])
        elif isinstance(v, dict):
            for k in list(v):
                d = dict(v)
                del d[k]
                yield _replace(spec, pth, d)
        elif isinstance(v, (int, float)) and not isinstance(v, bool):
            for nv in _smaller_numbers(v):
                yield _replace(spec, pth, nv)


def _smaller_numbers(v):
    if isinstance(v, float):
        cands = [0.0, 1.0, -1.0, float(int(v)), v / 2]
    else:
        cands = [0, 1, 2, -1, v // 2, -v if v < 0 else v - 1]
    seen = set()
    for c in cands:
        if c != v and abs(c) <= abs(v) and c not in seen and (
                abs(c) < abs(v) or (c > 0 > v)):
            seen.add(c)
            yield c


def shrink(spec, still_fails, max_steps=SHRINK_STEPS, max_seconds=15.0,
           module=None):
    cfg = ShrinkCfg(module)
    steps = 0
    improved = True
    t_end = time.time() + max_seconds
    while improved and steps < max_steps:
        improved = False
        for cand in _candidates(spec, cfg):
            steps += 1
            if steps > max_steps or time.time() > t_end:
                improved = False
                break
            try:
                ok = still_fails(cand)
            except HarnessError:
                ok = False
            if ok:
                spec = cand
                improved = True
                break
    return spec

# }}}


# {{{ known findings

def load_known(prop):
    path = os.path.join(VERIF, "known_findings.json")
    if not os.path.exists(path):
        return []
    with open(path) as f:
        data = json.load(f)
    entries = list(data.get("findings", []))
    # development aid only (never set by registered commands): extra entries
    # from fragment files, so a finding can be tried before it is merged
    for extra in filter(None, os.environ.get("VERIF_EXTRA_FINDINGS", "").split(":")):
        with open(extra) as f:
            d = json.load(f)
        entries.extend(d.get("findings", []) if isinstance(d, dict) else d)
    return [e for e in entries if e["property"] == prop]

# }}}


class Ctx:
    """Per-shard collection context handed to module.generate()."""

    def __init__(self, module, tier, seed, shard, nshards, budget_s):
        self.module = module
        self.prop = module.PROP
        self.tier = tier
        self.seed = seed
        self.shard = shard
        self.nshards = nshards
        self.t0 = time.time()
        self.budget_s = budget_s
        self.evaluations = 0
        self.comparisons = 0
        self.skipped = Counter()
        self.labels = Counter()
        self.sub_counts = Counter()
        self.nontrivial = set()
        self.samples = []
        self.fails = {}          # bucket -> list of (size, sub, spec, kind, detail)
        self.fail_counts = Counter()
        self.excluded_known = Counter()
        self.extra = Counter()   # free-form counters for finalize()
        self.exhaustive = {}
        self.budget_hit = False
        self.known_open = [e for e in load_known(self.prop)
                           if e.get("status") == "open"]
        self.known_preds = getattr(module, "KNOWN", {})
        for e in self.known_open:
            if e["id"] not in self.known_preds:
                raise HarnessError(
                    f"known finding {e['id']} has no predicate in {module.__name__}")

    # -- sizing -------------------------------------------------------------
    def n(self, quick, thorough=None):
        """Case count for this shard."""
        total = quick if self.tier == "quick" else (
            thorough if thorough is not None else quick * 20)
        return max(1, total // self.nshards)

    @property
    def hyp_seed(self):
        return self.seed * 1000 + self.shard

    def over_budget(self):
        if time.time() - self.t0 > self.budget_s:
            self.budget_hit = True
            return True
        return False

    def mine(self, i):
        """Shard filter for enumerated spaces."""
        return i % self.nshards == self.shard

    # -- judging ------------------------------------------------------------
    def known_match(self, sub, spec, fail):
        for e in self.known_open:
            try:
                if self.known_preds[e["id"]](sub, spec, fail):
                    return e["id"]
            except Exception as exc:
                raise HarnessError(
                    f"known-finding predicate {e['id']} raised: {exc!r}") from exc
        return None

    def judge(self, sub, spec):
        res = run_check(self.module, sub, spec)
        self.evaluations += 1
        self.sub_counts[sub] += 1
        self.comparisons += res.comparisons
        for lb in res.labels:
            self.labels[lb] += 1
        if res.skipped is not None:
            self.skipped[res.skipped] += 1
            return res
        if res.nontrivial:
            h = spec_hash(sub, spec)
            if h not in self.nontrivial:
                self.nontrivial.add(h)
                if len(self.samples) < 6:
                    self.samples.append(
                        {"sub": sub, "case": res.sample if res.sample is not None
                         else spec})
        for f in res.fails:
            kid = self.known_match(sub, spec, f)
            if kid is not None:
                self.excluded_known[kid] += 1
                continue
            bucket = f"{sub}|{f.kind}"
            self.fail_counts[bucket] += 1
            lst = self.fails.setdefault(bucket, [])
            if len(lst) < MAX_FAILS_PER_BUCKET:
                lst.append((spec_size(spec), sub, spec, f.kind, f.detail))
        return res

    # -- hypothesis driver --------------------------------------------------
    def run_given(self, strategy, body, n_cases):
        """Run *body(value)* on n_cases generated values (generation only:
        the body records failures through judge() and never raises)."""
        import hypothesis
        from hypothesis import HealthCheck, Phase, given, settings

        ctx = self

        @hypothesis.seed(self.hyp_seed)
        @settings(max_examples=n_cases, database=None, deadline=None,
                  phases=[Phase.generate], report_multiple_bugs=False,
                  suppress_health_check=list(HealthCheck))
        @given(strategy)
        def test(value):
            if ctx.over_budget():
                return
            body(value)

        test()

    def partial(self):
        return {
            "evaluations": self.evaluations,
            "comparisons": self.comparisons,
            "skipped": dict(self.skipped),
            "labels": dict(self.labels),
            "sub_counts": dict(self.sub_counts),
            "nontrivial": self.nontrivial,
            "samples": self.samples,
            "fails": self.fails,
            "fail_counts": dict(self.fail_counts),
            "excluded_known": dict(self.excluded_known),
            "extra": dict(self.extra),
            "exhaustive": self.exhaustive,
            "budget_hit": self.budget_hit,
        }


def _worker(args, heart=None, skip=()):
    global _HEART
    modname, tier, seed, shard, nshards, budget_s = args
    warnings.simplefilter("ignore")
    if heart is not None:
        heart.skip = set(skip)
        _HEART = heart
    try:
        import resource
        lim = int(os.environ.get("VERIF_MEM_GB", "6")) << 30
        resource.setrlimit(resource.RLIMIT_AS, (lim, lim))
    except Exception:
        pass
    try:
        module = importlib.import_module(modname)
        ctx = Ctx(module, tier, seed, shard, nshards, budget_s)
        module.generate(ctx)
        return ("ok", ctx.partial())
    except BaseException as exc:
        return ("harness-error", "".join(traceback.format_exception(exc)))


def _shard_main(args, heart, skip, conn):
    try:
        out = _worker(args, heart, skip)
    except BaseException as exc:        # noqa: BLE001
        out = ("harness-error", "".join(traceback.format_exception(exc)))
    try:
        conn.send(out)
    finally:
        conn.close()
    os._exit(0)


GRACE_S = 15.0
MAX_RESTARTS = 6


def _run_shards(module, args):
    """One process per shard, watched: a worker whose current case is overdue by more
    than the case timeout plus a grace period (SIGALRM did not get through) is killed
    and its shard restarted with that case on the skip list.  -> list of (status,
    payload) like Pool.map(_worker, args)."""
    ctxm = multiprocessing.get_context("fork")
    timeout = getattr(module, "CASE_TIMEOUT_S", CASE_TIMEOUT_S)
    n = len(args)
    outs = [None] * n
    skips = [[] for _ in range(n)]
    restarts = [0] * n
    live = {}

    def start(i):
        heart = _Heart(ctxm)
        rd, wr = ctxm.Pipe(duplex=False)
        p = ctxm.Process(target=_shard_main, args=(args[i], heart, skips[i], wr))
        p.daemon = True
        p.start()
        wr.close()
        live[i] = (p, rd, heart)

    for i in range(n):
        start(i)
    while live:
        time.sleep(0.05)
        for i in list(live):
            p, rd, heart = live[i]
            if rd.poll():
                try:
                    outs[i] = rd.recv()
                except (EOFError, OSError) as exc:
                    outs[i] = ("harness-error", f"shard {i}: result lost ({exc!r})")
                p.join(10)
                if p.is_alive():
                    p.kill()
                del live[i]
                continue
            if not p.is_alive():
                if rd.poll():
                    continue            # picked up in the next round
                outs[i] = ("harness-error",
                           f"shard {i} died without a result (exit code {p.exitcode})")
                del live[i]
                continue
            t0 = heart.t0.value
            if t0 and time.time() - t0 > timeout + GRACE_S:
                key = heart.current()
                p.kill()
                p.join()
                del live[i]
                if key is None or restarts[i] >= MAX_RESTARTS:
                    outs[i] = ("harness-error",
                               f"shard {i}: a case hangs uninterruptibly and cannot be "
                               "skipped" if key is None else
                               f"shard {i}: more than {MAX_RESTARTS} uninterruptible hangs")
                    continue
                skips[i].append(key)
                restarts[i] += 1
                start(i)
    return outs


def _guarded(fn, hard_timeout_s):
    """fn() in a forked child -> ("ok", value) | ("hung", None) | ("error", text)."""
    ctxm = multiprocessing.get_context("fork")
    rd, wr = ctxm.Pipe(duplex=False)

    def body():
        try:
            out = ("ok", fn())
        except BaseException as exc:    # noqa: BLE001
            out = ("error", "".join(traceback.format_exception(exc)))
        try:
            wr.send(out)
        finally:
            os._exit(0)

    p = ctxm.Process(target=body)
    p.daemon = True
    p.start()
    wr.close()
    t_end = time.time() + hard_timeout_s
    while time.time() < t_end:
        if rd.poll(0.1):
            try:
                out = rd.recv()
            except (EOFError, OSError):
                out = ("error", "result lost")
            p.join(5)
            if p.is_alive():
                p.kill()
            return out
        if not p.is_alive() and not rd.poll():
            return ("error", f"child died (exit code {p.exitcode})")
    p.kill()
    p.join()
    return ("hung", None)


def _merge(parts):
    m = {"evaluations": 0, "comparisons": 0, "skipped": Counter(),
         "labels": Counter(), "sub_counts": Counter(), "nontrivial": set(),
         "samples": [], "fails": {}, "fail_counts": Counter(),
         "excluded_known": Counter(), "extra": Counter(), "exhaustive": {},
         "budget_hit": False}
    for pt in parts:
        m["evaluations"] += pt["evaluations"]
        m["comparisons"] += pt["comparisons"]
        for k in ("skipped", "labels", "sub_counts", "fail_counts",
                  "excluded_known", "extra"):
            m[k].update(pt[k])
        m["nontrivial"] |= pt["nontrivial"]
        if len(m["samples"]) < 8:
            m["samples"].extend(pt["samples"][:2])
        for b, lst in pt["fails"].items():
            m["fails"].setdefault(b, []).extend(lst)
        for k, v in pt["exhaustive"].items():
            m["exhaustive"][k] = m["exhaustive"].get(k, 0) + v
        m["budget_hit"] = m["budget_hit"] or pt["budget_hit"]
    return m


def _write_replay(prop, sub, spec, kind, detail):
    d = os.path.join(OUT, "replays", prop)
    os.makedirs(d, exist_ok=True)
    h = spec_hash(sub, spec)
    path = os.path.join(d, h + ".json")
    with open(path, "w") as f:
        json.dump({"property": prop, "sub": sub, "spec": spec, "kind": kind,
                   "detail": detail}, f, indent=1, default=repr)
    return os.path.relpath(path, OUT)


def replay_file(module, path):
    with open(path) as f:
        rp = json.load(f)
    return rp, run_check(module, rp["sub"], rp["spec"])


def validate_evidence(ev):
    try:
        import jsonschema
    except ImportError:
        return
    schema_path = "/root/.vp/EVIDENCE.schema.json"
    if not os.path.exists(schema_path):
        schema_path = os.path.join(VERIF, "pbt", "EVIDENCE.schema.json")
    if not os.path.exists(schema_path):
        return
    with open(schema_path) as f:
        jsonschema.validate(ev, json.load(f))


def main(argv=None):
    argv = list(sys.argv[1:] if argv is None else argv)
    if not argv:
        print("usage: check <ID> [quick|thorough] [--replay PATH]", file=sys.stderr)
        return 2
    prop = argv[0].upper()
    tier = os.environ.get("VERIF_TIER", "quick")
    replay = None
    i = 1
    while i < len(argv):
        if argv[i] in ("quick", "thorough"):
            tier = argv[i]
        elif argv[i] == "--replay":
            replay = argv[i + 1]
            i += 1
        i += 1
    seed = int(os.environ.get("VERIF_SEED", "1") or 1)
    warnings.simplefilter("ignore")
    modname = f"pbt.props.{prop.lower()}"
    try:
        module = importlib.import_module(modname)
    except Exception:
        traceback.print_exc()
        print(f"HARNESS-ERROR: cannot import {modname}")
        return 2

    src = os.environ.get("PYMBOLIC_SRC")
    if src:
        import pymbolic
        if not os.path.abspath(pymbolic.__file__).startswith(os.path.abspath(src)):
            print(f"HARNESS-ERROR: PYMBOLIC_SRC={src} but pymbolic is {pymbolic.__file__}")
            return 2
    t0 = time.time()
    try:
        return _main(module, prop, tier, seed, replay, t0)
    except HarnessError as exc:
        print(f"HARNESS-ERROR: {exc}")
        return 2


def _main(module, prop, tier, seed, replay, t0):
    known = load_known(prop)
    known_open = [e for e in known if e.get("status") == "open"]
    preds = getattr(module, "KNOWN", {})

    def known_match(sub, spec, fail):
        for e in known_open:
            if preds[e["id"]](sub, spec, fail):
                return e["id"]
        return None

    # -- replay of a single file -------------------------------------------
    if replay is not None:
        timeout = getattr(module, "CASE_TIMEOUT_S", CASE_TIMEOUT_S)
        st, val = _guarded(lambda: replay_file(module, replay), timeout + GRACE_S)
        if st == "hung":
            with open(replay) as f:
                rp = json.load(f)
            res = _hang_result(module, timeout, " (uninterruptible)")
        elif st == "error":
            print("HARNESS-ERROR: replay failed:\n" + val)
            return 2
        else:
            rp, res = val
        bad = [f for f in res.fails if known_match(rp["sub"], rp["spec"], f) is None]
        if bad:
            for f in bad:
                print(f"  {f.kind}: {f.detail}")
            print(f"VIOLATION property={prop} replay={replay}")
            return 1
        print(f"replay {replay}: property held"
              + (" (matches a known finding)" if res.fails else ""))
        return 0

    violations = []
    # -- known-finding witnesses, fixed-finding regressions ----------------
    stale = []
    for e in known:
        for w in e.get("witnesses", []):
            res = run_check(module, w["sub"], w["spec"])
            if e.get("status") == "open":
                if res.fails:
                    print(f"KNOWN-FINDING: property={prop} {e['id']} {e['what']}")
                    break
                else:
                    stale.append(e["id"])
            else:
                for f in res.fails:
                    path = _write_replay(prop, w["sub"], w["spec"], f.kind, f.detail)
                    print(f"  regression of fixed finding {e['id']}: {f.kind}: "
                          f"{f.detail[:300]}")
                    print(f"VIOLATION property={prop} replay={path}")
                    violations.append(path)
                    break

    # -- committed regression replays --------------------------------------
    regdir = os.path.join(VERIF, "replays", "regressions", prop)
    n_reg = 0
    if os.path.isdir(regdir):
        for fn in sorted(os.listdir(regdir)):
            if not fn.endswith(".json"):
                continue
            n_reg += 1
            rp, res = replay_file(module, os.path.join(regdir, fn))
            bad = [f for f in res.fails
                   if known_match(rp["sub"], rp["spec"], f) is None]
            if bad:
                rel = os.path.relpath(os.path.join(regdir, fn), VERIF)
                print(f"  regression replay fails: {bad[0].kind}: {bad[0].detail[:300]}")
                print(f"VIOLATION property={prop} replay={rel}")
                violations.append(rel)

    # -- generation --------------------------------------------------------
    default_jobs = 4 if tier == "quick" else 16
    jobs = int(os.environ.get("VERIF_JOBS", default_jobs))
    jobs = max(1, min(jobs, os.cpu_count() or 1))
    budget = float(os.environ.get(
        "VERIF_BUDGET_S", getattr(module, "BUDGET_S", {}).get(
            tier, 240 if tier == "quick" else 3000)))
    args = [(module.__name__, tier, seed, s, jobs, budget) for s in range(jobs)]
    outs = _run_shards(module, args)
    for st, payload in outs:
        if st != "ok":
            print("HARNESS-ERROR: worker failed:\n" + payload)
            return 2
    m = _merge([pl for _, pl in outs])

    # -- shrink one representative per bucket ------------------------------
    reps = {}
    for bucket in sorted(m["fails"]):
        lst = sorted(m["fails"][bucket], key=lambda t: (t[0], json.dumps(t[2], default=repr)))
        reps[bucket] = lst[0]

    def shrink_all():
        out = {}
        shrink_deadline = time.time() + 90
        for bucket, (size, sub, spec, kind, detail) in reps.items():
            if kind == "hang":
                continue        # every attempt would cost a full timeout

            def still_fails(cand, sub=sub, kind=kind):
                res = run_check(module, sub, cand)
                return any(f.kind == kind and known_match(sub, cand, f) is None
                           for f in res.fails)
            try:
                small = shrink(spec, still_fails, max_seconds=max(
                    0.5, min(15.0, shrink_deadline - time.time())), module=module)
            except Exception:
                small = spec
            res = run_check(module, sub, small)
            det = next((f.detail for f in res.fails if f.kind == kind), detail)
            out[bucket] = (small, det)
        return out

    shrunk = {}
    if reps:
        # in a child with a hard deadline: a shrink candidate may hang the code under
        # test in a way SIGALRM cannot interrupt; then the unshrunk cases are reported
        st, val = _guarded(shrink_all, 90 + 15 * len(reps) + 60)
        if st == "ok":
            shrunk = val
    for bucket, (size, sub, spec, kind, detail) in reps.items():
        small, det = shrunk.get(bucket, (spec, detail))
        path = _write_replay(prop, sub, small, kind, det)
        print(f"  [{bucket}] x{m['fail_counts'][bucket]}: {det[:400]}")
        print(f"VIOLATION property={prop} replay={path}")
        violations.append(path)

    # -- health ------------------------------------------------------------
    health_msgs = []
    judged = max(1, m["evaluations"])
    for lb, floor in getattr(module, "HEALTH", {}).items():
        share = m["labels"].get(lb, 0) / judged
        if share < floor:
            health_msgs.append(f"label {lb!r} share {share:.4f} < floor {floor}")
    n_skipped = sum(m["skipped"].values())
    if n_skipped > 0.5 * judged:
        health_msgs.append(f"{n_skipped}/{judged} cases skipped as out-of-domain")

    # -- evidence ----------------------------------------------------------
    wall = time.time() - t0
    cov = {
        "evaluations": m["evaluations"],
        "distinct_nontrivial": len(m["nontrivial"]),
        "rule": module.RULE,
        "samples": m["samples"][:8],
        "comparisons": m["comparisons"],
        "per_subcheck": dict(m["sub_counts"]),
        "label_distribution": {k: round(v / judged, 4)
                               for k, v in sorted(m["labels"].items())},
        "skipped_out_of_domain": dict(m["skipped"]),
        "excluded_known": dict(m["excluded_known"]),
        "stale_known_predicates": stale,
        "regression_replays": n_reg,
        "shards": jobs,
        "budget_hit_inconclusive": m["budget_hit"],
        "generator_health": health_msgs or "ok",
    }
    if m["exhaustive"]:
        cov["exhaustive"] = not m["budget_hit"]
        cov["exhaustive_spaces"] = m["exhaustive"]
    if module.LEVEL == "translation_validation":
        cov["programs"] = int(m["extra"].get("programs", 0))
        cov["disagreements_checked"] = int(m["comparisons"])
    fin = getattr(module, "finalize", None)
    if fin is not None:
        fin(m, cov)
    ev = {
        "property_id": prop, "tier": tier, "seed": seed, "level": module.LEVEL,
        "coverage": cov, "assumptions": list(module.ASSUMPTIONS),
        "wall_s": round(wall, 2), "violations": len(violations),
    }
    if not health_msgs:
        validate_evidence(ev)
    os.makedirs(os.path.join(OUT, "evidence"), exist_ok=True)
    with open(os.path.join(OUT, "evidence", f"{prop}.json"), "w") as f:
        json.dump(ev, f, indent=1, default=repr)
        f.write("\n")

    print(f"{prop} {tier} seed={seed}: {m['evaluations']} cases, "
          f"{len(m['nontrivial'])} distinct non-trivial, "
          f"{m['comparisons']} comparisons, "
          f"{sum(m['excluded_known'].values())} excluded as known, "
          f"{len(violations)} violation(s), {wall:.1f}s"
          + (" [budget hit: inconclusive beyond what ran]" if m["budget_hit"] else ""))
    if violations:
        return 1
    if health_msgs:
        print("HARNESS-ERROR: generator health: " + "; ".join(health_msgs))
        return 2
    return 0


if __name__ == "__main__":
    sys.exit(main())
