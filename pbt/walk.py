"""Generic tree model of pymbolic expressions, independent of mapper dispatch.

Children are read from dataclass fields (kinds from pbt.spec.NODE_TABLE or,
for classes not in the table, from dataclasses.fields + value inspection).
Tuples / lists / object arrays in expression positions are nodes themselves
(the library's traversals visit them through map_tuple / map_list / ...).
"""
from __future__ import annotations

import dataclasses
from fractions import Fraction

import numpy as np

import pymbolic.primitives as p

from pbt.spec import (K_EXPR, K_EXPRS, K_KWMAP, NODE_TABLE, HarnessError)


def field_kinds(e):
    name = type(e).__name__
    ent = NODE_TABLE.get(name)
    if ent is not None and ent[0] is type(e):
        return ent[1]
    if name == "Rational" and not dataclasses.is_dataclass(e):
        return [("numerator", K_EXPR), ("denominator", K_EXPR)]
    # user-defined dataclass node: classify by value
    if dataclasses.is_dataclass(e):
        out = []
        for f in dataclasses.fields(e):
            v = getattr(e, f.name)
            if isinstance(v, (p.Expression, int, float, complex, np.generic)) \
                    and not isinstance(v, str):
                out.append((f.name, K_EXPR))
            elif isinstance(v, tuple) and all(
                    not isinstance(c, str) for c in v) and f.name not in (
                        "variables",):
                out.append((f.name, K_EXPRS))
            else:
                out.append((f.name, "other"))
        return out
    raise HarnessError(f"cannot classify fields of {type(e)}")


def is_multivector(e):
    """pymbolic.geometric_algebra.MultiVector: not an Expression, but a node the stock
    traversals descend into (map_multivector); its children are the coefficients"""
    return type(e).__name__ == "MultiVector" and hasattr(e, "data") and hasattr(e, "space")


def is_leaf_value(e):
    return not isinstance(e, (p.Expression, tuple, list, np.ndarray)) \
        and not is_multivector(e)


def children(e):
    """Direct sub-expressions of *e*, in field order, as a list of
    (label, child).  ``None`` entries (omitted slice parts) are skipped."""
    if isinstance(e, p.Expression):
        out = []
        for fname, kind in field_kinds(e):
            v = getattr(e, fname)
            if kind == K_EXPR:
                if v is not None:
                    out.append((fname, v))
            elif kind == K_EXPRS:
                for i, c in enumerate(v):
                    if c is not None:
                        out.append((f"{fname}[{i}]", c))
            elif kind == K_KWMAP:
                for k, c in v.items():
                    out.append((f"{fname}[{k!r}]", c))
        return out
    if isinstance(e, (tuple, list)):
        return [(f"[{i}]", c) for i, c in enumerate(e)]
    if isinstance(e, np.ndarray):
        return [(f"[{i}]", e[i]) for i in np.ndindex(e.shape)]
    if is_multivector(e):
        return [(f"[blade {bits}]", c) for bits, c in e.data.items()]
    return []


def occurrences(e, path=()):
    """Preorder list of (path, node) for every node occurrence, including
    constants and container nodes."""
    out = [(path, e)]
    for lbl, c in children(e):
        out.extend(occurrences(c, (*path, lbl)))
    return out


def size(e):
    return len(occurrences(e))


def depth(e):
    ch = children(e)
    return 1 + (max(depth(c) for _, c in ch) if ch else 0)


def n_operator_nodes(e):
    return sum(1 for _, n in occurrences(e)
               if isinstance(n, p.Expression) and children(n))


# {{{ keys

def _const_key(c, strict):
    if isinstance(c, (bool, np.bool_)):
        return ("c", "bool" if strict else None, bool(c)) if strict else ("c", int(c))
    if isinstance(c, (int, np.integer)):
        return ("c", type(c).__name__, int(c)) if strict else ("c", int(c))
    if isinstance(c, (float, np.floating)):
        f = float(c)
        if f != f:
            return ("c", type(c).__name__ if strict else None, "nan")
        if strict:
            return ("c", type(c).__name__, f, str(f))  # str keeps -0.0 apart
        return ("c", int(f)) if f == int(f) and abs(f) < 2**62 else ("c", f)
    if isinstance(c, (complex, np.complexfloating)):
        z = complex(c)
        if strict:
            return ("c", type(c).__name__, z.real, z.imag)
        if z.imag == 0:
            return _const_key(z.real, False)
        return ("c", z.real, z.imag)
    if isinstance(c, Fraction):
        if not strict and c.denominator == 1:
            return ("c", int(c))
        return ("c", "Fraction" if strict else None, c.numerator, c.denominator)
    if isinstance(c, str):
        return ("s", c)
    if c is None:
        return ("none",)
    return ("o", type(c).__name__, repr(c))


def key(e, strict=True):
    """Structural key.  strict=True tags constants with their type (1, 1.0 and
    True differ); strict=False gives a key compatible with pymbolic ``==``
    (numbers compare by value)."""
    if isinstance(e, p.Expression):
        parts = [type(e).__module__ + "." + type(e).__qualname__]
        for fname, kind in field_kinds(e):
            v = getattr(e, fname)
            if kind == K_EXPR:
                parts.append(key(v, strict))
            elif kind == K_EXPRS:
                parts.append(tuple(key(c, strict) for c in v))
            elif kind == K_KWMAP:
                parts.append(tuple(sorted(
                    (k, key(c, strict)) for k, c in v.items())))
            else:
                parts.append(_const_key(v, strict) if not callable(v)
                             else ("callable", getattr(v, "__name__", repr(v))))
        return tuple(parts)
    if isinstance(e, tuple):
        return ("tuple", tuple(key(c, strict) for c in e))
    if isinstance(e, list):
        return ("list", tuple(key(c, strict) for c in e))
    if isinstance(e, np.ndarray):
        return ("ndarray", e.shape, tuple(key(c, strict) for c in e.flat))
    if is_multivector(e):
        return ("MultiVector", e.space.dimensions,
                tuple(sorted((bits, key(c, strict)) for bits, c in e.data.items())))
    return _const_key(e, strict)

# }}}


# {{{ generic rebuild

def rebuild(e, f):
    """Return a copy of *e* with every direct child c replaced by f(c)
    (children only; *e* itself is not passed to f).  Non-expression fields
    are copied unchanged."""
    if isinstance(e, p.Expression):
        from immutabledict import immutabledict
        args = []
        for fname, kind in field_kinds(e):
            v = getattr(e, fname)
            if kind == K_EXPR:
                args.append(None if v is None else f(v))
            elif kind == K_EXPRS:
                args.append(tuple(None if c is None else f(c) for c in v))
            elif kind == K_KWMAP:
                args.append(immutabledict({k: f(c) for k, c in v.items()}))
            else:
                args.append(v)
        return type(e)(*args)
    if isinstance(e, tuple):
        return tuple(f(c) for c in e)
    if isinstance(e, list):
        return [f(c) for c in e]
    if isinstance(e, np.ndarray):
        r = np.empty(e.shape, dtype=object)
        for i in np.ndindex(e.shape):
            r[i] = f(e[i])
        return r
    if is_multivector(e):
        return type(e)({bits: f(c) for bits, c in e.data.items()}, e.space)
    return e


def transform(e, f):
    """Top-down: if f(e) is not None use it (no recursion into the result),
    else rebuild with transformed children."""
    r = f(e)
    if r is not None:
        return r[0]
    return rebuild(e, lambda c: transform(c, f))

# }}}


# {{{ flattening and AC normal form

def flatten(e):
    """Splice Sum-in-Sum and Product-in-Product only; everything else kept."""
    if isinstance(e, (p.Sum, p.Product)) and type(e) in (p.Sum, p.Product):
        out = []
        for c in e.children:
            fc = flatten(c)
            if type(fc) is type(e):
                out.extend(fc.children)
            else:
                out.append(fc)
        return type(e)(tuple(out))
    return rebuild(e, flatten)


ASSOC_NARY = ("Sum", "Product", "BitwiseOr", "BitwiseXor", "BitwiseAnd",
              "LogicalOr", "LogicalAnd")


def flatten_assoc(e):
    """Like flatten(), for every associative n-ary node type (same-type
    children are spliced into their parent; operand order is kept)."""
    if isinstance(e, p.Expression) and type(e).__name__ in ASSOC_NARY \
            and type(e).__module__ == p.__name__:
        out = []
        for c in e.children:
            fc = flatten_assoc(c)
            if type(fc) is type(e):
                out.extend(fc.children)
            else:
                out.append(fc)
        return type(e)(tuple(out))
    return rebuild(e, flatten_assoc)


def pythonize(e):
    """numpy scalar constants -> Python numbers (exact arithmetic, Python's
    error semantics) for value comparisons."""
    def f(n):
        if isinstance(n, np.generic):
            return (n.item(),)
        return None
    return transform(e, f)


def ac_key(e, strict=False):
    """Key modulo associativity/commutativity of Sum and Product (flatten,
    sort operands; single-operand Sum/Product collapse to the operand)."""
    if type(e) in (p.Sum, p.Product):
        items = []

        def add(x):
            if type(x) is type(e):
                for c in x.children:
                    add(c)
            else:
                items.append(ac_key(x, strict))
        add(e)
        if len(items) == 1:
            return items[0]
        return (type(e).__name__, tuple(sorted(items, key=repr)))
    if isinstance(e, p.Expression):
        parts = [type(e).__name__]
        for fname, kind in field_kinds(e):
            v = getattr(e, fname)
            if kind == K_EXPR:
                parts.append(ac_key(v, strict))
            elif kind == K_EXPRS:
                parts.append(tuple(ac_key(c, strict) for c in v))
            elif kind == K_KWMAP:
                parts.append(tuple(sorted(
                    (k, ac_key(c, strict)) for k, c in v.items())))
            else:
                parts.append(_const_key(v, strict))
        return tuple(parts)
    if isinstance(e, tuple):
        return ("tuple", tuple(ac_key(c, strict) for c in e))
    if isinstance(e, list):
        return ("list", tuple(ac_key(c, strict) for c in e))
    return _const_key(e, strict)

# }}}


def variables(e):
    return {n.name for _, n in occurrences(e) if isinstance(n, p.Variable)}


def node_types(e):
    return {type(n).__name__ for _, n in occurrences(e)}


def first_diff(a, b):
    """Descend two trees in parallel; return (parent type, child label, type of
    the differing child in *a*, in *b*) at the first difference, or None."""
    def tn(x):
        return type(x).__name__

    def rec(x, y, parent, label):
        if tn(x) != tn(y) and not (is_leaf_value(x) and is_leaf_value(y)):
            return (parent, label, tn(x), tn(y))
        if is_leaf_value(x):
            if key(x, strict=False) != key(y, strict=False):
                return (parent, label, tn(x), tn(y))
            return None
        cx, cy = children(x), children(y)
        if len(cx) != len(cy):
            return (parent, label, tn(x) + f"/{len(cx)}", tn(y) + f"/{len(cy)}")
        for (lx, vx), (_, vy) in zip(cx, cy):
            d = rec(vx, vy, tn(x), lx.split("[")[0])
            if d is not None:
                return d
        if key(x, strict=False) != key(y, strict=False):
            return (parent, label, tn(x), tn(y))  # non-expression field differs
        return None
    return rec(a, b, "<root>", "")
