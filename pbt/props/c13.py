"""C13 - generated Python code computes what the evaluator computes.

Four translation paths, each compared with the reference interpreter on the
source expression over a box of exact environments:
  compile   pymbolic.compile(e, listed)(*listed values, *name-sorted rest)
  toast     eval(compile(ast.Expression(to_python_ast(e))))
  tofunc    exec(to_evaluatable_python_function(e, "f")); f(**env)
  fromast   refsem(ASTToPymbolic()(to_python_ast(e)))
"""
from __future__ import annotations

import ast
import itertools
from fractions import Fraction
import math
import pickle

from hypothesis import strategies as st

import numpy as np

import pymbolic
import pymbolic.primitives as p
from pymbolic.interop.ast import (ASTToPymbolic, to_evaluatable_python_function,
                                  to_python_ast)
from pymbolic.mapper import UnsupportedExpressionError

from pbt import envs, strategies as S, walk
from pbt.refsem import RefSkip, describe, exc_site, ref_eval, values_close
from pbt.runner import Result
from pbt.spec import retype, build, subspecs

PROP = "C13"
LEVEL = "translation_validation"
RULE = ("Generated expressions of the Python-expressible fragment (per path: the node "
        "types that path implements) are translated by compile(), to_python_ast(), "
        "to_evaluatable_python_function() and back through ASTToPymbolic; every generated "
        "program is executed on a box of integer/Fraction environments and compared with "
        "the reference interpreter's value of the source expression (value or arithmetic "
        "error class). compile() gets a random subset/order of listed variables (names or "
        "Variable objects) and 0-4 unlisted ones, and is re-checked after a pickle round "
        "trip. Non-trivial = >=2 nested operators of different node type, or a negative "
        "constant under an operator; for compile also >=2 unlisted variables (labelled). "
        "programs = translations executed, disagreements_checked = value comparisons.")
ASSUMPTIONS = [
    "the reference interpreter pbt/refsem.py gives the value of the source expression (the evaluator itself is checked against it in C02)",
    "node types a path does not implement must raise NotImplementedError/UnsupportedExpressionError (tallied as refusals, not generated on purpose for that path)",
    "numpy scalar constants are only sent through compile(); Python's ast module cannot hold them",
    "values with a float part are compared to 1e-9 (n-ary sums/products are re-associated by the AST path); on the AST paths quotients are evaluated over Fractions, and cases where floats certainly arise (float constants, constant/constant quotients) AND feed a discontinuous operation (floor, %, //, comparison, conditional, subscript) are skipped and counted: the two association orders may land on different sides of the jump",
]
HEALTH = {"compile:unlisted>=2": 0.05, "neg-const": 0.05, "twin-translated-first": 0.1}

AST_NODES = frozenset({
    "Sum", "Product", "Quotient", "FloorDiv", "Remainder", "Power", "LeftShift",
    "RightShift", "BitwiseNot", "BitwiseOr", "BitwiseXor", "BitwiseAnd", "LogicalNot",
    "LogicalOr", "LogicalAnd", "If", "Call", "CallWithKwargs", "Subscript", "Lookup"})
FRAG_AST = S.EVALUABLE.but(nodes=AST_NODES, np_consts=False, cse_prefixes=(None,),
                           logical_bool_only=True,
                           float_consts=(0.5, -1.5, 2.0, 0.25, 4.0))
FRAG_COMPILE = S.EVALUABLE.but(
    nodes=AST_NODES | {"Comparison", "Min", "Max"}, np_consts=True,
    logical_bool_only=True,
    float_consts=(0.5, -1.5, 2.0, 0.25, 4.0, 1.0000001, 123456.789, -3.0000125e-05))

BOX = (-2, 1, 3)


def env_box(names, big_ok=True):
    names = sorted(names)
    out = []
    vals = {"x": (-2, 1, 3), "y": (-3, 2), "z": (0, 5), "k": (0, 2), "m": (1,),
            "r": (["Frac", 1, 3],), "s": (["Frac", -3, 4],), "p": (True, False),
            "q": (False,)}
    keys = [n for n in names if n in vals]
    for combo in itertools.product(*[vals[k] for k in keys]):
        e = dict(S.BASE_ENV)
        e.update({"aa": 11, "zz": 12, "B": 13, "x2": 7, "x10": 17, "v9": 5, "v10": 3,
                  "a_11": 19, "a_2": 23, "Z1": 29, "a1": 31, "n007": 37, "n1": 41})
        e.update(zip(keys, combo))
        out.append(e)
    out = out[:24]
    # one environment of large integers (beyond 2**53): an int constant silently turned
    # into a float, or the reverse, changes the value there; the reference skips
    # environments in which a power/shift would explode before the generated code is run
    big = dict(out[0])
    big.update({k: v for k, v in BIG_ENV.items() if k in names})
    if big_ok and any(k in names for k in BIG_ENV):
        out.append(big)
    return out


BIG_ENV = {"x": 2**53 + 1, "y": -(2**53) - 3, "z": 2**60 + 1}


def free_names(e):
    return walk.variables(e)


def run_and_compare(res, what, e, thunk_for_env, env_specs, ref_tree=None):
    """thunk_for_env(env) -> value; compared with refsem(e)."""
    for env_spec in env_specs:
        env = envs.build_env(env_spec)
        env["math"] = math
        try:
            ref = ref_eval(walk.pythonize(ref_tree if ref_tree is not None else e), env)
        except RefSkip:
            continue
        res.compared()
        small = {k: v for k, v in env_spec.items() if k in "xyzkmrspq"}
        try:
            got = ("val", thunk_for_env(env))
        except RecursionError:
            raise
        except Exception as exc:
            got = ("err", type(exc).__name__, exc)
        if ref[0] == "val" and got[0] == "val":
            if not values_close(got[1], ref[1]) and not _float_tainted_close(
                    e, got[1], ref[1]):
                res.fail(f"{what}:value-mismatch",
                         f"{e!r} at {small}: generated code gives {describe(got[1])}, "
                         f"reference {describe(ref[1])}")
                return False
            if _exact(ref[1]) and isinstance(got[1], (float, np.floating)) \
                    and got[1] != ref[1] and not _may_produce_floats(e):
                # exact arithmetic all the way in the source expression: the tolerance
                # above is for floats that take part, not for exactness lost on the way
                res.fail(f"{what}:value-inexact",
                         f"{e!r} at {small}: generated code gives {describe(got[1])}, "
                         f"reference is the exact {describe(ref[1])}")
                return False
            if isinstance(ref[1], (float, np.floating)) and _exact(got[1]) \
                    and got[1] != ref[1]:
                # and the other way round: whether a float takes part is decided by the
                # expression, not by the translation (x**2.0 is a float, x*x may not be)
                res.fail(f"{what}:value-exact-where-reference-is-float",
                         f"{e!r} at {small}: generated code gives the exact "
                         f"{describe(got[1])}, the reference value is {describe(ref[1])}")
                return False
        elif ref[0] == "err" and got[0] == "err":
            if got[1] not in {n for n, _ in ref[1]} and not (
                    got[1] in ("NameError", "KeyError") and "UnknownVariableError" in {
                        n for n, _ in ref[1]}):
                res.fail(f"{what}:wrong-exception",
                         f"{e!r} at {small}: generated code raises {got[1]}: {got[2]}; "
                         f"reference raises {sorted(n for n, _ in ref[1])}")
                return False
        elif ref[0] == "val":
            res.fail(f"{what}:raises:{got[1]}",
                     f"{e!r} at {small}: generated code raises {got[1]}: {got[2]}; "
                     f"reference value {describe(ref[1])}")
            return False
        else:
            res.fail(f"{what}:value-instead-of-error",
                     f"{e!r} at {small}: generated code gives {describe(got[1])}; "
                     f"reference raises {sorted(n for n, _ in ref[1])}")
            return False
    return True


def _exact(v):
    from fractions import Fraction
    return isinstance(v, (int, Fraction, np.integer)) and not isinstance(v, bool)


def _may_produce_floats(e):
    for _, n in walk.occurrences(e):
        if isinstance(n, (float, complex, np.floating, np.complexfloating, p.Quotient,
                          p.Call, p.CallWithKwargs)):
            return True
        if isinstance(n, p.Power) and not (
                isinstance(n.exponent, (int, np.integer)) and not isinstance(n.exponent, bool)
                and n.exponent >= 0):
            return True
    return False


def _translate_twin_first(res, spec, translate):
    """Optional first step of a case: translate a retyped twin of the expression in
    the same process.  On a correct library this has no effect on what follows."""
    how = spec.get("twin")
    if not how:
        return
    if how not in ("i2f", "f2i", "b2i"):
        from pbt.spec import HarnessError
        raise HarnessError("twin must be i2f, f2i or b2i")
    t = retype(spec["expr"], how)
    if t == spec["expr"]:
        return
    res.label("twin-translated-first")
    try:
        translate(build(t))
    except RecursionError:
        raise
    except Exception:
        pass


DISCONTINUOUS = (p.Remainder, p.FloorDiv, p.Comparison, p.If, p.Min, p.Max, p.LogicalNot,
                 p.LogicalAnd, p.LogicalOr, p.BitwiseNot, p.BitwiseAnd, p.BitwiseOr,
                 p.BitwiseXor, p.LeftShift, p.RightShift, p.Subscript)


def _const_only(n):
    return not walk.variables(n)


def _float_tainted(e):
    """floats certainly arise: a float constant, constant/constant quotient, or a
    negative power of a constant (variables are exact ints/Fractions)"""
    for _, n in walk.occurrences(e):
        if isinstance(n, (float, np.floating)):
            return True
        if isinstance(n, p.Quotient) and _const_only(n):
            return True
        if isinstance(n, p.Power) and not isinstance(n.exponent, p.Expression) \
                and not isinstance(n.exponent, bool) and n.exponent < 0 and _const_only(n.base):
            return True
    return False


def _ill_conditioned(e):
    """re-association of inexact arithmetic feeding a discontinuous operation
    (floor, %, //, comparison, conditional ...): the two evaluation orders may
    legitimately land on different sides of the jump"""
    if not _float_tainted(e):
        return False
    return any(isinstance(n, DISCONTINUOUS) or (
        isinstance(n, p.Call) and isinstance(n.function, p.Lookup))
        for _, n in walk.occurrences(e))


def _needs_fractions(e):
    return any(isinstance(n, p.Quotient) or (
        isinstance(n, p.Power) and not isinstance(n.exponent, p.Expression)
        and not isinstance(n.exponent, bool) and n.exponent < 0)
        for _, n in walk.occurrences(e))


def _fractionize(env_specs):
    out = []
    for es in env_specs:
        e2 = dict(es)
        for k in ("x", "y", "z", "k", "m"):
            if isinstance(e2.get(k), int) and not isinstance(e2[k], bool):
                e2[k] = ["Frac", e2[k], 1]
        out.append(e2)
    return out


def _float_tainted_close(e, a, b):
    """An *integer* result computed through floats (math.floor(x/x*big), float
    constants) inherits the rounding of a re-associated product: compare such
    numbers to 1e-9 as well.  Only when the tree can produce floats at all."""
    from numbers import Number
    if not (isinstance(a, Number) and isinstance(b, Number)) or isinstance(a, bool) \
            or isinstance(b, bool):
        return False
    tainted = any(isinstance(n, (p.Quotient, float, np.floating))
                  or (isinstance(n, p.Power) and not isinstance(n.exponent, int))
                  for _, n in walk.occurrences(e))
    if not tainted:
        return False
    try:
        return abs(a - b) <= 1e-9 * max(1, abs(a), abs(b))
    except Exception:
        return False


def _classify(res, spec, e):
    txt = repr(spec)
    if "'int', -" in txt or "'float', -" in txt:
        res.label("neg-const")
    types = [type(n).__name__ for _, n in walk.occurrences(e)
             if isinstance(n, p.Expression) and walk.children(n)]
    nested = False
    for _, n in walk.occurrences(e):
        if isinstance(n, p.Expression) and walk.children(n):
            for _, c in walk.children(n):
                if isinstance(c, p.Expression) and walk.children(c) \
                        and type(c) is not type(n):
                    nested = True
    res.nontrivial = nested or ("neg-const" in res.labels and len(types) >= 1)
    return types


NARY = ("Sum", "Product", "BitwiseOr", "BitwiseXor", "BitwiseAnd", "LogicalOr",
        "LogicalAnd", "Min", "Max")


def _validate(spec):
    """0/1-child n-ary nodes have no Python spelling (shrinker guard)."""
    for s in subspecs(spec):
        if s[0] in NARY and len(s[1]) < 2:
            from pbt.spec import HarnessError
            raise HarnessError("degenerate arity is outside the fragment")
        if s[0] in ("LogicalOr", "LogicalAnd"):
            for c in s[1]:
                if c[0] not in ("Comparison", "LogicalNot", "LogicalOr", "LogicalAnd") \
                        and not (c[0] == "Const" and c[1] == "bool") \
                        and not (c[0] == "Var" and c[1] in ("p", "q")) \
                        and c[0] not in ("If", "CommonSubexpression"):
                    from pbt.spec import HarnessError
                    raise HarnessError("and/or operand not truth-valued")


def check_compile(spec):
    """spec: {"expr":..., "listed": [["name"|"var", n], ...]}"""
    res = Result()
    _validate(spec["expr"])
    e = build(spec["expr"])
    _classify(res, spec["expr"], e)
    names = free_names(e) - {"math", "numpy"}
    listed = [n for _, n in spec["listed"]]
    if len(set(listed)) != len(listed):
        from pbt.spec import HarnessError
        raise HarnessError("listed variables must be distinct")
    listed_objs = [p.Variable(n) if how == "var" else n for how, n in spec["listed"]]
    unlisted = sorted(names - set(listed))
    res.label(f"compile:unlisted>={min(len(unlisted), 2)}")
    res.extra_programs = 1
    _translate_twin_first(res, spec, lambda t: pymbolic.compile(t, listed_objs))
    try:
        c = pymbolic.compile(e, listed_objs)
    except (NotImplementedError, UnsupportedExpressionError) as exc:
        res.label("compile:refused")
        return res.skip(f"compile-refused:{type(exc).__name__}")
    except Exception as exc:
        res.fail("compile:construction-raised:" + exc_site(exc),
                 f"compile({e!r}, {listed!r}) raised {type(exc).__name__}: {exc}")
        return res
    order = listed + unlisted

    def call(cc):
        def thunk(env):
            missing = [n for n in order if n not in env]
            if missing:
                raise NameError(missing[0])
            return cc(*[env[n] for n in order])
        return thunk

    env_specs = env_box(names | set(listed), big_ok=not _float_tainted(e))
    if _ill_conditioned(e):
        # the generated text flattens nested products/sums (a*(b*c) -> a*b*c): values
        # are not compared where rounding may cross a jump; signature and pickling are
        res.label("ill-conditioned-float-case")
        env_specs = []
    elif _needs_fractions(e):
        env_specs = _fractionize(env_specs)   # exact x/y under re-association
    ok = run_and_compare(res, "compile", e, call(c), env_specs)
    if ok:
        # arity: exactly listed + remaining free variables
        res.compared()
        try:
            nargs = c._code.__code__.co_argcount
            argnames = list(c._code.__code__.co_varnames[:nargs])
        except Exception:
            argnames = None
        if argnames is not None and argnames != order:
            res.fail("compile:signature",
                     f"compile({e!r}, {listed!r}) takes {argnames}, expected {order}")
        try:
            c2 = pickle.loads(pickle.dumps(c))
        except Exception as exc:
            res.fail("compile:pickle-raised:" + exc_site(exc),
                     f"pickling compile({e!r}, {listed!r}): {type(exc).__name__}: {exc}")
        else:
            run_and_compare(res, "compile-unpickled", e, call(c2), env_specs[:6])
    res.sample = {"expr": repr(e)[:300], "listed": listed, "unlisted": unlisted}
    return res


def _toast(res, e):
    try:
        tree = to_python_ast(e)
    except (NotImplementedError, UnsupportedExpressionError) as exc:
        res.label("toast:refused")
        res.skip(f"toast-refused:{type(exc).__name__}")
        return None
    except Exception as exc:
        res.fail("toast:construction-raised:" + exc_site(exc),
                 f"to_python_ast({e!r}) raised {type(exc).__name__}: {exc}")
        return None
    return tree


def check_toast(spec):
    res = Result()
    _validate(spec["expr"])
    e = build(spec["expr"])
    _classify(res, spec["expr"], e)
    _translate_twin_first(res, spec, to_python_ast)
    tree = _toast(res, e)
    if tree is None:
        return res
    try:
        # the generated code is the unparsed AST (what the library itself does
        # in to_evaluatable_python_function); expr_context fields are not demanded
        src = ast.unparse(ast.fix_missing_locations(ast.Expression(tree)))
        code = compile(src, "<gen>", "eval")
    except Exception as exc:
        return res.fail("toast:python-compile-raised",
                        f"to_python_ast({e!r}) does not unparse to valid Python: "
                        f"{type(exc).__name__}: {exc}")
    names = free_names(e)
    if _ill_conditioned(e):
        res.label("ill-conditioned-float-case")
        return res.skip("re-associated-floats-under-discontinuous-operation")
    boxes = env_box(names, big_ok=not _float_tainted(e))
    if _needs_fractions(e):
        boxes = _fractionize(boxes)   # exact x/y: the AST path re-associates n-ary nodes
    run_and_compare(res, "toast", e,
                    lambda env: eval(code, {"__builtins__": {}}, dict(env)),
                    boxes)
    # and back: ASTToPymbolic(to_python_ast(e)) means the same
    try:
        back = ASTToPymbolic()(tree)
    except NotImplementedError:
        res.label("fromast:refused")
    except Exception as exc:
        res.fail("fromast:raised:" + exc_site(exc),
                 f"ASTToPymbolic()(to_python_ast({e!r})) raised {type(exc).__name__}: {exc}")
    else:
        for env_spec in boxes[:12]:
            env = envs.build_env(env_spec)
            env["math"] = math
            try:
                r1 = ref_eval(walk.pythonize(e), env)
                r2 = ref_eval(back, env)
            except RefSkip:
                continue
            res.compared()
            same = (r1[0] == r2[0]) and (
                values_close(r1[1], r2[1]) if r1[0] == "val"
                else bool({n for n, _ in r1[1]} & {n for n, _ in r2[1]}))
            if not same:
                res.fail("fromast:value-mismatch",
                         f"{e!r} -> AST -> {back!r}: {r2} vs reference {r1}")
                break
    res.sample = {"expr": repr(e)[:300], "python": _unparse(tree)}
    return res


def _unparse(tree):
    try:
        return ast.unparse(ast.fix_missing_locations(ast.Expression(tree)))[:300]
    except Exception:
        return "<unparse failed>"


def check_tofunc(spec):
    res = Result()
    _validate(spec["expr"])
    e = build(spec["expr"])
    _classify(res, spec["expr"], e)
    _translate_twin_first(res, spec, lambda t: to_evaluatable_python_function(t, "f"))
    try:
        src = to_evaluatable_python_function(e, "f")
    except (NotImplementedError, UnsupportedExpressionError) as exc:
        res.label("tofunc:refused")
        return res.skip(f"tofunc-refused:{type(exc).__name__}")
    except Exception as exc:
        return res.fail("tofunc:construction-raised:" + exc_site(exc),
                        f"to_evaluatable_python_function({e!r}) raised "
                        f"{type(exc).__name__}: {exc}")
    ns = {}
    try:
        exec(src, {"__builtins__": {}}, ns)
        f = ns["f"]
    except Exception as exc:
        return res.fail("tofunc:source-does-not-execute",
                        f"{src!r}: {type(exc).__name__}: {exc}")
    names = free_names(e)
    if _ill_conditioned(e):
        res.label("ill-conditioned-float-case")
        return res.skip("re-associated-floats-under-discontinuous-operation")

    def thunk(env):
        missing = [n for n in names if n not in env]
        if missing:
            raise NameError(missing[0])
        return f(**{n: env[n] for n in names})
    boxes = env_box(names, big_ok=not _float_tainted(e))
    if _needs_fractions(e):
        boxes = _fractionize(boxes)
    run_and_compare(res, "tofunc", e, thunk, boxes)
    res.sample = {"expr": repr(e)[:300], "source": src[:300]}
    return res


# {{{ compile() of Polynomial nodes (the compile mapper prints them in Horner form)

POLY_CTX = ("bare", "square", "quotient-den", "quotient-num", "product", "exponent", "sum",
            "negated", "power-base-3")


def _poly_value(base_v, data_v):
    return sum(c * base_v ** e for e, c in data_v)


def check_compile_poly(spec):
    """spec: {"base": expr spec, "data": [[exp, coeff spec], ...], "ctx": one of POLY_CTX}
    The polynomial sum_i coeff_i * base**exp_i sits in a small context; compile() of the
    whole must agree with the value computed from the parts."""
    from pymbolic.polynomial import Polynomial
    from pbt.spec import HarnessError
    res = Result()
    data = spec.get("data")
    if not isinstance(data, list) or not data or not all(
            isinstance(t, list) and len(t) == 2 and isinstance(t[0], int)
            and not isinstance(t[0], bool) and 0 <= t[0] <= 6 for t in data) \
            or [t[0] for t in data] != sorted({t[0] for t in data}) \
            or spec.get("ctx") not in POLY_CTX:
        raise HarnessError("bad polynomial spec")
    base = build(spec["base"])
    coeffs = [(e, build(c)) for e, c in data]
    if not isinstance(base, p.Expression):
        raise HarnessError("polynomial base must be an expression")
    try:
        poly = Polynomial(base, tuple(coeffs))
    except Exception as exc:
        return res.skip("polynomial-constructor-refuses:" + type(exc).__name__)
    ctx = spec["ctx"]
    wrap = {"bare": lambda q: q, "square": lambda q: p.Power(q, 2),
            "quotient-den": lambda q: p.Quotient(1, q), "quotient-num": lambda q: p.Quotient(q, 3),
            "product": lambda q: p.Product((2, q)), "exponent": lambda q: p.Power(2, q),
            "sum": lambda q: p.Sum((q, 1)), "negated": lambda q: p.Product((-1, q)),
            "power-base-3": lambda q: p.Power(q, 3)}[ctx]
    refw = {"bare": lambda v: v, "square": lambda v: v ** 2,
            "quotient-den": lambda v: Fraction(1) / v, "quotient-num": lambda v: v / Fraction(3),
            "product": lambda v: 2 * v, "exponent": lambda v: 2 ** v,
            "sum": lambda v: v + 1, "negated": lambda v: -v,
            "power-base-3": lambda v: v ** 3}[ctx]
    e = wrap(poly)
    res.label("poly-ctx:" + ctx, f"poly-terms:{min(len(coeffs), 3)}")
    names = set()
    for part in (base, *[c for _, c in coeffs]):
        names |= walk.variables(part)
    order = sorted(names)
    try:
        c = pymbolic.compile(e)
    except Exception as exc:
        return res.fail("compile-poly:construction-raised:" + exc_site(exc),
                        f"compile({e!r}) raised {type(exc).__name__}: {exc}")
    for env_spec in _fractionize(env_box(names))[:16]:
        env = envs.build_env(env_spec)
        try:
            bv = ref_eval(base, env)
            cvs = [(ex, ref_eval(cf, env)) for ex, cf in coeffs]
        except RefSkip:
            continue
        if bv[0] != "val" or any(cv[0] != "val" for _, cv in cvs):
            continue
        try:
            pv = _poly_value(bv[1], [(ex, cv[1]) for ex, cv in cvs])
            if ctx == "exponent" and not (isinstance(pv, (int, Fraction))
                                          and pv.denominator == 1 and abs(pv) <= 64):
                continue        # 2**<huge or fractional>: not what this sub-check is about
            if isinstance(pv, (int, Fraction)) and abs(pv) > 10 ** 30:
                continue
            want = refw(pv)
        except (ZeroDivisionError, OverflowError, TypeError, ValueError):
            continue
        if isinstance(want, int) and want.bit_length() > 4000:
            continue
        res.compared()
        small = {k: v for k, v in env_spec.items() if k in names}
        try:
            got = c(*[env[n] for n in order])
        except Exception as exc:
            res.fail("compile-poly:raises:" + type(exc).__name__,
                     f"{e!r} at {small}: {type(exc).__name__}: {exc}; expected {describe(want)}")
            break
        if not values_close(got, want):
            res.fail("compile-poly:value-mismatch:" + ctx + (
                ":single-term" if len(coeffs) == 1 else ""),
                f"{e!r} at {small}: compiled code gives {describe(got)}, the polynomial's "
                f"value in this context is {describe(want)}")
            break
    res.nontrivial = ctx != "bare"
    res.sample = {"expr": repr(e)[:300]}
    return res

# }}}


CHECKS = {"compile": check_compile, "toast": check_toast, "tofunc": check_tofunc,
          "compile-poly": check_compile_poly}


@st.composite
def expr_for(draw, frag):
    kind = draw(st.sampled_from(("INT", "NUM", "NUM", "BOOL")))
    ex = draw(S.expr(kind, draw(st.integers(1, 5)), frag))
    c = draw(st.integers(0, 16))
    if c >= 15:
        # slices (with omitted parts) of the tuple aggregate A
        small = lambda: draw(st.sampled_from([  # noqa: E731
            None, ["Const", "int", draw(st.integers(-3, 4))], ["Var", "k"],
            ["Remainder", draw(S.expr("INT", 1, frag)), ["Const", "int", 4]]]))
        parts = [small() for _ in range(draw(st.integers(2, 3)))]
        if len(parts) == 3 and parts[2] is not None and parts[2][0] == "Const" \
                and parts[2][2] == 0:
            parts[2] = ["Const", "int", 2]
        if all(q is None for q in parts):
            parts = [None]
        if draw(st.integers(0, 4)) == 0:
            parts = [["Const", "int", draw(st.integers(1, 3))]]   # a lone part is the stop
        ex = ["Subscript", ["Var", "A"], ["Slice", parts]]
        if draw(st.booleans()):
            ex = ["Call", ["Var", "h"], [["Subscript", ex, ["Const", "int", 0]]]] \
                if False else ex
        return ex
    if c == 0:
        ex = ["Tuple", [ex, draw(S.expr("INT", 2, frag))]]
    elif c == 1:
        ex = ["Call", ["Lookup", ["Var", "math"], "floor"], [ex]]
    elif c == 6:
        # conditionals nested in every position of a conditional
        v = lambda: draw(st.sampled_from((["Var", "x"], ["Var", "y"], ["Var", "z"],  # noqa: E731
                                          ["Const", "int", 10], ["Const", "int", 30])))
        cond = lambda: draw(st.sampled_from((["Var", "p"], ["Var", "q"],  # noqa: E731
                                             ["Comparison", ["Var", "x"], "<", ["Var", "y"]])))
        inner = ["If", cond(), v(), v()]
        ex = draw(st.sampled_from((["If", cond(), inner, v()], ["If", cond(), v(), inner],
                                   ["If", inner, v(), v()],
                                   ["Sum", [["If", cond(), inner, v()], v()]])))
    elif c == 7:
        # divisions / remainders / powers with the neutral operands 1 and 0, over values
        # that are not integers (x // 1 is not x, x % 1 is not 0 for x = 1/3)
        e1 = draw(st.sampled_from((["Var", "r"], ["Var", "s"], ["Var", "x"],
                                   ["Sum", [["Var", "r"], ["Var", "x"]]])))
        ex = draw(st.sampled_from((["FloorDiv", e1, ["Const", "int", 1]],
                                   ["Remainder", e1, ["Const", "int", 1]],
                                   ["Power", e1, ["Const", "int", 0]],
                                   ["Power", ["Const", "int", 1], e1],
                                   ["Sum", [["FloorDiv", e1, ["Const", "int", 1]], ["Var", "y"]]])))
    elif c == 8:
        # products of parenthesised sums as operands of / // % and remainders of sums
        # as factors: the text of the operand itself starts with '(' and ends with ')'
        s1 = ["Sum", [["Var", "x"], ["Const", "int", 1]]]
        s2 = ["Sum", [["Var", "y"], ["Const", "int", 4]]]
        pr = ["Product", [s1, s2]]
        ex = draw(st.sampled_from((
            ["FloorDiv", ["Var", "z"], pr], ["Remainder", ["Var", "z"], pr],
            ["Quotient", ["Var", "z"], pr], ["Product", [["Var", "z"], ["Remainder", s1, s2]]],
            ["Product", [["Var", "z"], ["FloorDiv", s1, s2]]],
            ["FloorDiv", ["Product", [["Var", "z"], ["Const", "int", 100]]], pr])))
    elif c == 5:
        # sums with a negated term in the middle: a + (-1)*b + c is neither a - (b + c) nor
        # (a - b) - c regrouped
        v = lambda: draw(st.sampled_from((["Var", "x"], ["Var", "y"], ["Var", "z"],  # noqa: E731
                                          ["Const", "int", 7], ["Var", "k"],
                                          ["Product", [["Const", "int", 2], ["Var", "y"]]])))
        neg = lambda t: ["Product", [["Const", "int", -1], t]]  # noqa: E731
        terms = [v(), neg(v()), v()]
        if draw(st.booleans()):
            terms.insert(draw(st.integers(1, 2)), neg(v()) if draw(st.booleans()) else v())
        ex = ["Sum", terms]
    elif c == 4:
        # a comparison as an operand of a comparison: (a < b) < c is not Python's chain
        v = lambda: draw(st.sampled_from((["Var", "x"], ["Var", "y"], ["Var", "z"],  # noqa: E731
                                          ["Const", "int", 0], ["Const", "int", 1],
                                          ["Var", "k"])))
        op = lambda: draw(st.sampled_from(S.CMP_OPS))  # noqa: E731
        inner = ["Comparison", v(), op(), v()]
        ex = ["Comparison", inner, op(), v()] if draw(st.booleans()) else \
            ["Comparison", v(), op(), inner]
        if draw(st.integers(0, 2)) == 0:
            ex = ["If", ex, ["Var", "x"], ["Var", "y"]]
    elif c == 3:
        # float exponents that are whole numbers: x**2.0 is a float whatever x is
        base = draw(st.sampled_from((["Var", "x"], ["Var", "y"], ["Var", "r"],
                                     ["Sum", [["Var", "x"], ["Const", "int", 1]]])))
        pw = ["Power", base, ["Const", "float", draw(st.sampled_from((2.0, 3.0, 2.0, 1.0)))]]
        ex = draw(st.sampled_from((pw, ["Sum", [pw, ["Var", "y"]]],
                                   ["Product", [["Const", "int", 3], pw]])))
    elif c == 2:
        # a negative constant (int or float) where the unary minus of its text binds
        # looser than the operator above it: base of a power, operand of a power's base
        neg = draw(st.sampled_from((["Const", "int", -2], ["Const", "int", -1],
                                    ["Const", "float", -0.5], ["Const", "float", -2.0],
                                    ["Const", "float", -1.5])))
        ex2 = draw(st.sampled_from((["Const", "int", 2], ["Const", "int", 3],
                                    ["Const", "int", -2], ["Var", "k"], ["Var", "x"])))
        pw = ["Power", neg, ex2]
        other = ["Var", draw(st.sampled_from(("x", "y")))]
        ex = draw(st.sampled_from((pw, ["Sum", [pw, other]], ["Product", [other, pw]],
                                   ["Power", pw, ["Const", "int", 2]],
                                   ["Quotient", other, pw])))
    return ex


@st.composite
def compile_case(draw):
    ex = draw(expr_for(FRAG_COMPILE))
    if draw(st.integers(0, 3)) == 0:
        # names whose string order and "natural" order differ, used asymmetrically
        a_, b_ = draw(st.sampled_from((("x2", "x10"), ("v9", "v10"), ("a_11", "a_2"),
                                       ("Z1", "a1"), ("n007", "n1"))))
        ex = ["Sum", [ex, ["Product", [["Const", "int", 100], ["Var", a_]]], ["Var", b_]]]
    names = sorted({s[1] for s in subspecs(ex) if s[0] == "Var"} - {"math"})
    extra = draw(st.lists(st.sampled_from(("aa", "zz", "B")), unique=True, max_size=1))
    pool = names + extra
    k = draw(st.integers(0, len(pool)))
    listed = draw(st.permutations(pool))[:k] if pool else []
    if draw(st.integers(0, 2)) == 0 and len(names) >= 2:
        # make sure >=2 stay unlisted
        listed = [n for n in listed if n not in names[:2]]
    out = {"expr": ex,
           "listed": [[draw(st.sampled_from(("name", "var"))), n] for n in listed]}
    tw = draw(st.sampled_from((None, None, "i2f", "i2f", "f2i", "b2i")))
    if tw:
        out["twin"] = tw
    return out


@st.composite
def ast_case(draw):
    s = draw(expr_for(FRAG_AST))
    tw = draw(st.sampled_from((None, None, None, "i2f", "f2i", "b2i")))
    return {"expr": s, "twin": tw} if tw else {"expr": s}


@st.composite
def poly_case(draw):
    base = draw(st.sampled_from((["Var", "x"], ["Var", "y"], ["Sum", [["Var", "x"], ["Const", "int", 1]]],
                                 ["Product", [["Const", "int", 2], ["Var", "y"]]])))
    exps = sorted(draw(st.lists(st.integers(0, 4), min_size=1, max_size=3, unique=True)))
    coeff = lambda: draw(st.sampled_from((  # noqa: E731
        ["Const", "int", 3], ["Const", "int", -1], ["Const", "int", 2], ["Var", "z"],
        ["Sum", [["Var", "z"], ["Const", "int", 1]]], ["Const", "int", 1], ["Var", "k"])))
    return {"base": base, "data": [[e, coeff()] for e in exps],
            "ctx": draw(st.sampled_from(POLY_CTX))}


def generate(ctx):
    ctx.run_given(poly_case(), lambda s: ctx.judge("compile-poly", s), ctx.n(600, 12000))

    def jc(s):
        r = ctx.judge("compile", s)
        ctx.extra["programs"] += 1
        return r

    def ja(spec):
        ctx.judge("toast", spec)
        ctx.judge("tofunc", spec)
        ctx.extra["programs"] += 3
    ctx.run_given(compile_case(), jc, ctx.n(3000, 90000))
    ctx.run_given(ast_case(), ja, ctx.n(2500, 70000))


MANIFEST = {
    "text": ("Translation validation by execution: every generated expression is translated "
             "by each of the four paths, the generated program is run on a box of exact "
             "environments and compared with the reference value of the source expression; "
             "compile()'s argument order (listed first, rest name-sorted) is checked by "
             "value and by its code object, and again after a pickle round trip; Polynomial "
             "nodes are compiled inside small contexts and compared with the value computed "
             "from their parts; a retyped twin (4 -> 4.0) is translated first in the same "
             "process. Each instance is validated; nothing is proved about the translators "
             "in general."),
    "note": ("Trusted: CPython (eval/exec/ast.unparse), pbt/refsem.py. Exact integer/"
             "Fraction environments; float parts compared to 1e-9."),
    "technique": "per-program translation validation on generated inputs (differential execution vs reference interpreter)",
    "design_ref": "DESIGN.md section 4, C13",
}
