"""C20 - statement-stream utilities keep programs well-formed.

Oracle: pbt.stream_model (plain-record model of statement streams, identifier
scan over dataclass fields, reference renaming, own transitive reduction).

Sub-checks
  fuse     fuse_statement_streams_with_unique_ids on a pair of streams
  disamb   disambiguate_identifiers and disambiguate_and_fuse on a pair + filter
  rw       get_read_variables / get_written_variables / get_all_used_identifiers
  dot      get_dot_dependency_graph edges = transitive reduction of depends_on
  history  a recorded sequence of fuse / disambiguate_and_fuse operations on new
           and previously produced streams, replayed against code and model with
           the invariant after every step (the sequences are produced by a
           Hypothesis RuleBasedStateMachine that records its rules as JSON)
"""
from __future__ import annotations

from hypothesis import strategies as st

import pymbolic.primitives as p
from pymbolic.imperative.analysis import get_all_used_identifiers
from pymbolic.imperative.transform import (
    disambiguate_and_fuse, disambiguate_identifiers,
    fuse_statement_streams_with_unique_ids)
from pymbolic.imperative.utils import get_dot_dependency_graph

from pbt import stream_model as M
from pbt.runner import Result
from pbt.spec import HarnessError

PROP = "C20"
LEVEL = "exploration"
RULE = ("Hypothesis-generated pairs of statement streams (0-7 statements: "
        "Assignment to variables and to subscripts, ConditionalAssignment, Nop; "
        "ids and identifiers from small alphabets that contain the names the "
        "unique-name generator produces, so clashes between the two streams and "
        "with generated names are frequent; depends_on a random DAG inside each "
        "stream, forward references included) x filter (default / none / all / "
        "random subset); single streams for the read/written scan and the dot "
        "export; histories of <=12 fuse / disambiguate_and_fuse operations on new "
        "and previously produced streams recorded by a RuleBasedStateMachine. "
        "Non-trivial = fuse: >=1 id clash and a dependency of the second stream on "
        "a clashing id; disamb: >=1 identifier that must be renamed and occurs in "
        ">=2 of lhs/rhs/condition positions or next to an identifier that must be "
        "kept; rw: a variable visible only in an lhs subscript index or only in a "
        "condition; dot: DAG with >=1 redundant edge; history: >=3 executed steps "
        "with >=1 id clash; distinct by sha1 of the JSON case spec.")
ASSUMPTIONS = [
    "pbt/stream_model.py states the intended meaning: reads = variables of rhs, "
    "condition and lhs subscript index (called-function names are not variables, "
    "as the statements configure their dependency mapper), written = assigned name",
    "input domain: ids unique strings inside one stream, depends_on closed and "
    "acyclic inside one stream, lhs a Variable or a Subscript of a Variable",
    "the id mapping and the name substitution are chosen by the implementation; "
    "only the stated obligations on them are demanded (no particular fresh names, "
    "no identity on non-clashing ids)",
    "whether a renaming also renames an equally named called function is not "
    "demanded either way (streams are compared modulo that)",
]
HEALTH = {
    "fuse:dep-on-clashing-id": 0.04,
    "fuse:fresh-id-taken": 0.03,
    "fuse:forward-dependency": 0.03,
    "disamb:must-rename": 0.04,
    "disamb:must-keep-clash": 0.015,
    "disamb:filter-subset": 0.004,
    "rw:lhs-index-only-var": 0.02,
    "rw:condition-only-var": 0.01,
    "dot:redundant-edge": 0.03,
    "dot:redundant-only-via-long-path": 0.01,
    "hist:prev-prev": 0.005,
    "hist:steps>=6": 0.005,
}
TIMEOUT_IS_FAIL = True
CASE_TIMEOUT_S = 30
MAX_HISTORY_STMTS = 48

SUFFIX_IDX = ":lhs-index-only-name"


# {{{ helpers

def _filter_fn(flt):
    if flt is None:
        return None
    if not isinstance(flt, list) or not all(isinstance(n, str) for n in flt):
        raise HarnessError("filter must be null or a list of names")
    allowed = frozenset(flt)
    return lambda name: name in allowed


def _passes(flt, name):
    return flt is None or name in flt


def _mstmt_of_real(stmt):
    kind = type(stmt).__name__
    if kind == "Nop":
        return M.MStmt(kind, stmt.id, stmt.depends_on)
    return M.MStmt(kind, stmt.id, stmt.depends_on, stmt.lhs, stmt.rhs,
                   stmt.condition if kind == "ConditionalAssignment" else None)


def _unchanged(res, kind, real, model):
    """The statements handed in are still what was built from the spec."""
    res.compared()
    if len(real) != len(model) or any(
            M.observe(r) != m.obs() for r, m in zip(real, model)):
        res.fail(kind, "an input stream was modified in place: "
                 + "; ".join(str(r) for r in real))


def _compare_streams(res, prefix, real, model, canon=None, tag=""):
    """Statement-by-statement agreement; returns True if equal."""
    res.compared(max(1, len(model)))
    if len(real) != len(model):
        res.fail(prefix + ":length",
                 f"{tag}{len(real)} statements, model has {len(model)}")
        return False
    ok = True
    for k, (r, m) in enumerate(zip(real, model)):
        ro, mo = M.observe(r, canon), m.obs(canon)
        if ro != mo:
            ok = False
            for fld in M.obs_diff(ro, mo):
                res.fail(f"{prefix}:{fld}",
                         f"{tag}statement {k}: got [{r.id}: {r} deps="
                         f"{sorted(r.depends_on)}], model [{m.text()}]")
    return ok


def _well_formed(res, prefix, real, tag=""):
    res.compared()
    probs = M.well_formed_problems([M.observe(r) for r in real])
    for pr in probs:
        res.fail(f"{prefix}:{pr}", tag + "; ".join(
            f"{r.id}<-{sorted(r.depends_on)}" for r in real))
    return not probs

# }}}


# {{{ fusion obligations

def _judge_fusion(res, ma, mb, fused, mapping, canon=None, tag=""):
    """Obligations of a fusion of model streams ma, mb whose real outcome is
    (fused, mapping).  Returns the model of the fused stream (built with the
    returned mapping) or None if the mapping is unusable."""
    ids_a = [s.id for s in ma]
    ids_b = [s.id for s in mb]
    res.compared(3)
    if not isinstance(mapping, dict):
        res.fail("fuse-mapping-not-a-dict", f"{tag}{type(mapping).__name__}")
        return None
    missing = [i for i in ids_b if i not in mapping]
    extra = [k for k in mapping if k not in ids_b]
    if missing:
        res.fail("fuse-mapping-misses-id", f"{tag}ids {missing} of the second "
                 f"stream not in mapping {mapping}")
    if extra:
        res.fail("fuse-mapping-extra-key", f"{tag}{extra} in mapping {mapping} "
                 f"are not ids of the second stream {ids_b}")
    vals = [mapping[i] for i in ids_b if i in mapping]
    if len(set(vals)) != len(vals):
        res.fail("fuse-mapping-not-injective", f"{tag}{mapping}")
    hit = sorted(set(vals) & set(ids_a))
    if hit:
        res.fail("fuse-new-id-taken-by-first-stream",
                 f"{tag}{hit} are ids of the first stream; mapping {mapping}")
    _well_formed(res, "fuse-result", fused, tag)
    if missing:
        return None
    expected = list(ma) + [
        s.replace(id=mapping[s.id], deps={mapping[d] for d in s.deps})
        for s in mb]
    res.compared()
    if len(fused) != len(expected):
        res.fail("fuse-result:length", f"{tag}{len(fused)} statements from "
                 f"{len(ma)} + {len(mb)}")
        return None
    ok = _compare_streams(res, "fuse-first-stream-changed", fused[:len(ma)],
                          expected[:len(ma)], canon, tag)
    ok = _compare_streams(res, "fuse-second-stream", fused[len(ma):],
                          expected[len(ma):], canon, tag) and ok
    return expected if ok else None


def _label_fusion(res, ma, mb, mapping):
    ids_a = {s.id for s in ma}
    ids_b = {s.id for s in mb}
    clash = ids_a & ids_b
    dep_on_clash = any(s.deps & clash for s in mb)
    if clash:
        res.label("fuse:id-clash")
    if dep_on_clash:
        res.label("fuse:dep-on-clashing-id")
    if isinstance(mapping, dict) and any(
            v != k and (v in ids_b or f"{k}_0" in ids_a | ids_b)
            for k, v in mapping.items()):
        # the obvious fresh id was itself already in use
        res.label("fuse:fresh-id-taken")
    if any(mb[k].deps & {s.id for s in mb[k + 1:]} for k in range(len(mb))):
        res.label("fuse:forward-dependency")
    return bool(clash) and dep_on_clash

# }}}


# {{{ disambiguation obligations

def _judge_subst(res, ma, mb, flt, subst, tag=""):
    """Obligations on the returned substitution.  Returns the name mapping
    {old: new} usable for the reference renaming, or None."""
    ids_a = M.identifiers(ma)
    ids_b = M.identifiers(mb)
    hidden = M.lhs_index_only_names(ma) | M.lhs_index_only_names(mb)
    expected = {n for n in ids_a & ids_b if _passes(flt, n)}
    res.compared(4)
    if not isinstance(subst, dict):
        res.fail("subst-not-a-dict", f"{tag}{type(subst).__name__}")
        return None
    keys = set()
    for k in subst:
        keys.add(k.name if isinstance(k, p.Variable) else k)
    missing = expected - keys
    extra = keys - expected
    ctx = (f"{tag}identifiers(a)={sorted(ids_a)} identifiers(b)={sorted(ids_b)} "
           f"filter={flt} renamed={ {k: str(v) for k, v in subst.items()} }")
    if missing:
        res.fail("clash-not-renamed" + (SUFFIX_IDX if missing <= hidden else ""),
                 f"{sorted(missing)} occur in both streams and pass the filter "
                 f"but are not renamed; {ctx}")
    for n in sorted(extra):
        if n in ids_a & ids_b:
            res.fail("renamed-name-rejected-by-filter", f"{n!r}; {ctx}")
        elif n in ids_a | ids_b:
            res.fail("renamed-name-not-shared", f"{n!r} occurs in only one "
                     f"stream; {ctx}")
        else:
            res.fail("renamed-name-not-an-identifier", f"{n!r}; {ctx}")
    mapping = {}
    for k, v in subst.items():
        kn = k.name if isinstance(k, p.Variable) else k
        if not isinstance(v, p.Variable) or not isinstance(kn, str):
            res.fail("subst-value-not-a-variable", f"{kn!r} -> {v!r}")
            return None
        mapping[kn] = v.name
    fresh = list(mapping.values())
    if len(set(fresh)) != len(fresh):
        res.fail("fresh-names-not-distinct", ctx)
    used = set(fresh) & (ids_a | ids_b)
    if used:
        res.fail("fresh-name-in-use" + (SUFFIX_IDX if used <= hidden else ""),
                 f"{sorted(used)} already occur in the streams; {ctx}")
    return mapping


def _judge_shared_after(res, ma, mb, flt, real_b2, tag=""):
    """Afterwards the two streams share none of the names to be renamed."""
    ids_a = M.identifiers(ma)
    expected = {n for n in ids_a & M.identifiers(mb) if _passes(flt, n)}
    hidden = M.lhs_index_only_names(ma) | M.lhs_index_only_names(mb)
    ids_b2 = M.identifiers([_mstmt_of_real(s) for s in real_b2])
    res.compared()
    still = ids_a & ids_b2 & expected
    if still:
        res.fail("still-shared-after" + (SUFFIX_IDX if still <= hidden else ""),
                 f"{tag}{sorted(still)} occur in the first stream and in the "
                 "renamed second stream: " + "; ".join(str(s) for s in real_b2))


def _canon_for(mapping):
    # called-function names: new name and old name are the same thing
    return {new: old for old, new in mapping.items()}

# }}}


# {{{ check functions

def _pair(spec):
    if not isinstance(spec, dict) or "a" not in spec or "b" not in spec:
        raise HarnessError("pair spec needs a and b")
    return spec["a"], spec["b"], spec.get("filter")


def check_fuse(spec):
    res = Result()
    sa, sb, _ = _pair(spec)
    ma, mb = M.model_stream(sa), M.model_stream(sb)
    ra, rb = M.real_stream(sa), M.real_stream(sb)
    fused, mapping = fuse_statement_streams_with_unique_ids(ra, rb)
    _unchanged(res, "fuse-mutates-input", ra, ma)
    _unchanged(res, "fuse-mutates-input", rb, mb)
    _judge_fusion(res, ma, mb, list(fused), mapping)
    res.nontrivial = _label_fusion(res, ma, mb, mapping)
    res.sample = {"a": [s.text() for s in ma], "b": [s.text() for s in mb],
                  "mapping": mapping if isinstance(mapping, dict) else repr(mapping),
                  "fused": [f"{s.id}: {s} deps={sorted(s.depends_on)}"
                            for s in fused]}
    return res


def _label_disamb(res, ma, mb, flt):
    ids_a, ids_b = M.identifiers(ma), M.identifiers(mb)
    clash = ids_a & ids_b
    must = {n for n in clash if _passes(flt, n)}
    res.label("disamb:filter-" + ("default" if flt is None else
                                  "none" if not flt else
                                  "all" if clash <= set(flt) else "subset"))
    if must:
        res.label("disamb:must-rename")
    if clash - must:
        res.label("disamb:must-keep-clash")
    hidden = M.lhs_index_only_names(ma) | M.lhs_index_only_names(mb)
    if hidden & clash:
        res.label("disamb:clash-on-lhs-index-only-name")
    fnames = set()
    for s in mb:
        for e in (s.lhs, s.rhs, s.cond):
            if e is not None:
                fnames |= M.function_position_names(e)
    if fnames & must:
        res.label("disamb:called-function-named-like-renamed-variable")
    positions = 0
    for n in must:
        pos = sum(1 for s in mb if s.kind != "Nop" for e in (s.lhs, s.rhs, s.cond)
                  if e is not None and n in M.scan_vars(e))
        positions = max(positions, pos)
    return bool(must) and (positions >= 2 or bool(ids_b - must))


def check_disamb(spec):
    res = Result()
    sa, sb, flt = _pair(spec)
    ma, mb = M.model_stream(sa), M.model_stream(sb)

    # disambiguate_identifiers
    ra, rb = M.real_stream(sa), M.real_stream(sb)
    b2, subst = disambiguate_identifiers(ra, rb, _filter_fn(flt))
    b2 = list(b2)
    _unchanged(res, "disamb-mutates-input", ra, ma)
    _unchanged(res, "disamb-mutates-input", rb, mb)
    mapping = _judge_subst(res, ma, mb, flt, subst)
    if mapping is not None:
        mb2 = [M.rename_stmt(s, mapping) for s in mb]
        _compare_streams(res, "renamed-stream", b2, mb2, _canon_for(mapping))
    _judge_shared_after(res, ma, mb, flt, b2)

    # disambiguate_and_fuse: same obligations on its substitution, and the
    # fused stream is the fusion of a with the renamed b
    ra, rb = M.real_stream(sa), M.real_stream(sb)
    fused, subst2, idmap = disambiguate_and_fuse(ra, rb, _filter_fn(flt))
    fused = list(fused)
    mapping2 = _judge_subst(res, ma, mb, flt, subst2, tag="[and_fuse] ")
    if mapping2 is not None:
        mb2 = [M.rename_stmt(s, mapping2) for s in mb]
        _judge_fusion(res, ma, mb2, fused, idmap, _canon_for(mapping2),
                      tag="[and_fuse] ")
        if len(fused) == len(ma) + len(mb):
            _judge_shared_after(res, ma, mb, flt, fused[len(ma):],
                                tag="[and_fuse] ")
    res.nontrivial = _label_disamb(res, ma, mb, flt)
    res.sample = {"a": [s.text() for s in ma], "b": [s.text() for s in mb],
                  "filter": flt,
                  "subst": {str(k): str(v) for k, v in subst.items()}
                  if isinstance(subst, dict) else repr(subst),
                  "b_renamed": [str(s) for s in b2]}
    return res


def _classify_missing_read(s, n):
    in_rhs = n in M.scan_vars(s.rhs)
    in_cond = s.cond is not None and n in M.scan_vars(s.cond)
    if not in_rhs and not in_cond:
        return "read-misses-lhs-index-var"
    if not in_rhs:
        return "read-misses-condition-var"
    return "read-misses-rhs-var"


def _classify_extra_read(s, n):
    fnames = set()
    for e in (s.lhs, s.rhs, s.cond):
        if e is not None:
            fnames |= M.function_position_names(e)
    if n == M.assigned_name(s):
        return "read-includes-assigned-name"
    if n in fnames:
        return "read-includes-called-function"
    return "read-includes-unrelated-name"


def check_rw(spec):
    res = Result()
    if not isinstance(spec, dict) or "stream" not in spec:
        raise HarnessError("rw spec needs a stream")
    ms = M.model_stream(spec["stream"])
    rs = M.real_stream(spec["stream"])
    nt = False
    for s, r in zip(ms, rs):
        reads, writes = r.get_read_variables(), r.get_written_variables()
        res.compared(2)
        for nm, v in (("read", reads), ("written", writes)):
            if not isinstance(v, frozenset):
                res.fail("result-not-a-frozenset", f"{nm} set of [{s.text()}] is "
                         f"{type(v).__name__}")
        want_r, want_w = M.scan_reads(s), M.scan_writes(s)
        detail = (f"[{s.text()}] reports read={sorted(reads)}, scan finds "
                  f"{sorted(want_r)}")
        for n in sorted(want_r - set(reads)):
            res.fail(_classify_missing_read(s, n), f"{n!r}: {detail}")
        for n in sorted(set(reads) - want_r):
            res.fail(_classify_extra_read(s, n), f"{n!r}: {detail}")
        if set(writes) != want_w:
            res.fail("written-set-wrong", f"[{s.text()}] reports written="
                     f"{sorted(writes)}, assigned name {sorted(want_w)}")
        if s.kind != "Nop":
            rhs_v = M.scan_vars(s.rhs)
            cond_v = M.scan_vars(s.cond) if s.cond is not None else set()
            if M.lhs_index_vars(s) - rhs_v - cond_v:
                res.label("rw:lhs-index-only-var")
                nt = True
            if cond_v - rhs_v - M.lhs_index_vars(s):
                res.label("rw:condition-only-var")
                nt = True
            if any(M.function_position_names(e) for e in (s.lhs, s.rhs, s.cond)
                   if e is not None):
                res.label("rw:has-call")
    used = get_all_used_identifiers(rs)
    want = M.identifiers(ms)
    res.compared()
    if set(used) != want:
        missing = want - set(used)
        if missing and not (set(used) - want) \
                and missing <= M.lhs_index_only_names(ms):
            res.fail("identifiers-miss" + SUFFIX_IDX,
                     f"{sorted(missing)} missing from {sorted(used)}")
        else:
            res.fail("identifiers-wrong", f"get_all_used_identifiers gives "
                     f"{sorted(used)}, scan finds {sorted(want)}")
    _unchanged(res, "rw-mutates-input", rs, ms)
    res.nontrivial = nt
    res.sample = {"stream": [s.text() for s in ms],
                  "read": [sorted(M.scan_reads(s)) for s in ms],
                  "written": [sorted(M.scan_writes(s)) for s in ms]}
    return res


def _judge_dot(res, real, model, use_ids, tag=""):
    kw = {} if use_ids is None else {"use_stmt_ids": bool(use_ids)}
    text = get_dot_dependency_graph(real, **kw)
    nodes, edges = M.parse_dot(text)
    graph = M.dep_graph(model)
    want = M.transitive_reduction(graph)
    closure = M.transitive_closure(graph)
    res.compared(3)
    got = set(edges)
    if len(got) != len(edges):
        res.fail("dot-edge-drawn-twice", tag + text)
    for u, v in sorted(want - got):
        res.fail("dot-needed-edge-missing", f"{tag}{u} -> {v} is in the transitive "
                 f"reduction of {graph}; drawn: {sorted(got)}")
    for u, v in sorted(got - want):
        if v in closure.get(u, ()):
            res.fail("dot-redundant-edge-drawn", f"{tag}{u} -> {v} follows from "
                     f"other edges of {graph}; drawn: {sorted(got)}")
        else:
            res.fail("dot-edge-not-a-dependency", f"{tag}{u} -> {v} not in the "
                     f"closure of {graph}; drawn: {sorted(got)}")
    if sorted(nodes) != sorted(graph):
        res.fail("dot-nodes-wrong", f"{tag}nodes {nodes}, statements {list(graph)}")
    n_direct = sum(len(d) for d in graph.values())
    return n_direct, len(want)


def check_dot(spec):
    res = Result()
    if not isinstance(spec, dict) or "stream" not in spec:
        raise HarnessError("dot spec needs a stream")
    ms = M.model_stream(spec["stream"])
    rs = M.real_stream(spec["stream"])
    n_direct, n_red = _judge_dot(res, rs, ms, spec.get("use_ids"))
    _unchanged(res, "dot-mutates-input", rs, ms)
    if n_direct > n_red:
        res.label("dot:redundant-edge")
        res.nontrivial = True
    if n_direct == 0:
        res.label("dot:no-edges")
    graph = M.dep_graph(ms)
    if any(v in M.reachable(graph, [x for w in graph[u] if w != v
                                    for x in graph[w]])
           and not any(v in graph[w] for w in graph[u])
           for u in graph for v in graph[u]):
        # a direct edge implied only by paths of length >= 3
        res.label("dot:redundant-only-via-long-path")
    res.sample = {"depends_on": {s.id: sorted(s.deps) for s in ms},
                  "reduction": sorted(M.transitive_reduction(M.dep_graph(ms)))}
    return res


def _resolve(ref, streams, produced):
    if not (isinstance(ref, list) and len(ref) == 2 and ref[0] in ("new", "prev")
            and isinstance(ref[1], int) and not isinstance(ref[1], bool)):
        raise HarnessError(f"bad stream reference {ref!r}")
    if ref[0] == "prev" and produced:
        return produced[ref[1] % len(produced)], "prev"
    sp = streams[ref[1] % len(streams)]
    # a new stream: fresh objects on every use
    return (M.real_stream(sp), M.model_stream(sp)), "new"


def check_history(spec):
    res = Result()
    if not isinstance(spec, dict) or not isinstance(spec.get("streams"), list) \
            or not spec["streams"] or not isinstance(spec.get("ops"), list):
        raise HarnessError("history spec needs streams and ops")
    streams = spec["streams"]
    produced = []         # (real statements, model statements)
    executed = 0
    any_clash = False
    trace = []
    for k, op in enumerate(spec["ops"]):
        if not isinstance(op, dict) or op.get("op") not in ("fuse", "daf"):
            raise HarnessError(f"bad op {op!r}")
        (la, lm), lk = _resolve(op.get("left"), streams, produced)
        (rr, rm), rk = _resolve(op.get("right"), streams, produced)
        tag = f"[step {k} {op['op']} {op.get('left')} {op.get('right')}] "
        if len(lm) + len(rm) > MAX_HISTORY_STMTS:
            res.label("hist:op-skipped-size")
            continue
        executed += 1
        flt = op.get("filter")
        if lk == "prev" and rk == "prev":
            res.label("hist:prev-prev")
            if la is rr:
                res.label("hist:self-fusion")
        if {s.id for s in lm} & {s.id for s in rm}:
            any_clash = True
        if op["op"] == "fuse":
            fused, idmap = fuse_statement_streams_with_unique_ids(la, rr)
            fused = list(fused)
            expected = _judge_fusion(res, lm, rm, fused, idmap, tag=tag)
        else:
            fused, subst, idmap = disambiguate_and_fuse(la, rr, _filter_fn(flt))
            fused = list(fused)
            mapping = _judge_subst(res, lm, rm, flt, subst, tag=tag)
            expected = None
            if mapping is not None:
                rm2 = [M.rename_stmt(s, mapping) for s in rm]
                expected = _judge_fusion(res, lm, rm2, fused, idmap,
                                         _canon_for(mapping), tag=tag)
                if len(fused) == len(lm) + len(rm):
                    _judge_shared_after(res, lm, rm, flt, fused[len(lm):], tag=tag)
        trace.append(f"{op['op']}({op.get('left')},{op.get('right')})"
                     f"->{len(fused)}")
        # invariant after every step: earlier streams untouched, the new one
        # well-formed and equal to the model
        for j, (pr, pm) in enumerate(produced):
            _unchanged(res, "history-earlier-stream-changed", pr, pm)
        if lk == "new":
            _unchanged(res, "history-operand-changed", la, lm)
        if rk == "new":
            _unchanged(res, "history-operand-changed", rr, rm)
        if expected is None or not _well_formed(res, "history-stream", fused, tag):
            break       # model and code have diverged: later steps mean nothing
        if op["op"] == "daf":
            # continue with the real trees (function names may legitimately
            # differ from the reference renaming)
            expected = [_mstmt_of_real(s) for s in fused]
        produced.append((fused, expected))
    if produced:
        real, model = produced[-1]
        n_direct, n_red = _judge_dot(res, real, model, None, tag="[final stream] ")
        if n_direct > n_red:
            res.label("hist:final-dag-has-redundant-edge")
        # read/written sets of the final stream
        for s, r in zip(model, real):
            res.compared()
            want_r = M.scan_reads(s)
            got_r = set(r.get_read_variables())
            for n in sorted(want_r - got_r):
                res.fail(_classify_missing_read(s, n), f"[final stream] {n!r}: "
                         f"[{s.text()}] reports {sorted(got_r)}")
            for n in sorted(got_r - want_r):
                res.fail(_classify_extra_read(s, n), f"[final stream] {n!r}: "
                         f"[{s.text()}] reports {sorted(got_r)}")
            if set(r.get_written_variables()) != M.scan_writes(s):
                res.fail("written-set-wrong", f"[final stream] [{s.text()}]")
    if executed >= 6:
        res.label("hist:steps>=6")
    res.nontrivial = executed >= 3 and any_clash
    res.sample = {"new_streams": len(streams), "trace": trace,
                  "final": [f"{r.id}: {r} deps={sorted(r.depends_on)}"
                            for r in produced[-1][0]][:12] if produced else []}
    return res


def _once(fn):
    """Labels are per case (a label set by several statements/steps counts once)."""
    def wrapped(spec):
        res = fn(spec)
        res.labels = sorted(set(res.labels))
        return res
    wrapped.__name__ = fn.__name__
    wrapped.__doc__ = fn.__doc__
    return wrapped


CHECKS = {"fuse": _once(check_fuse), "disamb": _once(check_disamb),
          "rw": _once(check_rw), "dot": _once(check_dot),
          "history": _once(check_history)}

# }}}


# {{{ known findings

def _stream_specs_of(sub, spec):
    if sub in ("fuse", "disamb"):
        return [spec.get("a", []), spec.get("b", [])]
    if sub in ("rw", "dot"):
        return [spec.get("stream", [])]
    return list(spec.get("streams", []))


def _has_lhs_index_only_var(sub, spec):
    """Some statement has a subscripted lhs whose index mentions a variable
    that occurs neither in its rhs nor in its condition."""
    for sp in _stream_specs_of(sub, spec):
        try:
            ms = M.model_stream(sp)
        except HarnessError:
            continue
        for s in ms:
            if s.kind == "Nop":
                continue
            others = M.scan_vars(s.rhs) | (
                M.scan_vars(s.cond) if s.cond is not None else set())
            if M.lhs_index_vars(s) - others:
                return True
    return False


_F22_KINDS = frozenset({
    "read-misses-lhs-index-var", "identifiers-miss" + SUFFIX_IDX,
    "clash-not-renamed" + SUFFIX_IDX, "fresh-name-in-use" + SUFFIX_IDX,
    "still-shared-after" + SUFFIX_IDX})


def _known_f22(sub, spec, fail):
    # Assignment.get_read_variables never looks at the lhs: a variable used
    # only in the index of a subscripted lhs is not read, hence not an
    # identifier of the stream for disambiguate_identifiers.  The kinds below
    # are only emitted when every offending name is such a variable.
    return fail.kind in _F22_KINDS and _has_lhs_index_only_var(sub, spec)


KNOWN = {"F22": _known_f22}

# }}}


# {{{ generators

VARS = ("x", "y", "z", "i", "j", "x_0", "y_0", "i_0", "x_1")
FUNCS = ("f", "g")
IDS = ("s", "t", "u", "v", "s_0", "t_0", "s_1", "s_0_0", "u_0", "w")
CMP = ("<", "<=", "==", "!=", ">")


@st.composite
def _leaf(draw, names):
    if draw(st.integers(0, 4)) == 0:
        return ["Const", "int", draw(st.integers(-2, 5))]
    return ["Var", draw(st.sampled_from(names))]


@st.composite
def _func(draw, names):
    # mostly a dedicated function name; sometimes a name also used as variable
    if draw(st.integers(0, 9)) == 0:
        return ["Var", draw(st.sampled_from(names))]
    return ["Var", draw(st.sampled_from(FUNCS))]


@st.composite
def _expr(draw, names, depth):
    if depth <= 0 or draw(st.integers(0, 9)) < 3:
        return draw(_leaf(names))
    c = draw(st.integers(0, 13))
    sub = _expr(names, depth - 1)
    if c <= 2:
        return [("Sum", "Product", "Min")[c],
                [draw(sub) for _ in range(draw(st.integers(2, 3)))]]
    if c == 3:
        idx = draw(sub)
        if draw(st.integers(0, 3)) == 0:
            idx = ["Tuple", [idx, draw(sub)]]
        return ["Subscript", ["Var", draw(st.sampled_from(names))], idx]
    if c == 4 or c == 5:
        return ["Call", draw(_func(names)),
                [draw(sub) for _ in range(draw(st.integers(0, 2)))]]
    if c == 6:
        return ["CallWithKwargs", draw(_func(names)),
                [draw(sub) for _ in range(draw(st.integers(0, 1)))],
                [[k, draw(sub)] for k in ("p", "q")[:draw(st.integers(1, 2))]]]
    if c == 7:
        return ["Lookup", ["Var", draw(st.sampled_from(names))],
                draw(st.sampled_from(("re", "x", "i")))]
    if c == 8:
        return ["Power", draw(sub), draw(_leaf(names))]
    if c == 9:
        return [draw(st.sampled_from(("Quotient", "Remainder", "FloorDiv"))),
                draw(sub), draw(sub)]
    if c == 10:
        return ["If", draw(_cond(names, depth - 1)), draw(sub), draw(sub)]
    if c == 11:
        # never around a child that is_zero() could call zero (see stream_model)
        child = ["Sum", [draw(sub), draw(sub)]] if draw(st.booleans()) else \
            ["Call", draw(_func(names)), [draw(sub)]]
        return ["CommonSubexpression", child,
                draw(st.sampled_from((None, "tmp"))), "pymbolic_eval"]
    if c == 12:
        return ["Comparison", draw(sub), draw(st.sampled_from(CMP)), draw(sub)]
    return ["LogicalNot", draw(sub)]


@st.composite
def _cond(draw, names, depth):
    c = draw(st.integers(0, 5))
    if c <= 2 or depth <= 0:
        return ["Comparison", draw(_expr(names, max(0, depth - 1))),
                draw(st.sampled_from(CMP)), draw(_expr(names, max(0, depth - 1)))]
    if c == 3:
        return [draw(st.sampled_from(("LogicalAnd", "LogicalOr"))),
                [draw(_cond(names, depth - 1)), draw(_cond(names, depth - 1))]]
    if c == 4:
        return ["LogicalNot", draw(_cond(names, depth - 1))]
    return ["Var", draw(st.sampled_from(names))]


@st.composite
def _statement_body(draw, names):
    k = draw(st.integers(0, 9))
    if k == 0:
        return {"kind": "Nop"}
    if draw(st.booleans()):
        lhs = ["Var", draw(st.sampled_from(names))]
    else:
        c = draw(st.integers(0, 5))
        if c <= 2:
            idx = ["Var", draw(st.sampled_from(names))]
        elif c == 3:
            idx = ["Tuple", [draw(_expr(names, 1)), draw(_leaf(names))]]
        else:
            idx = draw(_expr(names, 2))
        lhs = ["Subscript", ["Var", draw(st.sampled_from(names))], idx]
    body = {"kind": "Assignment", "lhs": lhs,
            "rhs": draw(_expr(names, draw(st.integers(0, 3))))}
    if k >= 6:
        body["kind"] = "ConditionalAssignment"
        if draw(st.integers(0, 4)) > 0:
            body["condition"] = draw(_cond(names, draw(st.integers(0, 2))))
        elif draw(st.booleans()):
            body["condition"] = None
    if draw(st.integers(0, 4)) == 0:
        # sub-terms that are == but differ in a constant's type (x*4 and x*4.0) within one
        # statement: renaming must not exchange them (statements are observed strictly)
        v = ["Var", draw(st.sampled_from(names))]
        kk = draw(st.sampled_from((2, 4, 1)))
        t1 = ["Product", [v, ["Const", "int", kk]]]
        t2 = ["Product", [v, ["Const", "float", float(kk)]]]
        if draw(st.booleans()):
            t1, t2 = t2, t1
        if body["kind"] == "ConditionalAssignment" and body.get("condition") \
                and draw(st.booleans()):
            body["rhs"] = ["Sum", [body["rhs"], t1]]
            body["condition"] = ["LogicalAnd", [body["condition"],
                                                ["Comparison", t2, "<", ["Const", "int", 9]]]]
        else:
            body["rhs"] = ["Sum", [body["rhs"], t1, t2]]
    return body


@st.composite
def _names(draw):
    n = draw(st.integers(1, 5))
    return draw(st.lists(st.sampled_from(VARS), min_size=n, max_size=n,
                         unique=True))


@st.composite
def _dag(draw, ids, density):
    """depends_on for every id: edges only from later to earlier ids of a
    random order (closed, acyclic; forward references in list order occur)."""
    order = draw(st.permutations(ids))
    deps = {}
    for k, i in enumerate(order):
        deps[i] = [j for j in order[:k]
                   if draw(st.integers(0, 99)) < density]
    return deps


@st.composite
def stream(draw, max_len=7, names=None, ids=IDS, min_len=0):
    if names is None:
        names = draw(_names())
    n = draw(st.integers(min_len, min(max_len, len(ids))))
    my_ids = draw(st.lists(st.sampled_from(ids), min_size=n, max_size=n,
                           unique=True))
    deps = draw(_dag(my_ids, draw(st.sampled_from((15, 40, 70)))))
    out = []
    for i in my_ids:
        s = draw(_statement_body(names))
        s["id"] = i
        s["depends_on"] = deps[i]
        out.append(s)
    return out


@st.composite
def _filter(draw):
    c = draw(st.integers(0, 5))
    if c <= 1:
        return None
    if c == 2:
        return []
    if c == 3:
        return list(VARS)
    return draw(st.lists(st.sampled_from(VARS), unique=True, max_size=6))


@st.composite
def pair_case(draw):
    a = draw(stream())
    c = draw(st.integers(0, 9))
    if c == 0:
        b = [dict(s) for s in a]                    # the same program twice
    elif c == 1 and a:
        # same statements under other ids / same ids with other statements
        b = draw(stream(min_len=1))
        for s, t in zip(b, a):
            for fld in ("kind", "lhs", "rhs", "condition"):
                s.pop(fld, None)
                if fld in t:
                    s[fld] = t[fld]
    else:
        b = draw(stream())
    return {"a": a, "b": b, "filter": draw(_filter())}


@st.composite
def rw_case(draw):
    return {"stream": draw(stream(max_len=4))}


DOT_IDS = (*IDS, "a", "b", "c", "d", "e")


@st.composite
def dot_case(draw):
    mode = draw(st.integers(0, 2))
    if mode == 0:
        # one long chain in random list order plus a few shortcut edges: the
        # shortcuts are redundant only through paths of length >= 3
        n = draw(st.integers(4, len(DOT_IDS)))
        chain = list(draw(st.permutations(DOT_IDS)))[:n]
        deps = {i: [] for i in chain}
        for k in range(1, n):
            if draw(st.integers(0, 9)) > 0:
                deps[chain[k]].append(chain[k - 1])
        for _ in range(draw(st.integers(1, 4))):
            j = draw(st.integers(2, n - 1))
            i = draw(st.integers(0, j - 2))
            if chain[i] not in deps[chain[j]]:
                deps[chain[j]].append(chain[i])
        ids = list(draw(st.permutations(chain)))
    else:
        n = draw(st.integers(0, len(IDS)))
        ids = draw(st.lists(st.sampled_from(IDS), min_size=n, max_size=n,
                            unique=True))
        deps = draw(_dag(ids, draw(st.sampled_from((10, 30, 50, 80)))))
    out = []
    for i in ids:
        if draw(st.integers(0, 3)) == 0:
            s = draw(_statement_body(list(VARS[:4])))
        else:
            s = {"kind": "Nop"}
        s["id"] = i
        s["depends_on"] = deps[i]
        out.append(s)
    return {"stream": out, "use_ids": draw(st.sampled_from((None, True, False)))}


HIST_IDS = ("s", "t", "s_0", "t_0", "s_1", "u")
HIST_VARS = ("x", "y", "i", "x_0", "y_0")
_hist_stream = stream(max_len=3, names=list(HIST_VARS), ids=HIST_IDS)
_hist_filter = st.one_of(st.none(), st.lists(st.sampled_from(HIST_VARS),
                                             unique=True, max_size=4))
_hist_op = st.sampled_from(("fuse", "fuse", "daf"))


def make_machine(ctx):
    from hypothesis.stateful import (
        RuleBasedStateMachine, initialize, precondition, rule)

    class StreamHistory(RuleBasedStateMachine):
        """Records its rule sequence as a JSON history; the history is judged
        (replayed against code and model, invariant after every step) at
        teardown, so a failing sequence is a replayable spec."""

        def __init__(self):
            super().__init__()
            self.streams = []
            self.ops = []
            self.n_prev = 0

        def _new(self, s):
            self.streams.append(s)
            return ["new", len(self.streams) - 1]

        def _op(self, op, left, right, flt):
            self.ops.append({"op": op, "left": left, "right": right,
                             "filter": flt if op == "daf" else None})
            self.n_prev += 1

        @initialize(a=_hist_stream, b=_hist_stream, op=_hist_op, flt=_hist_filter)
        def start(self, a, b, op, flt):
            self._op(op, self._new(a), self._new(b), flt)

        @rule(s=_hist_stream, j=st.integers(0, 11), op=_hist_op, flt=_hist_filter)
        def new_on_the_left(self, s, j, op, flt):
            self._op(op, self._new(s), ["prev", j % self.n_prev], flt)

        @rule(s=_hist_stream, j=st.integers(0, 11), op=_hist_op, flt=_hist_filter)
        def new_on_the_right(self, s, j, op, flt):
            self._op(op, ["prev", j % self.n_prev], self._new(s), flt)

        @rule(j=st.integers(0, 11), k=st.integers(0, 11), op=_hist_op,
              flt=_hist_filter)
        def two_previous(self, j, k, op, flt):
            self._op(op, ["prev", j % self.n_prev], ["prev", k % self.n_prev], flt)

        @precondition(lambda self: self.n_prev >= 1)
        @rule(op=_hist_op, flt=_hist_filter)
        def latest_with_itself(self, op, flt):
            self._op(op, ["prev", self.n_prev - 1], ["prev", self.n_prev - 1], flt)

        @rule(op=_hist_op, flt=_hist_filter)
        def reuse_first_new_stream(self, op, flt):
            # the same new stream again (fresh objects) next to the latest result
            self._op(op, ["prev", self.n_prev - 1], ["new", 0], flt)

        def teardown(self):
            if self.ops and not ctx.over_budget():
                ctx.judge("history", {"streams": self.streams, "ops": self.ops})
                ctx.extra["machine_runs"] += 1
                ctx.extra["machine_steps"] += len(self.ops)

    return StreamHistory


def run_machine(ctx, n_runs):
    import hypothesis
    from hypothesis import HealthCheck, Phase, settings
    from hypothesis.stateful import run_state_machine_as_test

    phases = [Phase.generate] if ctx.tier == "quick" else [
        Phase.generate, Phase.shrink]
    machine = hypothesis.seed(ctx.hyp_seed)(make_machine(ctx))
    run_state_machine_as_test(machine, settings=settings(
        max_examples=n_runs, stateful_step_count=12, database=None,
        deadline=None, phases=phases, report_multiple_bugs=False,
        suppress_health_check=list(HealthCheck)))


def generate(ctx):
    def pair(s):
        ctx.judge("fuse", s)
        ctx.judge("disamb", s)
    ctx.run_given(pair_case(), pair, ctx.n(3500, 160000))
    ctx.run_given(rw_case(), lambda s: ctx.judge("rw", s), ctx.n(2000, 90000))
    ctx.run_given(dot_case(), lambda s: ctx.judge("dot", s), ctx.n(2200, 100000))
    run_machine(ctx, ctx.n(300, 13000))

# }}}


MANIFEST = {
    "text": ("Generated-input search against an in-memory model of statement "
             "streams: fusion (distinct ids, first stream unchanged, second stream "
             "renamed by the returned mapping, dependencies remapped), "
             "disambiguation (exactly the shared identifiers passing the filter are "
             "renamed to fresh distinct names, consistently, none shared "
             "afterwards), read/written sets against an independent scan, dot edges "
             "against an own transitive reduction, and state-machine generated "
             "histories of repeated fusion replayed with an invariant after every "
             "step. Exploration, not proof: absence of a counterexample among the "
             "generated stream pairs and histories."),
    "note": ("Trusted: pbt/stream_model.py (field-walking identifier scan, "
             "reference renaming, reachability-based transitive reduction), "
             "Hypothesis generation. The id mapping and fresh names are the "
             "implementation's choice; only the stated obligations are demanded."),
    "technique": ("property-based testing (Hypothesis) vs reference model; "
                  "rule-based state machine recording JSON histories"),
    "design_ref": "DESIGN.md section 4, C20",
}
