"""C18 - multivectors obey the axioms of geometric (Clifford) algebra.

Oracle: pbt.ga_ref (blades are sorted index lists; the product concatenates,
bubble-sorts counting swaps and contracts equal neighbours with the metric
entry - no bitmaps).  Symbolic coefficients are compared as exact rational
functions (pbt.polynf).

Sub-checks
  pair     exhaustive: one basis blade against a list of basis blades under one
           diagonal metric: * ^ | << >> scalar_product vs the grade parts
           (r+s, |r-s|, s-r, r-s, 0) of the reference product; e_i e_i = g_ii,
           e_i e_j = -e_j e_i
  blade    exhaustive: rev, invol, dual, norm_squared, I, inv of every scaled
           basis blade under one metric
  assoc    exhaustive: (AB)C = A(BC) = reference for blade triples
  bilin    random multivectors (Fraction / symbolic coefficients, built through
           the public constructors and + -): bilinearity of all six products
           in both arguments, values vs the reference, raw scalar operands
  assocmv  random multivectors: associativity of the geometric product
  unary    random multivectors: rev/invol/dual/norm_squared/I vs the reference,
           their defining identities, inv (inverse / refusal)
  cmp      random numeric multivectors: == != hash bool vs coefficient-wise
           comparison
"""
from __future__ import annotations

import itertools
import random
from fractions import Fraction

import numpy as np
from hypothesis import strategies as st

import pymbolic.primitives as prim
from pymbolic.geometric_algebra import MultiVector, Space, get_euclidean_space

from pbt import polynf
from pbt.ga_ref import Algebra, all_blades, sort_with_sign
from pbt.runner import Result, spec_hash
from pbt.spec import HarnessError, build as build_expr

PROP = "C18"
LEVEL = "exploration"
RULE = (
    "Exhaustive tiers: every ordered pair (sub 'pair') and triple (sub 'assoc') of "
    "basis blades and every scaled basis blade (sub 'blade') in dimensions 0-4 "
    "(thorough: 0-5) under diagonal metrics with entries in {1,-1,0,2} (quick: all "
    "4^d metrics for d<=3, 32 for d=4 (4 fixed + 28 seed-chosen); thorough: all for "
    "d<=4, 64 for d=5), compared with the list-based reference product "
    "pbt/ga_ref.py; one judged case is one chunk (metric, left blade(s), list of "
    "right blades), non-triviality is counted per cell (metric, blade tuple). "
    "Random tier (explicitly weighted generator over random.Random, one "
    "Hypothesis-drawn seed per batch of 25 cases): multivectors with int/Fraction "
    "(2/3 of cases) or symbolic "
    "coefficients built through the public constructors (index-tuple dicts in "
    "arbitrary index order, numpy object/int64 vectors, scalars incl. 0, combined with + -) for "
    "bilinearity of the six products, associativity, unary operations, inverse and "
    "== / hash / bool. Non-trivial = some pair of blades taking part in a product "
    "has both grades >= 1 and a shared index, or a grade >= 2 on either side "
    "(unary: a blade of grade >= 2; cmp: both operands non-zero, or "
    "coefficient-wise equal operands built differently); distinct by sha1 of the "
    "JSON cell/case spec.")
ASSUMPTIONS = [
    "pbt/ga_ref.py (concatenate, bubble-sort counting swaps, contract equal "
    "neighbours with g_ii) states the intended geometric product; pbt/polynf.py "
    "decides equality of symbolic coefficients as rational functions",
    "MultiVector.data is decoded as documented (bit i of the key <-> basis vector i); "
    "the decoding is itself checked against the index-tuple constructor",
    "`|` is the inner product WITHOUT the scalar exception: the grade |r-s| part for "
    "every pair of grades, so 1|B = B (this is what the property statement says and "
    "what the library implements; Hestenes' original A.lambda = 0 is not demanded)",
    "dual(A) is checked against A * rev(I) computed by the reference (docstring: "
    "'self | self.I.rev()', [HS] (1.2.26)); for non-unit metrics this differs from "
    "the A * I^-1 convention of [DFM], which is not demanded",
    "inv(): demanded only for non-null single scaled blades and vectors; "
    "NotImplementedError/ZeroDivisionError on anything else is a refusal, nothing is "
    "demanded of inv() on null blades or on the zero multivector",
    "inverse checks use Fraction (not int) coefficients because int/int is a float in "
    "Python; symbolic and Fraction coefficients are never mixed (pymbolic expressions "
    "do not accept Fraction operands - an operator-overloading matter, C03)",
    "==/hash/bool are demanded for numeric coefficients only (symbolic coefficients "
    "that are zero as polynomials but not structurally are outside 'exact equality')",
]
HEALTH = {"mode:symbolic": 0.03, "mode:numeric": 0.05, "metric:degenerate": 0.05,
          "inv:inverse-checked": 0.02, "inv:refused": 0.003, "cmp:coeffwise-equal": 0.01,
          "operand:raw-scalar": 0.005}
BUDGET_S = {"quick": 200, "thorough": 2400}
CASE_TIMEOUT_S = 60

METRIC_ENTRIES = (1, -1, 0, 2)


# {{{ spec decoding

def _coef(c, frac_ints=False):
    """Coefficient spec -> Python/pymbolic value.  int | ["Frac", n, d] | an
    expression spec of pbt.spec (["Var", "x"], ["Sum", [...]], ...)."""
    if isinstance(c, bool):
        raise HarnessError(f"bool coefficient {c!r}")
    if isinstance(c, int):
        return Fraction(c) if frac_ints else c
    if isinstance(c, list) and c and isinstance(c[0], str):
        if c[0] == "Frac":
            if len(c) != 3 or not all(isinstance(v, int) and not isinstance(v, bool)
                                      for v in c[1:]) or c[2] == 0:
                raise HarnessError(f"bad fraction {c!r}")
            return Fraction(c[1], c[2])
        v = build_expr(c)
        if not isinstance(v, prim.Expression):
            if isinstance(v, (int, Fraction)) and not isinstance(v, bool):
                return Fraction(v) if frac_ints else v
            raise HarnessError(f"unsupported coefficient {c!r}")
        return v
    raise HarnessError(f"bad coefficient spec {c!r}")


def _to_frac(c):
    if isinstance(c, (bool, np.bool_)):
        raise polynf.NotRational("bool coefficient")
    if isinstance(c, (int, np.integer)):
        return Fraction(int(c))
    if isinstance(c, Fraction):
        return c
    if isinstance(c, (float, np.floating)) and float(c) == float(c) \
            and abs(float(c)) != float("inf"):
        return Fraction(float(c))
    raise polynf.NotRational(f"coefficient of type {type(c).__name__}")


class Env:
    """Space, reference algebra and coefficient domain of one case."""

    def __init__(self, gspec, symbolic=False, frac_ints=False, euclid_default=False):
        if not isinstance(gspec, list) or len(gspec) > 6:
            raise HarnessError(f"bad metric {gspec!r}")
        self.symbolic = symbolic
        self.frac_ints = frac_ints and not symbolic
        self.g = [_coef(x) for x in gspec]
        for x in self.g:
            if isinstance(x, prim.Expression):
                raise HarnessError("symbolic metric")
            if symbolic and isinstance(x, Fraction):
                raise HarnessError("Fraction metric with symbolic coefficients")
        self.d = d = len(self.g)
        if euclid_default and all(x == 1 and isinstance(x, int) for x in self.g):
            self.space = get_euclidean_space(d)
        else:
            m = np.zeros((d, d), dtype=object)
            for i, x in enumerate(self.g):
                m[i, i] = x
            self.space = Space(metric_matrix=m)
        if symbolic:
            self.conv = polynf.Converter()
            self.lift = self.conv
            self.alg = Algebra(self.g, lift=self.conv, is_zero=lambda c: c.is_zero())
        else:
            self.lift = _to_frac
            self.alg = Algebra(self.g, lift=_to_frac)

    def coef(self, c):
        v = _coef(c, self.frac_ints)
        if isinstance(v, prim.Expression) and not self.symbolic:
            raise HarnessError("symbolic coefficient in a numeric case")
        if isinstance(v, Fraction) and self.symbolic:
            raise HarnessError("Fraction coefficient in a symbolic case")
        return v

    def indices(self, idx):
        if not isinstance(idx, list) or not all(
                isinstance(i, int) and not isinstance(i, bool) and 0 <= i < self.d
                for i in idx) or len(set(idx)) != len(idx):
            raise HarnessError(f"bad blade indices {idx!r} in dimension {self.d}")
        return tuple(idx)

    # -- library value -> reference multivector ---------------------------
    def decode(self, res, mv, what):
        """None (and a recorded failure) if *mv* is not a well-formed
        multivector of this space."""
        if not isinstance(mv, MultiVector):
            res.fail("not-a-multivector", f"{what}: got {type(mv).__name__}: {mv!r}"[:400])
            return None
        if mv.space is not self.space:
            res.fail("wrong-space", f"{what}: result lives in another Space object")
            return None
        out = {}
        for bits, c in mv.data.items():
            if isinstance(bits, bool) or not isinstance(bits, (int, np.integer)) \
                    or not 0 <= bits < 2 ** self.d:
                res.fail("bad-blade-key", f"{what}: key {bits!r} in {mv!r}"[:400])
                return None
            blade = tuple(i for i in range(self.d) if (int(bits) // 2 ** i) % 2 == 1)
            try:
                k = self.lift(c)
            except polynf.NotRational as e:
                res.fail("bad-coefficient", f"{what}: {e} in {mv!r}"[:400])
                return None
            except ZeroDivisionError:
                # e.g. Quotient(x, 0): pymbolic builds it without complaint
                res.fail("coefficient-divides-by-zero", f"{what}: {mv!r}"[:400])
                return None
            if not self.alg.is_zero(k):
                out[blade] = k
        return out

    def lift_scalar(self, res, c, what):
        if isinstance(c, MultiVector):
            res.fail("scalar-expected", f"{what}: got a MultiVector {c!r}"[:400])
            return None
        try:
            return self.lift(c)
        except polynf.NotRational as e:
            res.fail("bad-coefficient", f"{what}: {e}: {c!r}"[:400])
            return None
        except ZeroDivisionError:
            res.fail("coefficient-divides-by-zero", f"{what}: {c!r}"[:400])
            return None

    def show(self, ref):
        if not ref:
            return "0"
        return " + ".join(
            f"({c})" + ("*e" + "".join(map(str, bl)) if bl else "")
            for bl, c in sorted(ref.items(), key=lambda t: (len(t[0]), t[0])))

    def same(self, res, kind, got, ref, what):
        """Record *kind* unless decoded library value == reference value."""
        res.compared()
        if got is None:
            return False
        if not self.alg.equal(got, ref):
            res.fail(kind, f"{what}: library {self.show(got)} != reference "
                           f"{self.show(ref)} [metric {self.g}]")
            return False
        return True

    def same_mv(self, res, kind, mv, ref, what):
        return self.same(res, kind, self.decode(res, mv, what), ref, what)

    def same_scalar(self, res, kind, val, ref, what):
        res.compared()
        k = self.lift_scalar(res, val, what)
        if k is None:
            return False
        if not (k == ref):
            res.fail(kind, f"{what}: library {k!r} != reference {ref!r} "
                           f"[metric {self.g}]")
            return False
        return True


def _metric_labels(res, env):
    if any(x == 0 for x in env.g):
        res.label("metric:degenerate")
    if any(x != 1 for x in env.g):
        res.label("metric:non-euclidean")
    res.label(f"dim:{env.d}")


def _nt_pair(a, b):
    return (len(a) >= 1 and len(b) >= 1 and bool(set(a) & set(b))) \
        or len(a) >= 2 or len(b) >= 2


def _nt_mv(X, Y):
    return any(_nt_pair(a, b) for a in X for b in Y)


def _bname(bl):
    return "e" + "".join(map(str, bl)) if bl else "1"

# }}}


# {{{ exhaustive: blade pairs

PRODUCTS = (
    ("gp", lambda a, b: a * b, "gp"),
    ("outer", lambda a, b: a ^ b, "outer"),
    ("inner", lambda a, b: a | b, "inner"),
    ("lcontract", lambda a, b: a << b, "lcontract"),
    ("rcontract", lambda a, b: a >> b, "rcontract"),
)


def _scaled_blade(env, idx, cspec):
    idx = env.indices(idx)
    c = env.coef(cspec)
    mv = MultiVector({idx: c}, env.space)
    ref = env.alg.from_terms([(list(idx), env.lift(c))])
    return mv, ref


def check_pair(spec):
    """{"g": metric, "a": indices, "bs": [indices...], "ca": coef, "cb": coef}"""
    res = Result()
    env = Env(spec["g"])
    alg = env.alg
    A, Ar = _scaled_blade(env, spec["a"], spec.get("ca", 1))
    if not env.same_mv(res, "construct-mismatch", A, Ar, f"blade {spec['a']}"):
        return res
    bs = spec["bs"]
    if not isinstance(bs, list):
        raise HarnessError("bs")
    nt_cells = []
    (a,) = Ar.keys() if Ar else ((),)
    for bidx in bs:
        B, Br = _scaled_blade(env, bidx, spec.get("cb", 1))
        if not env.same_mv(res, "construct-mismatch", B, Br, f"blade {bidx}"):
            continue
        (b,) = Br.keys() if Br else ((),)
        what = f"{env.show(Ar)} , {env.show(Br)}"
        for name, fn, refname in PRODUCTS:
            env.same_mv(res, "blade-" + name, fn(A, B), getattr(alg, refname)(Ar, Br),
                        f"{name} of {what}")
        env.same_scalar(res, "blade-scalar-product", A.scalar_product(B),
                        alg.scalar_product(Ar, Br), f"scalar_product of {what}")
        if len(a) == 1 and len(b) == 1 and Ar and Br:
            ab = env.decode(res, A * B, "e_i e_j")
            if a == b:
                want = alg.scalar(env.lift(env.g[a[0]]) * Ar[a] * Br[b])
                env.same(res, "basis-vector-square", ab, want, f"square of {what}")
            else:
                ba = env.decode(res, B * A, "e_j e_i")
                if ab is not None and ba is not None:
                    env.same(res, "basis-vectors-anticommute", ab, alg.neg(ba),
                             f"e_i e_j vs -e_j e_i for {what}")
        if _nt_pair(a, b) and Ar and Br:
            nt_cells.append({"g": spec["g"], "a": list(a), "bs": [list(b)]})
    res.nt_cells = nt_cells
    res.nontrivial = bool(nt_cells)
    res.label("tier:pair")
    _metric_labels(res, env)
    res.sample = {"metric": spec["g"], "left blade": env.show(Ar),
                  "right blades": [_bname(env.indices(b)) for b in bs][:40],
                  "products": "* ^ | << >> scalar_product"}
    return res

# }}}


# {{{ exhaustive: unary operations on scaled basis blades

def _check_inverse(res, env, A, Ar, what, demand):
    """inv() of A.  demand: 'inverse' (must return the inverse), 'any'
    (refusal allowed, a returned value must be an inverse), None."""
    alg = env.alg
    nsq = alg.norm_squared(Ar)
    one = alg.scalar(1)
    try:
        R = A.inv()
    except (NotImplementedError, ZeroDivisionError) as e:
        if demand == "inverse":
            res.fail("inv-refused-invertible-blade",
                     f"{what}: inv() raised {type(e).__name__} although the squared "
                     f"norm {nsq!r} is not zero [metric {env.g}]")
        else:
            res.label("inv:refused")
        return
    if demand is None:
        return
    Rr = env.decode(res, R, f"inv of {what}")
    if Rr is None:
        return
    res.label("inv:inverse-checked")
    ok = env.same(res, "inv-not-inverse", alg.gp(Rr, Ar), one,
                  f"reference product inv(B)*B for B = {what}")
    ok = env.same(res, "inv-not-inverse", alg.gp(Ar, Rr), one,
                  f"reference product B*inv(B) for B = {what}") and ok
    if demand == "inverse":
        want = alg.scale(env.lift(1) / nsq, alg.rev(Ar))
        env.same(res, "inv-value", Rr, want, f"inv of {what} vs rev(B)/<rev(B) B>")
    if not env.symbolic:
        # the statement itself, with the library's own product and ==
        res.compared(2)
        if not (R * A == 1):
            res.fail("inv-lib-identity", f"{what}: B.inv()*B == 1 is False: {R * A!r}"[:500])
        if not (A * R == 1):
            res.fail("inv-lib-identity", f"{what}: B*B.inv() == 1 is False: {A * R!r}"[:500])
    else:
        env.same_mv(res, "inv-lib-identity", R * A, one, f"B.inv()*B for B = {what}")
        env.same_mv(res, "inv-lib-identity", A * R, one, f"B*B.inv() for B = {what}")


def _check_unary_values(res, env, A, Ar, what):
    alg = env.alg
    env.same_mv(res, "rev-value", A.rev(), alg.rev(Ar), f"rev of {what}")
    env.same_mv(res, "invol-value", A.invol(), alg.invol(Ar), f"invol of {what}")
    env.same_mv(res, "dual-value", A.dual(), alg.dual(Ar), f"dual of {what}")
    env.same_mv(res, "dual-value", A.__inv__(), alg.dual(Ar), f"__inv__ (dual) of {what}")
    env.same_scalar(res, "norm-squared-value", A.norm_squared(), alg.norm_squared(Ar),
                    f"norm_squared of {what}")
    env.same_mv(res, "pseudoscalar-value", A.I, alg.pseudoscalar(), "A.I")


def check_blade(spec):
    """{"g": metric, "blades": [indices...], "c": coef}"""
    res = Result()
    env = Env(spec["g"], frac_ints=True)
    alg = env.alg
    blades = spec["blades"]
    if not isinstance(blades, list):
        raise HarnessError("blades")
    nt_cells = []
    n_null = 0
    for idx in blades:
        A, Ar = _scaled_blade(env, idx, spec.get("c", 1))
        if not env.same_mv(res, "construct-mismatch", A, Ar, f"blade {idx}"):
            continue
        what = env.show(Ar)
        _check_unary_values(res, env, A, Ar, what)
        if Ar:
            if alg.norm_squared(Ar) != 0:
                _check_inverse(res, env, A, Ar, what, "inverse")
            else:
                n_null += 1
                res.label("inv:null")
                _check_inverse(res, env, A, Ar, what, None)
            (a,) = Ar.keys()
            if len(a) >= 2:
                nt_cells.append({"g": spec["g"], "blades": [list(a)], "c": spec.get("c", 1)})
    res.nt_cells = nt_cells
    res.nontrivial = bool(nt_cells)
    res.label("tier:blade")
    _metric_labels(res, env)
    res.sample = {"metric": spec["g"], "coefficient": spec.get("c", 1),
                  "blades": [_bname(env.indices(b)) for b in blades][:40],
                  "null blades": n_null,
                  "operations": "rev invol dual norm_squared I inv"}
    return res

# }}}


# {{{ exhaustive: associativity on blade triples

def check_assoc(spec):
    """{"g": metric, "a": indices, "b": indices, "cs": [indices...]}"""
    res = Result()
    env = Env(spec["g"])
    alg = env.alg
    A, Ar = _scaled_blade(env, spec["a"], spec.get("ca", 1))
    B, Br = _scaled_blade(env, spec["b"], spec.get("cb", 1))
    if not (env.same_mv(res, "construct-mismatch", A, Ar, "a")
            and env.same_mv(res, "construct-mismatch", B, Br, "b")):
        return res
    cs = spec["cs"]
    if not isinstance(cs, list):
        raise HarnessError("cs")
    AB = A * B
    ABr = alg.gp(Ar, Br)
    a = next(iter(Ar), ())
    b = next(iter(Br), ())
    nt_cells = []
    for cidx in cs:
        C, Cr = _scaled_blade(env, cidx, spec.get("cc", 1))
        if not env.same_mv(res, "construct-mismatch", C, Cr, "c"):
            continue
        c = next(iter(Cr), ())
        ref = alg.gp(ABr, Cr)
        if not alg.equal(ref, alg.gp(Ar, alg.gp(Br, Cr))):
            raise HarnessError(f"reference product is not associative on {spec!r}")
        what = f"{env.show(Ar)} , {env.show(Br)} , {env.show(Cr)}"
        left = AB * C
        right = A * (B * C)
        okl = env.same_mv(res, "assoc-left-value", left, ref, f"(AB)C for {what}")
        okr = env.same_mv(res, "assoc-right-value", right, ref, f"A(BC) for {what}")
        if okl and okr:
            res.compared()
            if not (left == right) or (left != right):
                res.fail("assoc-lib-eq", f"(AB)C == A(BC) is False for {what}: "
                                         f"{left!r} vs {right!r}"[:600])
        if Ar and Br and Cr and (_nt_pair(a, b) or _nt_pair(b, c) or _nt_pair(a, c)):
            nt_cells.append({"g": spec["g"], "a": list(a), "b": list(b), "cs": [list(c)]})
    res.nt_cells = nt_cells
    res.nontrivial = bool(nt_cells)
    res.label("tier:assoc")
    _metric_labels(res, env)
    res.sample = {"metric": spec["g"], "a": env.show(Ar), "b": env.show(Br),
                  "c blades": [_bname(env.indices(c)) for c in cs][:40],
                  "obligation": "(a*b)*c == a*(b*c) == reference"}
    return res

# }}}


# {{{ random multivectors: operand programs

def _spec_symbolic(x):
    """Does any coefficient inside the (sub)spec mention a pymbolic node?"""
    if isinstance(x, dict):
        return any(_spec_symbolic(v) for v in x.values())
    if isinstance(x, list):
        if x and isinstance(x[0], str):
            if x[0] in ("+", "-"):
                return any(_spec_symbolic(v) for v in x[2:])
            return x[0] not in ("Frac", "Const")
        return any(_spec_symbolic(v) for v in x)
    return False


def _term(env, kind, payload):
    """One constructor call -> (MultiVector, reference)."""
    alg = env.alg
    if kind == "dict":
        if not isinstance(payload, list):
            raise HarnessError("dict payload")
        data = {}
        terms = []
        for ent in payload:
            if not isinstance(ent, list) or len(ent) != 2:
                raise HarnessError(f"bad dict entry {ent!r}")
            idx = env.indices(ent[0])
            if idx in data:
                raise HarnessError("duplicate index tuple")
            c = env.coef(ent[1])
            data[idx] = c
            terms.append((list(idx), env.lift(c)))
        return MultiVector(data, env.space), alg.from_terms(terms)
    if kind in ("vec", "ivec"):
        if not isinstance(payload, list) or len(payload) != env.d:
            raise HarnessError("vec payload length")
        cs = [env.coef(c) for c in payload]
        if kind == "ivec" and all(type(c) is int for c in cs):
            arr = np.array(cs, dtype=np.int64)       # numpy integer coefficients
        else:
            arr = np.empty(env.d, dtype=object)
            for i, c in enumerate(cs):
                arr[i] = c
        sp = env.space
        if sp is get_euclidean_space(env.d):
            mv = MultiVector(arr)            # dimension guessing, default space
        else:
            mv = MultiVector(arr, sp)
        return mv, alg.from_terms([([i], env.lift(c)) for i, c in enumerate(cs)])
    if kind in ("scalar", "rscalar"):
        c = env.coef(payload)
        return MultiVector(c, env.space), alg.scalar(c)
    raise HarnessError(f"unknown term kind {kind!r}")


def _operand(res, env, op, name):
    """Operand spec -> (library value, reference, is_raw).
    {"terms": [[sign, kind, payload], ...]} or {"raw": coef}."""
    alg = env.alg
    if not isinstance(op, dict):
        raise HarnessError(f"bad operand {op!r}")
    if "raw" in op:
        c = env.coef(op["raw"])
        res.label("operand:raw-scalar")
        return c, alg.scalar(c), True
    terms = op.get("terms")
    if not isinstance(terms, list) or not terms or len(terms) > 6:
        raise HarnessError(f"bad operand {op!r}")
    acc = accr = None
    for t in terms:
        if not isinstance(t, list) or len(t) != 3 or t[0] not in ("+", "-"):
            raise HarnessError(f"bad term {t!r}")
        sign, kind, payload = t
        if acc is None:
            mv, ref = _term(env, kind, payload)
            if sign == "-":
                mv, ref = -mv, alg.neg(ref)
            acc, accr = mv, ref
        elif kind == "scalar":      # MultiVector +- raw scalar
            c = env.coef(payload)
            acc = acc + c if sign == "+" else acc - c
            accr = alg.add(accr, alg.scalar(c)) if sign == "+" \
                else alg.sub(accr, alg.scalar(c))
        elif kind == "rscalar":     # raw scalar +- MultiVector
            c = env.coef(payload)
            acc = c + acc if sign == "+" else c - acc
            accr = alg.add(alg.scalar(c), accr) if sign == "+" \
                else alg.sub(alg.scalar(c), accr)
        else:
            mv, ref = _term(env, kind, payload)
            acc = acc + mv if sign == "+" else acc - mv
            accr = alg.add(accr, ref) if sign == "+" else alg.sub(accr, ref)
    if not env.same_mv(res, "construct-mismatch", acc, accr, f"operand {name}"):
        return None
    return acc, accr, False


def _env_for(spec, **kw):
    sym = _spec_symbolic([spec.get(k) for k in ("A", "B", "C", "alpha", "beta")])
    env = Env(spec["g"], symbolic=sym, euclid_default=bool(spec.get("euclid")), **kw)
    return env


def _mode_labels(res, env):
    res.label("mode:symbolic" if env.symbolic else "mode:numeric")
    _metric_labels(res, env)

# }}}


# {{{ random: bilinearity and product values

OPS = {
    "gp": (lambda a, b: a * b, "gp"),
    "outer": (lambda a, b: a ^ b, "outer"),
    "inner": (lambda a, b: a | b, "inner"),
    "lcontract": (lambda a, b: a << b, "lcontract"),
    "rcontract": (lambda a, b: a >> b, "rcontract"),
    "scalar": (lambda a, b: a.scalar_product(b), "scalar_product"),
}


def check_bilin(spec):
    """{"g", "A", "B", "C", "alpha", "beta", "ops": [...], "sides": "L"|"R"|"LR"}
    op(alpha*A + beta*B, C) == alpha*op(A, C) + beta*op(B, C) == reference,
    and the same in the right argument.  C may be a raw scalar."""
    res = Result()
    env = _env_for(spec)
    alg = env.alg
    oa = _operand(res, env, spec["A"], "A")
    ob = _operand(res, env, spec["B"], "B")
    oc = _operand(res, env, spec["C"], "C")
    if oa is None or ob is None or oc is None:
        return res
    (A, Ar, rawa), (B, Br, rawb), (C, Cr, rawc) = oa, ob, oc
    if rawa or rawb:
        raise HarnessError("A and B must be multivectors")
    alpha = env.coef(spec["alpha"])
    beta = env.coef(spec["beta"])
    al, be = env.lift(alpha), env.lift(beta)
    M = alpha * A + beta * B
    Mr = alg.add(alg.scale(al, Ar), alg.scale(be, Br))
    if not env.same_mv(res, "linear-combination", M, Mr, "alpha*A + beta*B"):
        return res
    # scalar multiplication from the right must agree as well
    env.same_mv(res, "linear-combination", A * alpha + B * beta, Mr, "A*alpha + B*beta")
    ops = spec.get("ops", list(OPS))
    sides = spec.get("sides", "LR")
    if not isinstance(ops, list) or any(o not in OPS for o in ops) \
            or sides not in ("L", "R", "LR"):
        raise HarnessError("ops/sides")
    for o in ops:
        fn, refname = OPS[o]
        rfn = getattr(alg, refname)
        for side in sides:
            if o == "scalar" and rawc and side == "R":
                continue            # raw.scalar_product does not exist
            if side == "L":
                whole, pa, pb = fn(M, C), fn(A, C), fn(B, C)
                ref = rfn(Mr, Cr)
            else:
                whole, pa, pb = fn(C, M), fn(C, A), fn(C, B)
                ref = rfn(Cr, Mr)
            what = f"{o}/{side}"
            if o == "scalar":
                combo = alpha * pa + beta * pb
                w = env.lift_scalar(res, whole, what)
                k = env.lift_scalar(res, combo, what)
                res.compared(2)
                if w is None or k is None:
                    continue
                if not (w == ref):
                    res.fail("value-scalar", f"{what}: library {w!r} != reference {ref!r}"
                                             f" [metric {env.g}]")
                if not (w == k):
                    res.fail("bilinear-scalar", f"{what}: op(aA+bB, C) = {w!r} but "
                                                f"a*op(A,C)+b*op(B,C) = {k!r}")
                continue
            combo = alpha * pa + beta * pb
            w = env.decode(res, whole, what)
            k = env.decode(res, combo, what)
            if w is None or k is None:
                continue
            env.same(res, "value-" + o, w, ref, f"{what} of (aA+bB), C")
            env.same(res, "bilinear-" + o, k, w,
                     f"{what}: a*op(A,C)+b*op(B,C) (library) vs op(aA+bB, C) (reference side)")
    _mode_labels(res, env)
    res.nontrivial = bool(Mr) and bool(Cr) and _nt_mv(Mr, Cr)
    res.sample = {"metric": spec["g"], "A": str(A), "B": str(B), "C": str(C),
                  "alpha": str(alpha), "beta": str(beta), "ops": ops, "sides": sides}
    return res

# }}}


# {{{ random: associativity

def check_assocmv(spec):
    """{"g", "A", "B", "C"}"""
    res = Result()
    env = _env_for(spec)
    alg = env.alg
    ops = [_operand(res, env, spec[k], k) for k in "ABC"]
    if any(o is None for o in ops):
        return res
    (A, Ar, ra), (B, Br, rb), (C, Cr, rc) = ops
    if ra and rb:
        raise HarnessError("two adjacent raw scalars")
    if rb and rc:
        raise HarnessError("two adjacent raw scalars")
    ref = alg.gp(alg.gp(Ar, Br), Cr)
    env.same_mv(res, "assoc-left-value", (A * B) * C, ref, "(AB)C")
    env.same_mv(res, "assoc-right-value", A * (B * C), ref, "A(BC)")
    _mode_labels(res, env)
    res.nontrivial = bool(Ar) and bool(Br) and bool(Cr) and (
        _nt_mv(Ar, Br) or _nt_mv(Br, Cr))
    res.sample = {"metric": spec["g"], "A": str(A), "B": str(B), "C": str(C),
                  "obligation": "(A*B)*C == A*(B*C) == reference"}
    return res

# }}}


# {{{ random: unary operations, identities, inverse

def check_unary(spec):
    """{"g", "A", "B"}"""
    res = Result()
    env = _env_for(spec, frac_ints=True)
    alg = env.alg
    oa = _operand(res, env, spec["A"], "A")
    ob = _operand(res, env, spec["B"], "B")
    if oa is None or ob is None:
        return res
    (A, Ar, ra), (B, _, rb) = oa, ob
    if ra or rb:
        raise HarnessError("unary operands must be multivectors")
    what = env.show(Ar)
    _check_unary_values(res, env, A, Ar, what)
    # defining identities, stated with the library's own operations
    env.same_mv(res, "rev-involutive", A.rev().rev(), Ar, "rev(rev(A))")
    env.same_mv(res, "invol-involutive", A.invol().invol(), Ar, "invol(invol(A))")
    AB = env.decode(res, A * B, "A*B")
    if AB is not None:
        env.same_mv(res, "rev-antiautomorphism", B.rev() * A.rev(), alg.rev(AB),
                    "rev(B)*rev(A) vs rev(A*B)")
        env.same_mv(res, "rev-antiautomorphism", (A * B).rev(), alg.rev(AB),
                    "rev(A*B)")
        env.same_mv(res, "invol-automorphism", A.invol() * B.invol(), alg.invol(AB),
                    "invol(A)*invol(B) vs invol(A*B)")
        env.same_mv(res, "invol-automorphism", (A * B).invol(), alg.invol(AB),
                    "invol(A*B)")
    env.same_scalar(res, "norm-squared-identity",
                    (A.rev() * A).project(0).as_scalar(), alg.norm_squared(Ar),
                    "<rev(A) A>_0 via the library product")
    env.same_mv(res, "dual-identity", A * A.I.rev(), alg.dual(Ar), "A * rev(I)")
    # inverse
    hidden = len(A.data) != len(Ar)     # structurally non-zero, polynomially zero
    # int/int is a float in Python: with symbolic (int + Variable) coefficients
    # the division inside inv() is exact only if the squared norm is itself
    # symbolic (then a Quotient is built)
    nsq = alg.norm_squared(Ar)
    const_norm = env.symbolic and not (nsq.n.variables() or nsq.d.variables()) \
        and not nsq.is_zero()
    grades = alg.grades(Ar)
    if not Ar:
        res.label("inv:zero")
        _check_inverse(res, env, A, Ar, what, None)
    elif hidden or const_norm:
        res.label("inv:skipped")
    else:
        blade_like = len(Ar) == 1 or grades == {1}
        if blade_like and not alg.is_zero(alg.norm_squared(Ar)):
            res.label("inv:vector" if len(Ar) > 1 else "inv:single-blade")
            _check_inverse(res, env, A, Ar, what, "inverse")
        elif blade_like:
            res.label("inv:null")
            _check_inverse(res, env, A, Ar, what, None)
        else:
            res.label("inv:non-blade-shape")
            _check_inverse(res, env, A, Ar, what, "any")
    _mode_labels(res, env)
    res.nontrivial = any(len(bl) >= 2 for bl in Ar)
    res.sample = {"metric": spec["g"], "A": str(A), "B": str(B),
                  "operations": "rev invol dual norm_squared I inv + identities"}
    return res

# }}}


# {{{ random: equality, hash, truth value

def _bare_zero_scalar(op):
    """Operand built by the single call MultiVector(<zero>, space)."""
    try:
        terms = op["terms"]
        if len(terms) != 1 or terms[0][1] not in ("scalar", "rscalar"):
            return False
        c = _coef(terms[0][2])
        return not isinstance(c, prim.Expression) and c == 0
    except (HarnessError, KeyError, IndexError, TypeError):
        return False


def check_cmp(spec):
    """{"g", "A", "B"} numeric coefficients only."""
    res = Result()
    env = _env_for(spec)
    if env.symbolic:
        raise HarnessError("cmp is for numeric coefficients")
    alg = env.alg
    oa = _operand(res, env, spec["A"], "A")
    ob = _operand(res, env, spec["B"], "B")
    if oa is None or ob is None:
        return res
    (A, Ar, ra), (B, Br, rb) = oa, ob
    if ra or rb:
        raise HarnessError("cmp operands must be multivectors")
    same = alg.equal(Ar, Br)
    res.compared(8)
    if bool(A == B) != same:
        res.fail("eq-mismatch", f"A == B is {A == B!r}, coefficient-wise {same}: "
                                f"A = {A!r}, B = {B!r}"[:700])
    if bool(A != B) != (not same):
        res.fail("ne-mismatch", f"A != B is {A != B!r}, coefficient-wise {not same}: "
                                f"A = {A!r}, B = {B!r}"[:700])
    if same:
        res.label("cmp:coeffwise-equal")
        if hash(A) != hash(B):
            res.fail("hash-mismatch", f"coefficient-wise equal but hash differs: "
                                      f"A = {A!r}, B = {B!r}"[:700])
    for nm, X, Xr in (("A", A, Ar), ("B", B, Br)):
        if bool(X) != bool(Xr):
            res.fail("bool-mismatch", f"bool({nm}) is {bool(X)}, coefficients "
                                      f"{env.show(Xr)}: {X!r}"[:600])
        if bool(X == 0) != (not Xr):
            res.fail("eq-int0-mismatch", f"({nm} == 0) is {X == 0!r}, coefficients "
                                         f"{env.show(Xr)}: {X!r}"[:600])
        if set(Xr) <= {()}:
            s = Xr.get((), Fraction(0))
            if not (X == s):
                res.fail("eq-int0-mismatch" if s == 0 else "eq-scalar-mismatch",
                         f"({nm} == {s!r}) is False: {X!r}"[:600])
    # differences: A - B is zero exactly when coefficient-wise equal
    D = A - B
    if env.same_mv(res, "construct-mismatch", D, alg.sub(Ar, Br), "A - B"):
        if bool(D) != (not same):
            res.fail("bool-mismatch", f"bool(A - B) is {bool(D)}, coefficient-wise equal "
                                      f"{same}: {D!r}"[:600])
        if bool(D == 0) != same:
            res.fail("eq-int0-mismatch", f"((A - B) == 0) is {D == 0!r}, coefficient-wise "
                                         f"equal {same}: {D!r}"[:600])
    Z = A - A
    if bool(Z) or (Z != A - A):
        res.fail("bool-mismatch", f"A - A is truthy or unequal to itself: {Z!r}"[:400])
    if not (Z == 0):
        res.fail("eq-int0-mismatch", f"((A - A) == 0) is False: {Z!r}"[:400])
    if _bare_zero_scalar(spec["A"]) or _bare_zero_scalar(spec["B"]):
        res.label("cmp:bare-zero-scalar")
    _mode_labels(res, env)
    res.nontrivial = (bool(Ar) and bool(Br)) and (
        not same or spec["A"] != spec["B"])
    res.sample = {"metric": spec["g"], "A": repr(spec["A"]), "B": repr(spec["B"]),
                  "A value": str(A), "B value": str(B), "coefficient-wise equal": same}
    return res

# }}}


def check_cmp_symbolic(spec):
    """{"dim": n, "A": [[blade bits, coefficient spec], ...], "B": likewise}
    Equality, hashing and truth-testing of multivectors whose coefficients are pymbolic
    expressions agree with coefficient-wise comparison (pymbolic == per blade)."""
    from pbt import walk
    res = Result()
    dim = spec.get("dim")
    if not isinstance(dim, int) or isinstance(dim, bool) or not 0 <= dim <= 4:
        raise HarnessError("bad dimension")
    space = get_euclidean_space(dim)

    def mk(items):
        if not isinstance(items, list) or len({b for b, _ in items}) != len(items) or not all(
                isinstance(b, int) and not isinstance(b, bool) and 0 <= b < 2 ** dim
                for b, _ in items):
            raise HarnessError("bad blade list")
        coeffs = {b: build_expr(c) for b, c in items}
        if not all(isinstance(c, prim.Expression) for c in coeffs.values()):
            raise HarnessError("coefficients of this sub-check are expressions")
        return MultiVector(dict(coeffs), space), {
            b: repr(walk.key(c, strict=False)) for b, c in coeffs.items()}
    A, ka = mk(spec["A"])
    A2, _ = mk(spec["A"])
    B, kb = mk(spec["B"])
    same = ka == kb
    res.compared(6)
    for nm, X, Y, want in (("A == twin of A", A, A2, True), ("A == A", A, A, True),
                           ("A == B", A, B, same), ("B == A", B, A, same)):
        if bool(X == Y) is not want:
            res.fail("symbolic:eq-mismatch", f"{nm} is {X == Y!r}, coefficient-wise {want}: "
                                             f"{X!r} / {Y!r}"[:600])
        if bool(X != Y) is want:
            res.fail("symbolic:ne-mismatch", f"not ({nm}) is {X != Y!r}: {X!r} / {Y!r}"[:600])
    if hash(A) != hash(A2) or (same and hash(A) != hash(B)):
        res.fail("symbolic:hash-mismatch", f"coefficient-wise equal, hashes differ: {A!r}")
    if A2 not in {A} or {A: 1}.get(A2) != 1:
        res.fail("symbolic:equal-key-not-found", f"twin of {A!r} not found in a set / dict")
    if ka and not bool(A):
        res.fail("symbolic:bool-mismatch", f"bool({A!r}) is False")
    res.label("cmp:symbolic", "cmp:coeffwise-equal" if same else "cmp:coeffwise-different")
    res.nontrivial = bool(ka) and bool(kb)
    res.sample = {"dim": dim, "A": repr(A)[:200], "B": repr(B)[:200], "equal": same}
    return res


def gen_cmp_symbolic(r):
    dim = r.choice((1, 2, 3, 3, 4))
    names = ("x", "y", "z")

    def coeff():
        c = r.randrange(5)
        v = ["Var", r.choice(names)]
        if c == 0:
            return ["Sum", [v, ["Const", "int", r.choice((1, 2, -1))]]]
        if c == 1:
            return ["Product", [["Const", "int", r.choice((2, 3, -1))], v]]
        if c == 2:
            return ["Power", v, ["Const", "int", 2]]
        return v
    blades = r.sample(range(2 ** dim), r.randint(1, min(3, 2 ** dim)))
    A = [[b, coeff()] for b in blades]
    k = r.randrange(4)
    if k == 0:
        B = [list(t) for t in A]
    elif k == 1:
        B = [list(t) for t in A]
        B[r.randrange(len(B))][1] = coeff()
    elif k == 2:
        B = [list(t) for t in reversed(A)]
    else:
        B = [[b, coeff()] for b in r.sample(range(2 ** dim), r.randint(1, min(3, 2 ** dim)))]
    return {"dim": dim, "A": A, "B": B}


CHECKS = {"pair": check_pair, "blade": check_blade, "assoc": check_assoc,
          "bilin": check_bilin, "assocmv": check_assocmv, "unary": check_unary,
          "cmp": check_cmp, "cmp-symbolic": check_cmp_symbolic}


# {{{ known findings

def _f21(sub, spec, fail):
    """MultiVector(<zero scalar>, space) stores {0: 0}: truthy, and unequal to
    the (empty) zero multivector; `X == 0` wraps the 0 the same way."""
    if sub != "cmp":
        return False
    if fail.kind == "eq-int0-mismatch":
        return True
    if fail.kind in ("bool-mismatch", "eq-mismatch", "ne-mismatch"):
        return _bare_zero_scalar(spec.get("A")) or _bare_zero_scalar(spec.get("B"))
    return False


KNOWN = {"F21": _f21}

# }}}


# {{{ generation

def _metrics_for(ctx, d):
    allm = [list(m) for m in itertools.product(METRIC_ENTRIES, repeat=d)]
    limit = None
    if ctx.tier == "quick" and d == 4:
        limit = 32
    if d == 5:
        limit = 64
    if limit is None or limit >= len(allm):
        return allm, len(allm)
    fixed = [[1] * d, [-1] * d, [1] * (d - 1) + [-1], [0] + [1] * (d - 2) + [2]]
    rest = [m for m in allm if m not in fixed]
    rnd = random.Random(1000003 * ctx.seed + d)
    return fixed + rnd.sample(rest, limit - len(fixed)), len(allm)


COEFS = (1, -1, 2, -3, ["Frac", 3, 2], ["Frac", -2, 5])


def _judge_cells(ctx, sub, spec):
    res = ctx.judge(sub, spec)
    cells = getattr(res, "nt_cells", None)
    # a chunk spec holds many (metric, blade tuple) cells: "evaluations" counts cells
    n_cells = len(spec.get("bs", spec.get("cs", spec.get("blades", [None]))))
    ctx.evaluations += max(0, n_cells - 1)
    if cells is not None:
        # non-triviality is counted per cell (metric, blade tuple), not per chunk
        ctx.nontrivial.discard(spec_hash(sub, spec))
        for c in cells:
            ctx.nontrivial.add(spec_hash(sub, c))
    return res


def _gen_exhaustive(ctx):
    dmax = 4 if ctx.tier == "quick" else 5
    i = 0
    for d in range(dmax + 1):
        metrics, n_all = _metrics_for(ctx, d)
        blades = [list(b) for b in all_blades(d)]
        nb = len(blades)
        tag = f"d={d}, {len(metrics)} of {n_all} metrics"
        k_pair = f"ordered blade pairs ({tag}) = {len(metrics) * nb * nb} cells"
        k_blade = f"scaled basis blades ({tag}) = {len(metrics) * nb} cells"
        k_assoc = f"ordered blade triples ({tag}) = {len(metrics) * nb ** 3} cells"
        for k in (k_pair, k_blade, k_assoc):
            ctx.exhaustive.setdefault(k, 0)
        for mi, g in enumerate(metrics):
            if ctx.over_budget():
                return
            i += 1
            if ctx.mine(i):
                c = COEFS[(mi + d) % len(COEFS)]
                _judge_cells(ctx, "blade", {"g": g, "blades": blades, "c": c})
                ctx.exhaustive[k_blade] += nb
            for ai, a in enumerate(blades):
                i += 1
                if ctx.mine(i):
                    spec = {"g": g, "a": a, "bs": blades}
                    ca = COEFS[(mi + ai) % len(COEFS)]
                    cb = COEFS[(mi + 2 * ai + 1) % len(COEFS)]
                    if (mi + ai) % 3 == 0:
                        spec["ca"], spec["cb"] = ca, cb
                    _judge_cells(ctx, "pair", spec)
                    ctx.exhaustive[k_pair] += nb
            for ai, a in enumerate(blades):
                if ctx.over_budget():
                    return
                for b in blades:
                    i += 1
                    if ctx.mine(i):
                        _judge_cells(ctx, "assoc", {"g": g, "a": a, "b": b, "cs": blades})
                        ctx.exhaustive[k_assoc] += nb


# -- random generators --------------------------------------------------------
# Plain functions of a random.Random: Hypothesis only supplies one seed per
# batch of cases (its per-draw overhead was ~10 ms per case, ten times the cost
# of the comparison itself); the case specs are weighted explicitly below.

def _c(v):
    return ["Const", "int", v]


_X, _Y, _Z = ["Var", "x"], ["Var", "y"], ["Var", "z"]
SYM_COEFS = (
    _X, _Y, _Z, _X, _Y, 1, -1, 2, 3, 0, -2,
    ["Sum", [_X, _c(1)]], ["Product", [_c(2), _Y]],
    ["Sum", [_X, ["Product", [_c(-1), _Y]]]],
    ["Product", [_X, _Z]],
    ["Sum", [_X, ["Product", [_c(-1), _X]]]],      # zero, but not structurally
)


def _g_coef(r, sym):
    if sym:
        return r.choice(SYM_COEFS)
    k = r.randrange(10)
    if k <= 5:
        return r.randint(-3, 3)
    if k <= 8:
        return ["Frac", r.randint(-5, 5), r.randint(2, 4)]
    return r.choice((0, ["Frac", 0, 3], 7, -11))


def _g_metric(r, sym):
    d = r.choice((0, 1, 2, 2, 3, 3, 3, 4, 4))
    if r.randrange(6) == 0:
        return [1] * d
    ents = [1, 1, 1, -1, -1, 0, 2, -3]
    if not sym:
        ents.append(["Frac", 1, 2])
    return [r.choice(ents) for _ in range(d)]


def _g_indices(r, d, grade=None):
    if grade is None:
        grade = r.choice([g for g in (0, 1, 1, 2, 2, 2, 3, 3, 4) if g <= d])
    idx = list(range(d))
    r.shuffle(idx)
    return idx[:grade]


def _g_term(r, d, sym, first, shape=None):
    kinds = ["dict"] * 6 + ["scalar"] * 2
    if d >= 1:
        kinds += ["vec"] * 2
    if not first:
        kinds += ["rscalar"]
    kind = shape or r.choice(kinds)
    sign = r.choice("++-")
    if kind == "dict":
        ents, seen = [], set()
        for _ in range(r.choice((0, 1, 1, 2, 2, 3, 4))):
            idx = _g_indices(r, d)
            if tuple(idx) in seen:
                continue
            seen.add(tuple(idx))
            ents.append([idx, _g_coef(r, sym)])
        return [sign, "dict", ents]
    if kind == "vec":
        if r.randrange(3) == 0:
            return [sign, "ivec", [r.randint(-3, 3) for _ in range(d)]]
        return [sign, "vec", [_g_coef(r, sym) for _ in range(d)]]
    return [sign, kind, _g_coef(r, sym)]


def _g_operand(r, d, sym, max_terms=3):
    n = r.choice([k for k in (1, 1, 1, 2, 2, 3) if k <= max_terms])
    return {"terms": [_g_term(r, d, sym, first=(i == 0)) for i in range(n)]}


def gen_bilin(r):
    sym = r.randrange(3) == 0
    g = _g_metric(r, sym)
    d = len(g)
    spec = {"g": g, "A": _g_operand(r, d, sym, 2), "B": _g_operand(r, d, sym, 2),
            "alpha": _g_coef(r, sym), "beta": _g_coef(r, sym)}
    if r.randrange(8) == 0:
        spec["C"] = {"raw": _g_coef(r, sym)}
    else:
        spec["C"] = _g_operand(r, d, sym, 2)
    names = sorted(OPS)
    spec["ops"] = sorted(r.sample(names, r.randint(1, 3 if sym else 6)))
    spec["sides"] = r.choice(("L", "R", "LR"))
    if all(x == 1 for x in g) and r.randrange(2):
        spec["euclid"] = True
    return spec


def gen_assocmv(r):
    sym = r.randrange(3) == 0
    g = _g_metric(r, sym)
    d = len(g)
    ops = [_g_operand(r, d, sym, 2) for _ in range(3)]
    k = r.randrange(12)
    if k in (0, 2):             # one raw scalar at an end
        ops[k] = {"raw": _g_coef(r, sym)}
    return {"g": g, "A": ops[0], "B": ops[1], "C": ops[2]}


def _g_inv_operand(r, d, sym):
    """Shapes for which inv() has something to do."""
    shape = r.choice(("blade", "blade", "blade", "vector", "vector", "pseudo",
                      "scalar", "general", "split-blade"))
    if shape == "blade":
        return {"terms": [[r.choice("+-"), "dict",
                           [[_g_indices(r, d), _g_coef(r, sym)]]]]}
    if shape == "vector" and d >= 1:
        if r.randrange(2):
            return {"terms": [["+", "vec", [_g_coef(r, sym) for _ in range(d)]]]}
        ents = [[[i], _g_coef(r, sym)] for i in range(d) if r.randrange(2)]
        return {"terms": [["+", "dict", ents]]}
    if shape == "pseudo":
        return {"terms": [["+", "dict", [[_g_indices(r, d, d), _g_coef(r, sym)]]]]}
    if shape == "scalar":
        return {"terms": [[r.choice("+-"), "scalar", _g_coef(r, sym)]]}
    if shape == "split-blade":      # one blade spelled twice, in two index orders
        idx = _g_indices(r, d)
        idx2 = list(idx)
        r.shuffle(idx2)
        ents = [[idx, _g_coef(r, sym)]]
        if idx2 != idx:
            ents.append([idx2, _g_coef(r, sym)])
        return {"terms": [["+", "dict", ents]]}
    return _g_operand(r, d, sym, 2)


def gen_unary(r):
    sym = r.randrange(3) == 0
    g = _g_metric(r, sym)
    d = len(g)
    spec = {"g": g, "A": _g_inv_operand(r, d, sym), "B": _g_operand(r, d, sym, 2)}
    if all(x == 1 for x in g) and r.randrange(2):
        spec["euclid"] = True
    return spec


def _perm_sign(orig, perm):
    pos = {v: i for i, v in enumerate(orig)}
    return sort_with_sign([pos[v] for v in perm])[1]


def _neg_coef(c):
    if isinstance(c, int):
        return -c
    return ["Frac", -c[1], c[2]]


def _respelled(r, op, d):
    """Another spelling of the same multivector (numeric coefficients)."""
    terms = []
    for sign, kind, payload in op["terms"]:
        if kind == "dict":
            ents = []
            for idx, c in payload:
                perm = list(idx)
                r.shuffle(perm)
                if _perm_sign(idx, perm) < 0:
                    c = _neg_coef(c)
                if isinstance(c, int) and r.randrange(2):
                    c = ["Frac", 2 * c, 2]
                ents.append([perm, c])
            if len({tuple(e[0]) for e in ents}) != len(ents):
                ents = [[list(i), c] for i, c in payload]
            else:
                r.shuffle(ents)
            terms.append([sign, "dict", ents])
        elif kind in ("vec", "ivec") and r.randrange(2):
            terms.append([sign, "dict", [[[i], c] for i, c in enumerate(payload)]])
        else:
            terms.append([sign, kind, payload])
    k = r.randrange(4)
    if k == 0 and len(terms) < 5:       # add and remove the same thing
        extra = _g_term(r, d, False, first=False, shape="dict")
        terms.append(["+", extra[1], extra[2]])
        terms.append(["-", extra[1], extra[2]])
    elif k == 1 and len(terms) >= 2 and all(
            t[0] == "+" and t[1] in ("dict", "vec", "ivec") for t in terms[:2]):
        terms[0], terms[1] = terms[1], terms[0]     # commute the first two summands
    return {"terms": terms}


def gen_cmp(r):
    g = _g_metric(r, False)
    d = len(g)
    if r.randrange(20) == 0:
        A = {"terms": [[r.choice("+-"), "scalar", r.choice((0, ["Frac", 0, 2]))]]}
    else:
        A = _g_operand(r, d, False, 3)
    j = r.randrange(10)
    if j <= 4:
        B = _respelled(r, A, d)
    elif j == 5:
        B = {"terms": [["+", "dict", []]]}
    elif j == 6:
        B = {"terms": [["+", "scalar", 0]]}
    else:
        B = _g_operand(r, d, False, 3)
    if r.randrange(2):
        A, B = B, A
    return {"g": g, "A": A, "B": B}


BATCH = 25


def _run_random(ctx, sub, gen, n_cases):
    counter = [0]

    def body(seed):
        counter[0] += 1
        r = random.Random(f"{ctx.hyp_seed}/{sub}/{counter[0]}/{seed}")
        for _ in range(BATCH):
            if ctx.over_budget():
                return
            ctx.judge(sub, gen(r))

    ctx.run_given(st.integers(0, 2 ** 64 - 1), body, max(1, n_cases // BATCH))


def generate(ctx):
    phases = [
        lambda: _gen_exhaustive(ctx),
        lambda: _run_random(ctx, "bilin", gen_bilin, ctx.n(16000, 800000)),
        lambda: _run_random(ctx, "assocmv", gen_assocmv, ctx.n(10000, 500000)),
        lambda: _run_random(ctx, "unary", gen_unary, ctx.n(16000, 800000)),
        lambda: _run_random(ctx, "cmp", gen_cmp, ctx.n(16000, 800000)),
        lambda: _run_random(ctx, "cmp-symbolic", gen_cmp_symbolic, ctx.n(4000, 100000)),
    ]
    # every shard runs all phases; rotating the order only diversifies the
    # samples the runner keeps (the first non-trivial cases of each shard)
    k = ctx.shard % len(phases)
    for ph in phases[k:] + phases[:k]:
        ph()


def finalize(m, cov):
    cov["evaluations_unit"] = ("exhaustive tiers: one evaluation = one (metric, blade "
                               "tuple) cell (cells are judged in chunks); random tiers: one "
                               "generated case")
    incomplete = {}
    for name, judged in m["exhaustive"].items():
        want = int(name.rsplit("=", 1)[1].split()[0])
        if judged != want:
            incomplete[name] = judged
    if incomplete:
        cov["exhaustive"] = False
        cov["exhaustive_incomplete"] = incomplete

# }}}


MANIFEST = {
    "text": ("Exhaustive comparison of the six products, the unary operations and the "
             "inverse on every basis-blade pair / triple / scaled blade of dimensions 0-4 "
             "(5 in the thorough tier) under diagonal metrics with entries in {1,-1,0,2} "
             "against an independent list-based Clifford product, plus Hypothesis-generated "
             "multivectors with Fraction and symbolic coefficients (exact comparison through "
             "rational-function normal forms) for bilinearity, associativity, "
             "rev/invol/dual/norm_squared/inv identities and ==/hash/bool (numeric and "
             "expression coefficients). Exploration: "
             "complete only for the enumerated blade spaces named in the evidence."),
    "note": ("Trusted: pbt/ga_ref.py (sort-and-contract blade product), pbt/polynf.py, the "
             "documented bit<->basis-vector decoding of MultiVector.data. Inner product "
             "without scalar exception, dual = A*rev(I), inv only for non-null blades/vectors."),
    "technique": "exhaustive enumeration + property-based testing (Hypothesis) vs list-based reference model",
    "design_ref": "DESIGN.md section 4, C18",
}
