"""C14 - generated C code computes what the evaluator computes.

Oracle: gcc + the machine.  Every case is rendered as one C function (variable
definitions, the hoisted cse_name_list assignments in list order, printf of
the expression text), many cases are compiled in one translation unit
(pbt/cgen.py) and the printed values are compared with pbt.refsem on the
source expression.

Sub-checks
  int      one expression of the C_INT fragment (exact comparison)
  float    one expression of the C_FLOAT fragment (relative 1e-12 / absolute 1e-300)
  history  a sequence of expressions sent through ONE CCodeMapper, interleaved
           with copy() / copy_with_mapped_cses(); static checks on every mapper
           state plus one C block per mapper
"""
from __future__ import annotations

import json
import math
import re

from hypothesis import strategies as st

from pymbolic.mapper.c_code import CCodeMapper

from pbt import cgen
from pbt.refsem import RefSkip, exc_site, ref_eval
from pbt.runner import Result
from pbt.spec import retype, HarnessError, build

PROP = "C14"
LEVEL = "translation_validation"

INT_VARS = ("x", "y", "z", "w", "A", "B")
SHIFT_VARS = ("k", "m")
FLOAT_VARS = ("x", "y", "z", "w", "A")
FUNCS = {"sqrt": math.sqrt, "sin": math.sin, "cos": math.cos, "exp": math.exp,
         "fabs": math.fabs}
NARY = ("Sum", "Product", "BitwiseAnd", "BitwiseOr", "BitwiseXor", "LogicalAnd",
        "LogicalOr")
CMP = {"==": lambda a, b: a == b, "!=": lambda a, b: a != b,
       "<": lambda a, b: a < b, "<=": lambda a, b: a <= b,
       ">": lambda a, b: a > b, ">=": lambda a, b: a >= b}
INT_NODES = frozenset(NARY) | {
    "FloorDiv", "Remainder", "Power", "LeftShift", "RightShift", "BitwiseNot",
    "LogicalNot", "Comparison", "If", "CommonSubexpression", "Var", "Const"}
FLOAT_NODES = frozenset({"Sum", "Product", "Quotient", "Power", "Call",
                         "CommonSubexpression", "Var", "Const"})
LIM = 2 ** 62          # every long long intermediate stays below this
IMAX = 2 ** 31         # every int-typed intermediate stays below this
VMAX = 2 ** 20         # variable values
IDENT = re.compile(r"[A-Za-z_][A-Za-z_0-9]*")


class Out(Exception):
    """The case is outside the C-expressible fragment (skipped and counted)."""


# {{{ spec helpers

def kids(s):
    """[(position label, child spec)] of an expression spec."""
    t = s[0]
    if t in NARY:
        return [("0" if i == 0 else "n", c) for i, c in enumerate(s[1])]
    if t in ("FloorDiv", "Remainder", "Quotient"):
        return [("num", s[1]), ("den", s[2])]
    if t == "Power":
        return [("base", s[1]), ("exp", s[2])]
    if t in ("LeftShift", "RightShift"):
        return [("shiftee", s[1]), ("shift", s[2])]
    if t in ("BitwiseNot", "LogicalNot"):
        return [("arg", s[1])]
    if t == "Comparison":
        return [("l", s[1]), ("r", s[3])]
    if t == "If":
        return [("cond", s[1]), ("then", s[2]), ("else", s[3])]
    if t == "CommonSubexpression":
        return [("child", s[1])]
    if t == "Call":
        return [("arg", c) for c in s[2]]
    return []


def with_kid(s, idx, new):
    """Copy of *s* with its idx-th child (order of kids()) replaced."""
    t = s[0]
    s = list(s)
    if t in NARY:
        s[1] = list(s[1])
        s[1][idx] = new
    elif t == "Comparison":
        s[(1, 3)[idx]] = new
    elif t == "Call":
        s[2] = list(s[2])
        s[2][idx] = new
    else:
        s[1 + idx] = new
    return s


def subtrees(s):
    out = [s]
    for _, c in kids(s):
        out.extend(subtrees(c))
    return out


def size(s):
    return 1 + sum(size(c) for _, c in kids(s))


def is_op(s):
    return s[0] not in ("Var", "Const")


def validate(s, nodes, env):
    """Well-formedness of an expression spec for this check (shrinker guard)."""
    if not (isinstance(s, list) and s and isinstance(s[0], str)):
        raise HarnessError(f"not an expression spec: {s!r}")
    t = s[0]
    if t not in nodes:
        raise HarnessError(f"node {t} is outside the fragment")
    try:
        if t == "Var":
            if not isinstance(s[1], str) or s[1] not in env or len(s) != 2:
                raise HarnessError(f"variable {s[1]!r} not in the environment")
            return
        if t == "Const":
            if len(s) != 3 or s[1] not in ("int", "float") \
                    or isinstance(s[2], bool) \
                    or not isinstance(s[2], int if s[1] == "int" else (int, float)):
                raise HarnessError(f"bad constant {s!r}")
            return
        if t in NARY:
            if len(s) != 2 or not isinstance(s[1], list) or len(s[1]) < 2:
                raise HarnessError("degenerate arity has no C spelling")
        elif t == "Comparison":
            if len(s) != 4 or s[2] not in CMP:
                raise HarnessError(f"bad comparison {s!r}")
        elif t == "CommonSubexpression":
            if len(s) != 4 or not (s[2] is None or (
                    isinstance(s[2], str) and re.fullmatch(r"[A-Za-z0-9_]+", s[2]))) \
                    or s[3] != "pymbolic_eval":
                raise HarnessError(f"bad CSE wrapper {s!r}")
        elif t == "Call":
            if len(s) != 3 or s[1][0] != "Var" or s[1][1] not in FUNCS \
                    or not isinstance(s[2], list) or len(s[2]) != 1:
                raise HarnessError(f"bad call {s!r}")
        elif t == "If":
            if len(s) != 4:
                raise HarnessError("bad If")
        elif t in ("BitwiseNot", "LogicalNot"):
            if len(s) != 2:
                raise HarnessError("bad unary node")
        elif len(s) != 3:
            raise HarnessError(f"bad binary node {s!r}")
    except (IndexError, TypeError):
        raise HarnessError(f"malformed spec {s!r}") from None
    for _, c in kids(s):
        validate(c, nodes, env)

# }}}


# {{{ the C-expressible fragment: domain tests

def _join(a, b):
    return "l" if "l" in (a, b) else "i"


def dom_int(s, env):
    """(value, C type 'i'|'l') of an integer expression, evaluated eagerly
    (every sub-term, also unselected branches: hoisted CSEs are computed
    unconditionally); raises Out when C and Python could disagree."""
    v, ct, _, _ = _dom_int(s, env)
    return v, ct


def _dom_int(s, env):
    """(value, C type, chain, int chain).  Nested sums/products are printed
    flat and sums are re-ordered, so C may form any partial sum/product of
    the flattened operands: *chain* bounds them all (sum of magnitudes /
    product of magnitudes >= 1 over the flattened operands), *int chain* does
    the same for the operands whose C type is int."""
    t = s[0]
    if t == "Var":
        v = env[s[1]]
        if isinstance(v, bool) or not isinstance(v, int) or not 0 <= v <= VMAX:
            raise Out("variable value out of range")
        return v, "l", abs(v), 0
    if t == "Const":
        v = s[2]
        if s[1] != "int" or isinstance(v, bool) or not isinstance(v, int):
            raise Out("non-integer constant")
        if abs(v) >= LIM:
            raise Out("constant too large")
        ct = "i" if abs(v) < IMAX else "l"
        return v, ct, abs(v), (abs(v) if ct == "i" else 0)
    ch = [_dom_int(c, env) for _, c in kids(s)]
    sub = [c for _, c in kids(s)]
    vals = [c[0] for c in ch]
    ct = "i"
    for c in ch:
        ct = _join(ct, c[1])
    chain = ichain = None
    if t == "Sum":
        r = sum(vals)
        chain = sum(c[2] if k[0] == "Sum" else abs(c[0]) for c, k in zip(ch, sub))
        ichain = sum(c[3] if k[0] == "Sum" else (abs(c[0]) if c[1] == "i" else 0)
                     for c, k in zip(ch, sub))
    elif t == "Product" or (t == "Power" and s[2][:2] == ["Const", "int"]
                            and s[2][2] == 2):
        # x**2 is printed as the product x * x
        fs = list(zip(ch, sub)) if t == "Product" else [(ch[0], sub[0])] * 2
        r = math.prod(c[0] for c, _ in fs)
        spliced = lambda k: k[0] == "Product" or (  # noqa: E731
            k[0] == "Power" and k[2][:2] == ["Const", "int"] and k[2][2] == 2)
        chain = math.prod(c[2] if spliced(k) else max(1, abs(c[0])) for c, k in fs)
        ichain = math.prod(
            c[3] if spliced(k) else (max(1, abs(c[0])) if c[1] == "i" else 1)
            for c, k in fs)
        ichain = max(1, ichain)
        if t == "Power":
            ct = ch[0][1]
    elif t in ("FloorDiv", "Remainder"):
        a, b = vals
        if a < 0 or b <= 0:
            raise Out("division on a negative or by a non-positive value")
        r = a // b if t == "FloorDiv" else a % b
    elif t == "Power":
        if s[2][0] != "Const" or s[2][1] != "int" or s[2][2] not in (0, 1):
            raise Out("integer power with an exponent other than 0/1/2")
        if s[2][2] == 0:
            r, ct = 1, "i"
        else:
            return ch[0]
    elif t in ("LeftShift", "RightShift"):
        a, sh = vals
        if a < 0 or not 0 <= sh <= 20:
            raise Out("shift of a negative value or by more than 20")
        r = a << sh if t == "LeftShift" else a >> sh
        ct = ch[0][1]
        if ct == "i" and r >= IMAX:
            raise Out("int-typed shift result >= 2^31")
    elif t in ("BitwiseAnd", "BitwiseOr", "BitwiseXor"):
        if min(vals) < 0:
            raise Out("bitwise operator on a negative value")
        r = vals[0]
        for v in vals[1:]:
            r = r & v if t == "BitwiseAnd" else (r | v if t == "BitwiseOr" else r ^ v)
    elif t == "BitwiseNot":
        r = ~vals[0]
    elif t == "LogicalNot":
        r, ct = int(not vals[0]), "i"
    elif t == "LogicalAnd":
        r, ct = int(all(vals)), "i"
    elif t == "LogicalOr":
        r, ct = int(any(vals)), "i"
    elif t == "Comparison":
        r, ct = int(CMP[s[2]](vals[0], vals[1])), "i"
    elif t == "If":
        r = vals[1] if vals[0] else vals[2]
        ct = _join(ch[1][1], ch[2][1])
    elif t == "CommonSubexpression":
        r, ct = vals[0], "l"
    else:
        raise HarnessError(f"dom_int: {t}")
    if chain is None:
        chain = abs(r)
        ichain = abs(r) if ct == "i" else 0
    if abs(r) >= LIM or chain >= LIM:
        raise Out("intermediate >= 2^62")
    if ichain >= IMAX:
        raise Out("int-typed intermediate >= 2^31")
    return r, ct, chain, ichain


U = 2.0 ** -53
FBIG, FSMALL = 1e200, 1e-200


def dom_float(s, env):
    """(value, bound on |computed - exact| for any evaluation order, value is a
    Python int) of a float expression; raises Out for undefined, huge, tiny or
    ill-conditioned terms.  Only used to decide whether a case is judged."""
    try:
        v, e, isint = _dom_float(s, env)
    except (OverflowError, ZeroDivisionError, ValueError, TypeError) as exc:
        raise Out(f"undefined:{type(exc).__name__}") from None
    return v, e, isint


def _chk(v, e, isint=False):
    if isinstance(v, complex) or v != v or e != e:
        raise Out("not a real number")
    if abs(v) > FBIG or (v != 0 and abs(v) < FSMALL) or e > FBIG:
        raise Out("magnitude outside [1e-200, 1e200]")
    return v, e, isint


def _mul(a, b):
    (va, ea, ia), (vb, eb, ib) = a, b
    v = va * vb
    both = ia and ib
    return _chk(v, abs(va) * eb + abs(vb) * ea + ea * eb
                + (0.0 if both else 2 * U * abs(v)), both)


def _dom_float(s, env):
    t = s[0]
    if t == "Var":
        v = env[s[1]]
        if isinstance(v, bool) or not isinstance(v, (int, float)):
            raise Out("variable value is not a number")
        return _chk(float(v), 0.0)
    if t == "Const":
        if s[1] == "int":
            if abs(s[2]) > 10 ** 6:
                raise Out("integer constant too large for the float fragment")
            return s[2], 0.0, True
        return _chk(float(s[2]), 0.0)
    ch = [_dom_float(c, env) for _, c in kids(s)]
    if t == "Sum":
        v = 0
        for c in ch:
            v = v + c[0]
        isint = all(c[2] for c in ch)
        mag = sum(abs(c[0]) for c in ch)
        e = sum(c[1] for c in ch) + (0.0 if isint else len(ch) * U * mag)
        return _chk(v, e, isint)
    if t == "Product":
        acc = ch[0]
        for c in ch[1:]:
            acc = _mul(acc, c)
        return acc
    if t == "Quotient":
        (va, ea, ia), (vb, eb, ib) = ch
        if ia and ib:
            raise Out("true division of two integers has no C counterpart")
        if abs(vb) - eb <= 0 or eb > 1e-6 * abs(vb):
            raise Out("denominator too close to zero")
        q = va / vb
        return _chk(q, (ea + abs(q) * eb) / (abs(vb) - eb) + 2 * U * abs(q))
    if t == "Power":
        (vb, eb, ib), (vx, ex, ix) = ch
        if ix and ex == 0.0 and s[2][0] == "Const" and vx in (0, 1, 2):
            if vx == 0:
                # Python: x**0 is 1 (int base) or 1.0; the value is exact
                return (1, 0.0, True) if ib else (1.0, 0.0, False)
            if vx == 1:
                return ch[0]
            return _mul(ch[0], ch[0])
        if s[2][0] == "Const" and s[2][1] == "float" and vx == 2.0:
            v, e, _ = _mul(ch[0], ch[0])
            return _chk(float(v), e + 2 * U * abs(v))
        v = vb ** vx
        if isinstance(v, complex):
            raise Out("negative base with a fractional exponent")
        isint = ib and ix and isinstance(v, int)
        if eb == 0.0 and ex == 0.0:
            return _chk(v, 0.0 if isint else 4 * U * abs(v), isint)
        if vb == 0 or abs(vb) - eb <= 0 or eb > 1e-6 * abs(vb):
            raise Out("power base too close to zero")
        e = abs(v) * abs(vx) * eb / (abs(vb) - eb)
        if ex > 0.0:
            if vb <= 0 or ex > 1e-6:
                raise Out("inexact exponent on a non-positive base")
            e += abs(v) * abs(math.log(vb)) * ex
        return _chk(float(v), 2 * e + 4 * U * abs(v))
    if t == "Call":
        f = s[1][1]
        (va, ea, _), = ch
        va = float(va)
        if f == "sqrt":
            if va - ea <= 0 or ea > 1e-6 * va:
                raise Out("sqrt argument too close to zero")
            v = math.sqrt(va)
            return _chk(v, ea / (2 * math.sqrt(va - ea)) + 2 * U * v)
        if f in ("sin", "cos"):
            if abs(va) > 1e6:
                raise Out("trigonometric argument too large")
            return _chk(FUNCS[f](va), ea + 4 * U)
        if f == "exp":
            if abs(va) > 300 or ea > 1e-6:
                raise Out("exp argument out of range")
            v = math.exp(va)
            return _chk(v, 2 * v * ea + 4 * U * v)
        if f == "fabs":
            return _chk(abs(va), ea)
        raise HarnessError(f"function {f}")
    if t == "CommonSubexpression":
        return ch[0]
    raise HarnessError(f"dom_float: {t}")

# }}}

# {{{ mapper, static checks, C rendering

def make_mapper(spec):
    prefix = spec.get("prefix", "_cse")
    if not isinstance(prefix, str) or not re.fullmatch(r"[A-Za-z_][A-Za-z0-9_]*", prefix) \
            or len(prefix) < 2:
        raise HarnessError("bad cse_prefix")
    return CCodeMapper(reverse=bool(spec.get("reverse", True)), cse_prefix=prefix)


def cse_like(tok, prefix):
    """Identifiers the mapper can generate: <prefix>_<something> or <prefix><digits>."""
    return tok.startswith(prefix) and re.fullmatch(r"(_\w+|\d+)", tok[len(prefix):])


def check_list(res, lst, prefix, n_inherited=0):
    """Names pairwise distinct; CSE-named identifiers assigned earlier."""
    seen = {}
    ok = True
    for i, (name, text) in enumerate(lst):
        if not isinstance(name, str) or not IDENT.fullmatch(name):
            res.fail("cse-name-not-identifier", f"{name!r} in {lst!r}")
            ok = False
            continue
        for tok in IDENT.findall(str(text)):
            if cse_like(tok, prefix) and tok not in seen:
                res.fail("cse-use-before-assign:assignment",
                         f"assignment #{i} {name} = {text} uses {tok}, which is "
                         f"not assigned earlier in {lst!r}")
                ok = False
        if name in seen:
            where = "copy" if seen[name] < n_inherited else "same-mapper"
            res.fail("cse-name-reused:" + where,
                     f"name {name} is assigned at #{seen[name]} and again at #{i}: {lst!r}")
        else:
            seen[name] = i
    return ok


def check_result(res, text, lst, prefix):
    names = {n for n, _ in lst}
    for tok in IDENT.findall(text):
        if cse_like(tok, prefix) and tok not in names:
            res.fail("cse-use-before-assign:result",
                     f"result {text!r} uses {tok}, never assigned in {lst!r}")
            return False
    return True


def visited(s):
    """Sub-terms the mapper prints (the base of x**0 is dropped: '1')."""
    out = [s]
    if s[0] == "Power" and s[2][0] == "Const" and s[2][2] == 0:
        return out
    for _, c in kids(s):
        out.extend(visited(c))
    return out


def cse_keys(expr):
    return {json.dumps(s[1], sort_keys=True) for s in visited(expr)
            if s[0] == "CommonSubexpression"}


def ctype_of(kind):
    return "double" if kind == "float" else "long long"


def var_lines(env, kind, names):
    out = []
    for n in sorted(names):
        v = env[n]
        if kind == "float":
            out.append(f"const double {n} = {float(v).hex()};")
        else:
            out.append(f"const long long {n} = {int(v)}LL;")
    return out


def block_lines(ctype, lst, prints):
    """Assignments in list order (a repeated name is re-assigned, the static
    check has reported it), each print after the assignments that existed
    when its text was generated."""
    lines, declared, pi = ["{"], set(), 0
    for i in range(len(lst) + 1):
        while pi < len(prints) and prints[pi][0] <= i:
            lines.append(cgen.print_stmt(ctype, prints[pi][1]))
            pi += 1
        if i < len(lst):
            name, text = lst[i]
            lines.append(f"{name} = {text};" if name in declared
                         else f"{ctype} {name} = {text};")
            declared.add(name)
    lines.append("}")
    return lines


def ref_env(env, kind):
    if kind == "float":
        out = {n: float(v) for n, v in env.items()}
        out.update(FUNCS)
        return out
    return dict(env)


def var_names(expr):
    return {s[1] for s in subtrees(expr) if s[0] == "Var"} | {
        s[1][1] for s in subtrees(expr) if s[0] == "Call"}


def agree(kind, got, exp):
    if kind == "int":
        return got == int(exp)
    exp = float(exp)
    if got == exp:
        return True
    return abs(got - exp) <= max(1e-12 * abs(exp), 1e-300)


def cc_class(msg):
    for pat, name in (("redefinition", "redefinition"), ("redeclar", "redefinition"),
                      ("undeclared", "undeclared"),
                      ("invalid operands", "invalid-operands"),
                      ("expected", "syntax")):
        if pat in msg:
            return name
    return "other"


_OPS = re.compile(r"<<|>>|<=|>=|==|!=|&&|\|\||[-+*/%<>&|^?]")
_OPCLASS = {"*": "mul", "/": "mul", "%": "mul", "+": "add", "-": "add",
            "<<": "shift", ">>": "shift", "<": "rel", ">": "rel", "<=": "rel",
            ">=": "rel", "==": "eq", "!=": "eq", "&": "band", "^": "bxor",
            "|": "bor", "&&": "land", "||": "lor", "?": "cond"}


def op_classes(texts):
    return {_OPCLASS[o] for t in texts for o in _OPS.findall(t)}

# }}}


# {{{ one expression -> one unit

class Translated:
    """What the mapper produced for one expression and how it is rendered."""

    def __init__(self, spec, kind, expr, env, in_fragment=True):
        self.kind, self.expr, self.env = kind, expr, env
        self.expected = None
        if in_fragment:
            if kind == "int":
                dv, _ = dom_int(expr, env)
            else:
                dv, err, _ = dom_float(expr, env)
                if 2 * err > 0.25e-12 * abs(dv):
                    raise Out("ill-conditioned: rounding of a re-ordered evaluation "
                              "may exceed the tolerance")
        e = build(expr)
        try:
            ref = ref_eval(e, ref_env(env, kind))
        except RefSkip as exc:
            raise Out(f"refskip:{exc}") from None
        if ref[0] != "val":
            if in_fragment:
                raise HarnessError(f"fragment test passed but refsem raises {ref[1]}")
            raise Out("reference undefined")
        self.expected = ref[1]
        if in_fragment and not agree(kind, dv if kind == "int" else float(dv),
                                     self.expected):
            raise HarnessError(
                f"domain evaluator {dv!r} and refsem {self.expected!r} disagree on {expr!r}")
        self.mapper = make_mapper(spec)
        self.text = self.mapper(e)
        if not isinstance(self.text, str):
            raise Out("mapper did not return a string")
        self.lst = list(self.mapper.cse_name_list)
        self.prefix = self.mapper.cse_prefix

    def unit(self):
        ct = ctype_of(self.kind)
        names = (var_names(self.expr) & set(self.env)) - set(FUNCS)
        return cgen.Unit(ct, var_lines(self.env, self.kind, names)
                         + block_lines(ct, self.lst, [(len(self.lst), self.text)]))


def judge_expr(spec, kind, expr, env, in_fragment=True):
    """-> (status, info): good | bad | na."""
    try:
        tr = Translated(spec, kind, expr, env, in_fragment)
    except Out as exc:
        return "na", str(exc)
    except HarnessError:
        raise
    except Exception as exc:
        return "na", f"raised {type(exc).__name__}"
    oc = cgen.outcome(tr.unit())
    if oc["status"] == "compile-error":
        return "bad", oc["msg"]
    if oc["status"] != "ok" or len(oc["values"]) != 1:
        return "na", oc["status"]
    return ("good" if agree(kind, oc["values"][0], tr.expected) else "bad"), oc["values"][0]


def _units_quiet(items):
    units = []
    for spec, kind, expr, env, infrag in items:
        try:
            units.append(Translated(spec, kind, expr, env, infrag).unit())
        except Exception:
            pass
    return units


def c_int_text(s):
    """The C text of *s* has an integer type (if printed faithfully)."""
    t = s[0]
    if t == "Const":
        return s[1] == "int"
    if t == "Power" and s[2][0] == "Const" and s[2][1] in ("int", "float"):
        # map_power tests the exponent with is_zero(): 0 and 0.0, 1 and 1.0 ... alike
        if s[2][2] == 0:
            return True             # printed as 1 whatever the base is
        return s[2][2] in (1, 2) and c_int_text(s[1])
    if t in ("Sum", "Product"):
        return all(c_int_text(c) for c in s[1])
    if t == "Quotient":
        # int / int is an int in C (that is the finding), so it nests
        return c_int_text(s[1]) and c_int_text(s[2])
    return False


def s_is_const(s, v):
    return s[0] == "Const" and s[1] == "int" and s[2] == v


def flat_factors(s, path=()):
    """[(path, node)] of the factors of the flat product printed for *s*:
    nested products, x**1 and x**2 (= x * x) are spliced in."""
    if s[0] == "Product":
        out = []
        for i, c in enumerate(s[1]):
            out += flat_factors(c, (*path, i))
        return out
    if s[0] == "Power" and s_is_const(s[2], 1):
        return flat_factors(s[1], (*path, 0))
    if s[0] == "Power" and s_is_const(s[2], 2):
        return flat_factors(s[1], (*path, 0)) * 2
    return [(path, s)]


def replace_path(s, path, new):
    if not path:
        return new
    return with_kid(s, path[0], replace_path(kids(s)[path[0]][1], path[1:], new))


def operands(minimal):
    """[(position label, path, node)] of the operator operands of the smallest
    mistranslated sub-term; for products the operands of the flat C text."""
    if minimal[0] in ("Product", "Power") and not (
            minimal[0] == "Power" and minimal[2][0] == "Const"
            and minimal[2][2] not in (1, 2)):
        flat = flat_factors(minimal)
        out, seen = [], set()
        for path, node in flat:
            if path in seen or not is_op(node) or not path:
                continue
            seen.add(path)
            late = any(j >= 1 for j, (q, _) in enumerate(flat) if q == path)
            out.append(("n" if late else "0", path, node))
        return out
    return [(pos, (i,), c) for i, (pos, c) in enumerate(kids(minimal)) if is_op(c)]


def localise(spec, kind, expr, env):
    """Smallest sub-term that is mistranslated on its own, and the operand
    positions whose replacement by a plain variable repairs it."""
    cands, seen = [], set()
    for s in sorted((s for s in visited(expr) if is_op(s)), key=size):
        k = json.dumps(s)
        if k not in seen:
            seen.add(k)
            cands.append(s)
    cgen.prefetch(_units_quiet([(spec, kind, s, env, True) for s in cands]))
    minimal = expr
    for s in cands:
        if judge_expr(spec, kind, s, env)[0] == "bad":
            minimal = s
            break
    if kind == "float" and minimal[0] == "Quotient" and c_int_text(minimal[1]) \
            and c_int_text(minimal[2]):
        return minimal, "Quotient(int-typed operands)"
    ch = operands(minimal)
    probes = []
    for i, (pos, path, c) in enumerate(ch):
        try:
            cv = dom_int(c, env)[0] if kind == "int" else float(dom_float(c, env)[0])
        except Out:
            continue
        name = f"q{i}"
        env2 = dict(env)
        env2[name] = cv
        probes.append((pos, c[0], replace_path(minimal, path, ["Var", name]), env2))
    cgen.prefetch(_units_quiet([(spec, kind, v, e2, False) for _, _, v, e2 in probes]))
    involved = [f"{pos}:{t}" for pos, t, v, e2 in probes
                if judge_expr(spec, kind, v, e2, in_fragment=False)[0] == "good"]
    if not involved:
        involved = [f"{pos}:{c[0]}" for pos, _, c in ch]
    return minimal, f"{minimal[0]}({','.join(sorted(set(involved)))})"


def check_single(kind):
    nodes = INT_NODES if kind == "int" else FLOAT_NODES

    def check(spec):
        res = Result()
        if not isinstance(spec, dict) or "expr" not in spec \
                or not isinstance(spec.get("env"), dict):
            raise HarnessError("spec must be {expr, env}")
        expr, env = spec["expr"], spec["env"]
        validate(expr, nodes, env)
        res.label(kind)
        try:
            tr = Translated(spec, kind, expr, env)
        except Out as exc:
            return res.skip("out-of-fragment:" + str(exc).split(":")[0][:60])
        except HarnessError:
            raise
        except Exception as exc:
            return res.fail("mapper-raised:" + exc_site(exc),
                            f"CCodeMapper on {build(expr)!r}: {type(exc).__name__}: {exc}")
        texts = [tr.text] + [str(t) for _, t in tr.lst]
        # -- static obligations on the mapper state ---------------------------
        static_ok = check_list(res, tr.lst, tr.prefix)
        static_ok = check_result(res, tr.text, tr.lst, tr.prefix) and static_ok
        keys = cse_keys(expr)
        if len(tr.lst) > len(keys):
            res.fail("cse-assigned-twice:same-call",
                     f"{len(keys)} distinct wrapped sub-terms, {len(tr.lst)} "
                     f"assignments {tr.lst!r} for {build(expr)!r}")
        res.compared(2)
        # -- labels -----------------------------------------------------------
        if tr.lst:
            res.label("cse-hoisted")
            uses = IDENT.findall(" ".join(texts))
            if any(uses.count(n) >= 2 for n, _ in tr.lst):
                res.label("cse-reused")
            if prefix_collision([expr]):
                res.label("prefix-collision")
        if " - " in " ".join(texts):
            res.label("sub-rewrite")
        classes = op_classes(texts)
        for c in classes:
            res.label("op:" + c)
        res.nontrivial = len(classes) >= 2 or "cse-reused" in res.labels
        res.sample = {"expr": repr(build(expr))[:300], "env": {
            k: v for k, v in env.items() if k in var_names(expr)},
            "c": [f"{n} = {t};" for n, t in tr.lst] + [tr.text],
            "expected": repr(tr.expected)}
        if not static_ok:
            return res          # would not compile; already reported
        # -- dynamic: gcc -----------------------------------------------------
        oc = cgen.outcome(tr.unit())
        if oc["status"] == "compile-error":
            return res.fail("c-compile-error:" + cc_class(oc["msg"]),
                            f"gcc rejects {texts!r} generated for {build(expr)!r}: "
                            f"{oc['msg']}")
        if oc["status"] != "ok":
            res.label("c-undefined:" + oc["status"])
            return res.skip("c-undefined-behaviour:" + oc["status"])
        res.compared(1)
        got = oc["values"][0]
        if not agree(kind, got, tr.expected):
            minimal, sig = localise(spec, kind, expr, env)
            try:
                mtxt = Translated(spec, kind, minimal, env).text
            except Exception:
                mtxt = "?"
            res.fail("value-mismatch:" + sig,
                     f"{build(expr)!r} at {res.sample['env']}: C text {res.sample['c']!r} "
                     f"computes {got!r}, reference {tr.expected!r}; smallest "
                     f"mistranslated sub-term {build(minimal)!r} -> {mtxt!r}")
        return res
    return check

# }}}

# {{{ histories

def prefix_collision(exprs):
    by = {}
    for e in exprs:
        for s in subtrees(e):
            if s[0] == "CommonSubexpression":
                by.setdefault(s[2], set()).add(json.dumps(s[1], sort_keys=True))
    # the same prefix on different sub-terms, or "u" next to "u_2"/"u_2_2"
    # (the second "u" asks for the name the "u_2" wrapper wants)
    return any(len(v) >= 2 for v in by.values()) or (
        "u" in by and ("u_2" in by or "u_2_2" in by))


class MState:
    def __init__(self, mapper, parent=None, n_extra=0):
        self.mapper = mapper
        self.is_copy = parent is not None
        self.inherited = set(parent.seen) if parent else set()
        self.seen = set(self.inherited)     # wrapped sub-terms mapped in this lineage
        self.own = set()                    # ... by earlier calls on this object
        self.n_inherited = len(mapper.cse_name_list)   # incl. user-given pairs
        self.n_extra = n_extra + (parent.n_extra if parent else 0)
        self.prints = []            # (assignments before, text, expected, expr)
        self.static_ok = True


def replay_history(spec, res):
    """Runs the operations; returns (kind, env, states) or None after a skip."""
    kind = spec.get("kind", "int")
    if kind not in ("int", "float") or not isinstance(spec.get("env"), dict) \
            or not isinstance(spec.get("ops"), list):
        raise HarnessError("history spec must be {kind, env, ops}")
    env = spec["env"]
    nodes = INT_NODES if kind == "int" else FLOAT_NODES
    states = [MState(make_mapper(spec))]
    renv = ref_env(env, kind)
    exprs = []
    n_maps = 0
    for op in spec["ops"]:
        if not isinstance(op, list) or not op or op[0] not in ("map", "copy", "copy_mapped") \
                or len(op) < 2 or isinstance(op[1], bool) or not isinstance(op[1], int):
            raise HarnessError(f"bad operation {op!r}")
        stt = states[op[1] % len(states)]
        m = stt.mapper
        if op[0] == "copy":
            try:
                states.append(MState(m.copy(), stt))
            except Exception as exc:
                res.fail("copy-raised:" + exc_site(exc), f"{type(exc).__name__}: {exc}")
                return None
            continue
        if op[0] == "copy_mapped":
            if len(op) != 3 or not isinstance(op[2], list):
                raise HarnessError(f"bad operation {op!r}")
            have = {n for n, _ in m.cse_name_list}
            pairs = []
            for pr in op[2]:
                if not (isinstance(pr, list) and len(pr) == 2 and isinstance(pr[0], str)
                        and IDENT.fullmatch(pr[0])):
                    raise HarnessError(f"bad mapped pair {pr!r}")
                if isinstance(pr[1], list) and pr[1] and pr[1][0] == "Ref":
                    # a value written in terms of a name the parent has already
                    # assigned (what a caller mapping the parent's CSEs produces)
                    if len(pr[1]) != 3 or not all(
                            isinstance(q, int) and not isinstance(q, bool) for q in pr[1][1:]) \
                            or not 1 <= pr[1][2] <= 9:
                        raise HarnessError(f"bad mapped pair {pr!r}")
                    if pr[0] in have or not m.cse_name_list:
                        continue
                    have.add(pr[0])
                    res.label("hist:mapped-value-uses-inherited-name")
                    tgt = m.cse_name_list[pr[1][1] % len(m.cse_name_list)][0]
                    pairs.append((pr[0], f"{tgt} + {pr[1][2]}"))
                    continue
                validate(pr[1], {"Var", "Const"}, env)
                if pr[0] in have or (pr[1][0] == "Const" and pr[1][2] < 0):
                    continue        # the caller may not hand over a name twice
                have.add(pr[0])
                v = pr[1][1] if pr[1][0] == "Var" else pr[1][2]
                pairs.append((pr[0], str(v)))
            try:
                states.append(MState(m.copy_with_mapped_cses(pairs), stt, len(pairs)))
            except Exception as exc:
                res.fail("copy-raised:" + exc_site(exc), f"{type(exc).__name__}: {exc}")
                return None
            # the copy's list as it stands: every name assigned before it is used
            new = states[-1]
            res.compared()
            new.static_ok = check_list(res, list(new.mapper.cse_name_list), m.cse_prefix,
                                       new.n_inherited) and new.static_ok
            continue
        # -- map ---------------------------------------------------------------
        if len(op) != 3:
            raise HarnessError(f"bad operation {op!r}")
        expr = op[2]
        validate(expr, nodes, env)
        try:
            if kind == "int":
                dom_int(expr, env)
            else:
                dv, err, _ = dom_float(expr, env)
                if 2 * err > 0.25e-12 * abs(dv):
                    raise Out("ill-conditioned")
        except Out as exc:
            res.skip("out-of-fragment:" + str(exc).split(":")[0][:60])
            return None
        e = build(expr)
        try:
            ref = ref_eval(e, renv)
        except RefSkip:
            res.skip("out-of-fragment:refskip")
            return None
        if ref[0] != "val":
            raise HarnessError(f"fragment test passed but refsem raises {ref[1]}")
        before = len(m.cse_name_list)
        try:
            text = m(e)
        except Exception as exc:
            res.fail("mapper-raised:" + exc_site(exc),
                     f"call #{n_maps} on {e!r}: {type(exc).__name__}: {exc}")
            return None
        n_maps += 1
        exprs.append(expr)
        lst = list(m.cse_name_list)
        keys = cse_keys(expr)
        new_keys = keys - stt.seen
        if len(lst) - before > len(new_keys):
            if stt.is_copy and keys & stt.inherited:
                ctx = "copy"
            elif keys & stt.own:
                ctx = "across-calls"
            else:
                ctx = "same-call"
            res.fail("cse-assigned-twice:" + ctx,
                     f"call #{n_maps - 1} on {e!r} wraps {len(new_keys)} new sub-term(s) "
                     f"but adds {len(lst) - before} assignment(s): {lst!r}")
        if keys & stt.own:
            res.label("hist:reuse-across-calls")
        if stt.is_copy:
            res.label("hist:map-on-copy")
            if keys & stt.inherited:
                res.label("hist:copy-reuses-inherited")
        stt.seen |= keys
        stt.own |= keys
        ok = check_list(res, lst, m.cse_prefix, stt.n_inherited if stt.is_copy else 0)
        ok = check_result(res, text, lst, m.cse_prefix) and ok
        res.compared(2)
        stt.static_ok = stt.static_ok and ok
        stt.prints.append((len(lst), text, ref[1], expr))
    if prefix_collision(exprs):
        res.label("hist:repeated-prefix")
    if n_maps == 0:
        res.skip("no-map-operation")
        return None
    return kind, env, states, exprs


def history_unit(kind, env, states, exprs):
    ct = ctype_of(kind)
    names = set()
    for e in exprs:
        names |= var_names(e)
    for stt in states:      # user-given pairs may name further variables
        for _, t in stt.mapper.cse_name_list[:stt.n_inherited]:
            names |= set(IDENT.findall(str(t)))
    names = (names & set(env)) - set(FUNCS)
    lines = var_lines(env, kind, names)
    expected = []
    for i, stt in enumerate(states):
        if not stt.static_ok or not stt.prints:
            continue
        lines += block_lines(ct, list(stt.mapper.cse_name_list),
                             [(k, t) for k, t, _, _ in stt.prints])
        expected += [(i, stt.is_copy, t, x, ex) for _, t, x, ex in stt.prints]
    return cgen.Unit(ct, lines), expected


def check_history(spec):
    res = Result()
    res.label("history")
    out = replay_history(spec, res)
    if out is None:
        return res
    kind, env, states, exprs = out
    res.nontrivial = "hist:map-on-copy" in res.labels or "hist:repeated-prefix" in res.labels
    res.sample = {"env": env, "mappers": [
        {"copy": stt.is_copy,
         "assignments": [f"{n} = {t};" for n, t in stt.mapper.cse_name_list],
         "results": [t for _, t, _, _ in stt.prints]} for stt in states]}
    unit, expected = history_unit(kind, env, states, exprs)
    if not expected:
        return res
    oc = cgen.outcome(unit)
    if oc["status"] == "compile-error":
        return res.fail("c-compile-error:" + cc_class(oc["msg"]) + ":history",
                        f"gcc: {oc['msg']}; program: {unit.lines!r}")
    if oc["status"] != "ok":
        res.label("c-undefined:" + oc["status"])
        return res.skip("c-undefined-behaviour:" + oc["status"])
    if len(oc["values"]) != len(expected):
        raise HarnessError("history program printed a wrong number of values")
    for got, (i, is_copy, text, exp, expr) in zip(oc["values"], expected):
        res.compared(1)
        if not agree(kind, got, exp):
            # mistranslated on its own (fresh mapper), or only in this history?
            if judge_expr(spec, kind, expr, env)[0] == "bad":
                where = "expr:" + localise(spec, kind, expr, env)[1]
            else:
                where = "state:" + ("copy" if is_copy else "root")
            res.fail("hist-value-mismatch:" + where,
                     f"mapper #{i}: {text!r} with assignments "
                     f"{states[i].mapper.cse_name_list!r} computes {got!r}, "
                     f"reference {exp!r} (env {env}) for {build(expr)!r}")
    return res


def _unique_labels(fn):
    def run(spec):
        res = fn(spec)
        res.labels = list(dict.fromkeys(res.labels))
        return res
    return run


CHECKS = {"int": _unique_labels(check_single("int")),
          "float": _unique_labels(check_single("float")),
          "history": _unique_labels(check_history)}


def units_for(sub, spec):
    """The unit(s) the check of *spec* will ask for (batch compilation)."""
    try:
        if sub in ("int", "float"):
            return [Translated(spec, sub, spec["expr"], spec["env"]).unit()]
        res = Result()
        out = replay_history(spec, res)
        if out is None:
            return []
        unit, expected = history_unit(*out)
        return [unit] if expected else []
    except Exception:
        return []

# }}}

# {{{ generators (value-directed: the environment is drawn first and every
# sub-term is built together with its value, so the fragment's side conditions
# - non-negative operands, positive divisors, bounded intermediates - hold by
# construction; the check re-derives them independently with dom_int/dom_float)

PREFIXES = ("u", "u", "u", "u_2", "u_2_2", None, None, "v", "tmp")
SOFT = 2 ** 44
CMPOPS = tuple(CMP)
SCOPE = "pymbolic_eval"


def C(v):
    return ["Const", "int", v]


def neg(s):
    return ["Product", [C(-1), s]]


class IntGen:
    def __init__(self, draw, env, atoms=(), atom_p=0):
        self.draw = draw
        self.env = env
        self.atoms = list(atoms)      # [(spec, value)] re-usable wrappers
        self.atom_p = atom_p          # chance (in tenths) of an atom as a leaf

    def i(self, lo, hi):
        return self.draw(st.integers(lo, hi))

    def pick(self, seq):
        return self.draw(st.sampled_from(seq))

    def leaf(self):
        if self.atoms and self.i(0, 9) < self.atom_p:
            return self.pick(self.atoms)
        c = self.i(0, 9)
        if c <= 5:
            n = self.pick(INT_VARS)
            return ["Var", n], self.env[n]
        if c <= 7:
            v = self.pick((0, 1, 2, 3, 5, 7, 10, 16, 100, 255, 1000))
        elif c == 8:
            v = self.i(0, VMAX)
        else:
            v = self.pick((65535, VMAX, 2 ** 31 - 1, 2 ** 31, 2 ** 40 + 3, 46341))
        return C(v), v

    def tame(self, s, v, limit=SOFT):
        """A non-negative term of bounded size."""
        while v > limit:
            c = self.i(0, 2)
            if c == 0:
                mod = self.pick((7, 1000, 65536, 1000003))
                s, v = ["Remainder", s, C(mod)], v % mod
            elif c == 1:
                sh = self.pick((10, 20))
                s, v = ["RightShift", s, C(sh)], v >> sh
            else:
                mask = self.pick((255, 65535))
                s, v = ["BitwiseAnd", [s, C(mask)]], v & mask
        return s, v

    def shift(self):
        c = self.i(0, 5)
        if c <= 2:
            v = self.pick((0, 1, 2, 3, 8, 13, 20))
            return C(v), v
        if c <= 4:
            n = self.pick(SHIFT_VARS)
            return ["Var", n], self.env[n]
        s, v = self.leaf()
        if v < 0:
            return C(1), 1
        return ["Remainder", s, C(21)], v % 21

    def cse(self, s, v):
        w = ["CommonSubexpression", s, self.pick(PREFIXES), SCOPE]
        if self.i(0, 2) == 0:
            self.atoms.append((w, v))     # may recur later in the same tree
        return w, v

    def minus_terms(self, depth, sub):
        """children of a Sum with some terms written as -1*t."""
        kids_, total = [], 0
        for _ in range(self.i(1, 2)):
            s, v = sub(depth - 1)
            kids_.append(s)
            total += v
        for _ in range(self.i(1, 2)):
            c = self.i(0, 5)
            s, v = sub(depth - 1)
            if c == 0:
                s2, v2 = self.nn(depth - 2)
                s2, v2 = self.tame(s2, v2, 2 ** 20)
                if abs(v) <= 2 ** 30:
                    kids_.append(["Product", [C(-1), s, s2]])
                    total -= v * v2
                    continue
            if c == 1 and s[0] != "Const":
                kids_.append(["Product", [s, C(-1)]])     # not recognised as a minus
            else:
                kids_.append(neg(s))
            total -= v
        kids_ = list(self.draw(st.permutations(kids_)))
        return kids_, total

    def nn(self, depth):
        """(spec, value) with value >= 0."""
        if depth <= 0 or self.i(0, 6 + depth) == 0:
            s, v = self.leaf()
            if v < 0:
                return C(3), 3
            return s, v
        op = self.pick(("Sum", "Sub", "Sub", "Product", "Product", "FloorDiv",
                        "Remainder", "Remainder", "LeftShift", "RightShift",
                        "BitwiseAnd", "BitwiseOr", "BitwiseXor", "Bool", "Bool", "If",
                        "Power", "CSE", "CSE"))
        sub = lambda: self.nn(depth - 1)  # noqa: E731
        if op == "Sum":
            ch = [sub() for _ in range(self.i(2, 4))]
            return self.tame(["Sum", [s for s, _ in ch]], sum(v for _, v in ch))
        if op == "Sub":
            ks, total = self.minus_terms(
                depth, self.any if self.i(0, 3) == 0 else self.nn)
            if total < 0:
                c = -total + self.pick((0, 0, 1, 5))
                ks.insert(self.i(0, len(ks)), C(c))
                total += c
            return self.tame(["Sum", ks], total)
        if op == "Product":
            ch = [self.tame(*sub(), limit=2 ** 40) for _ in range(self.i(2, 3))]
            while math.prod(max(1, v) for _, v in ch) > SOFT:
                j = max(range(len(ch)), key=lambda j: ch[j][1])
                ch[j] = self.tame(*ch[j], limit=max(1, ch[j][1] >> 11))
            return ["Product", [s for s, _ in ch]], math.prod(v for _, v in ch)
        if op in ("FloorDiv", "Remainder"):
            (a, va), (b, vb) = sub(), sub()
            if vb == 0:
                vb = self.pick((1, 3, 7))
                b = ["Sum", [b, C(vb)]]
            return [op, a, b], (va // vb if op == "FloorDiv" else va % vb)
        if op in ("LeftShift", "RightShift"):
            (a, va), (sh, vs) = sub(), self.shift()
            if op == "LeftShift":
                a, va = self.tame(a, va, SOFT >> vs)
                return [op, a, sh], va << vs
            return [op, a, sh], va >> vs
        if op in ("BitwiseAnd", "BitwiseOr", "BitwiseXor"):
            ch = [sub() if self.i(0, 4) else self.boolean(depth - 1)
                  for _ in range(self.i(2, 3))]
            v = ch[0][1]
            for _, w in ch[1:]:
                v = v & w if op == "BitwiseAnd" else (v | w if op == "BitwiseOr" else v ^ w)
            return [op, [s for s, _ in ch]], v
        if op == "Bool":
            return self.boolean(depth - 1)
        if op == "If":
            c, vc = self.boolean(depth - 1) if self.i(0, 3) else self.any(depth - 1)
            (a, va), (b, vb) = sub(), sub()
            if self.i(0, 3) == 0:
                # a conditional as the condition (and as a branch) of a conditional
                (c1, vc1), (c2, vc2) = self.boolean(depth - 2), self.boolean(depth - 2)
                c, vc = ["If", c, c1, c2], (vc1 if vc else vc2)
                if self.i(0, 1):
                    a, va = ["If", c2, a, b], (va if vc2 else vb)
            return ["If", c, a, b], (va if vc else vb)
        if op == "Power":
            ex = self.pick((0, 1, 1, 2, 2))
            b, vb = self.any(depth - 1) if self.i(0, 2) == 0 else sub()
            if ex == 1 and vb < 0:
                ex = 2
            if ex == 2 and abs(vb) > 2 ** 22:
                b, vb = self.tame(*sub(), limit=2 ** 22)
            return ["Power", b, C(ex)], vb ** ex
        s, v = sub()
        if not is_op(s):
            s, v = ["Sum", [s, C(1)]], v + 1
        return self.cse(s, v)

    def any(self, depth):
        """(spec, value) of either sign; only placed where C and Python agree
        on negative numbers."""
        c = self.i(0, 9)
        if depth <= 0 or c <= 3:
            return self.nn(depth)
        if c <= 5:
            ks, total = self.minus_terms(depth, self.nn)
            return ["Sum", ks], total
        if c == 6:
            v = self.pick((-1, -2, -3, -100, -65536))
            return C(v), v
        if c == 7:
            s, v = self.nn(depth - 1)
            return ["BitwiseNot", s], ~v
        if c == 8:
            (a, va), (b, vb) = self.any(depth - 1), self.nn(depth - 1)
            a, va = (a, va) if abs(va) <= 2 ** 30 else (C(-7), -7)
            b, vb = self.tame(b, vb, 2 ** 13)
            ks = [a, b]
            if self.i(0, 1):
                ks.reverse()
            return ["Product", ks], va * vb
        cnd, vc = self.boolean(depth - 1)
        (a, va), (b, vb) = self.any(depth - 1), self.any(depth - 1)
        if self.i(0, 2) == 0:
            s, v = ["If", cnd, a, b], (va if vc else vb)
            return self.cse(s, v) if self.i(0, 2) == 0 else (s, v)
        return ["If", cnd, a, b], (va if vc else vb)

    def boolean(self, depth):
        c = self.i(0, 9)
        if depth <= 0 or c <= 4:
            a, va = self.any(max(depth, 0))
            op = self.pick(CMPOPS)
            d = self.i(0, 3)
            if d == 0 and abs(va) < 2 ** 40:    # decided by one unit: == and <= matter
                vb = va + self.pick((-1, 0, 0, 1))
                b = C(vb)
            else:
                b, vb = self.any(max(depth - 1, 0))
            if self.i(0, 1):
                (a, va), (b, vb) = (b, vb), (a, va)
            return ["Comparison", a, op, b], int(CMP[op](va, vb))
        if c <= 6:
            n = self.pick(("LogicalAnd", "LogicalOr"))
            ch = [self.boolean(depth - 1) if self.i(0, 2) else self.any(depth - 1)
                  for _ in range(self.i(2, 3))]
            vals = [v for _, v in ch]
            return [n, [s for s, _ in ch]], int(all(vals) if n == "LogicalAnd" else any(vals))
        if c == 7:
            s, v = self.boolean(depth - 1) if self.i(0, 1) else self.any(depth - 1)
            return ["LogicalNot", s], int(not v)
        if c == 8:
            (cn, vc), (a, va), (b, vb) = (self.boolean(depth - 1) for _ in range(3))
            return ["If", cn, a, b], (va if vc else vb)
        s, v = self.boolean(depth - 1)
        return (self.cse(s, v) if is_op(s) else (s, v))


@st.composite
def int_env(draw):
    env = {}
    for n in INT_VARS:
        env[n] = draw(st.one_of(
            st.sampled_from((0, 1, 2, 3, 5, 7, 8, 15, 16, 17, 20, 100)),
            st.integers(0, VMAX),
            st.sampled_from((VMAX, VMAX - 1, 65536, 46341))))
    for n in SHIFT_VARS:
        env[n] = draw(st.integers(0, 20))
    return env


def mapper_opts(draw, spec):
    c = draw(st.integers(0, 9))
    if c == 0:
        spec["reverse"] = False
    if c == 1:
        spec["prefix"] = "cs"
    return spec


@st.composite
def int_case(draw):
    env = draw(int_env())
    g = IntGen(draw, env, atom_p=2)
    depth = draw(st.integers(1, 4))
    c = draw(st.integers(0, 5))
    s, _ = g.nn(depth) if c <= 2 else (g.any(depth) if c <= 4 else g.boolean(depth))
    used = {t[1] for t in subtrees(s) if t[0] == "Var"}
    return mapper_opts(draw, {"expr": s, "env": {k: v for k, v in env.items() if k in used}})

# }}}

# {{{ float generator

FCONSTS = (0.5, 1.5, 2.0, 0.25, 3.0, 0.1, 2.5, -1.5, -0.75, 1e-05, 123456.789,
           1000.0, 1.0, -1.0, 0.3333333333333333, 7.25)


def F(v):
    return ["Const", "float", v]


def call(f, s):
    return ["Call", ["Var", f], [s]]


class FloatGen:
    def __init__(self, draw, env, atoms=(), atom_p=0):
        self.draw = draw
        self.env = env
        self.atoms = list(atoms)
        self.atom_p = atom_p

    def i(self, lo, hi):
        return self.draw(st.integers(lo, hi))

    def pick(self, seq):
        return self.draw(st.sampled_from(seq))

    def leaf(self):
        if self.atoms and self.i(0, 9) < self.atom_p:
            return self.pick(self.atoms)
        c = self.i(0, 9)
        if c <= 5:
            n = self.pick(FLOAT_VARS)
            return ["Var", n], self.env[n]
        if c <= 7:
            v = self.pick(FCONSTS)
            return F(v), v
        if c == 8:
            v = self.draw(st.floats(-100, 100, allow_nan=False, allow_subnormal=False))
            if v == 0 or abs(v) < 1e-6:
                v = 0.75
            return F(v), v
        v = self.pick((1, 2, 3, 5, 10, -2))
        return C(v), v

    def ok(self, s):
        """value if the term is defined, moderate and well-conditioned"""
        try:
            v, e, _ = dom_float(s, self.env)
        except Out:
            return None
        if 2 * e > 0.2e-12 * abs(v) or abs(v) > 1e12 or (v != 0 and abs(v) < 1e-9):
            return None
        return v

    def positive(self, s, v, floor=1e-3):
        if v < floor:
            return ["Sum", [call("fabs", s), F(self.pick((0.5, 1.0, 2.0)))]]
        return s

    def gen(self, depth):
        if depth <= 0 or self.i(0, 6 + depth) == 0:
            return self.leaf()
        for _ in range(2):
            s = self.build(depth)
            v = self.ok(s)
            if v is not None:
                return s, v
        return self.leaf()

    def intish(self, depth):
        one = ["Power", self.gen(depth - 1)[0], C(0)]
        c = self.i(0, 3)
        if c == 0:
            return one
        if c == 1:
            return ["Sum", [one, C(self.pick((1, 2, 3)))]]
        if c == 2:
            return ["Product", [C(self.pick((2, 3, 5))), one]]
        return ["Sum", [one, ["Power", self.gen(depth - 1)[0], C(0)]]]

    def build(self, depth):
        sub = lambda: self.gen(depth - 1)  # noqa: E731
        op = self.pick(("Sum", "Sub", "Sub", "Product", "Product", "Quotient",
                        "Quotient", "Power", "Power", "Call", "Call", "CSE", "CSE"))
        if op == "Sum":
            return ["Sum", [sub()[0] for _ in range(self.i(2, 4))]]
        if op == "Sub":
            if self.i(0, 4) == 0:
                # nothing but subtracted terms, each starting with a negative literal:
                # the signs of the sum and of the literals must not run together
                ks = []
                for _ in range(self.i(2, 3)):
                    m1 = C(-1) if self.i(0, 2) else F(-1.0)
                    neg = self.pick((C(-2), C(-3), F(-2.5), F(-0.5)))
                    ks.append(["Product", [m1, neg, sub()[0]]])
                return ["Sum", ks]
            ks = [sub()[0] for _ in range(self.i(1, 2))]
            for _ in range(self.i(1, 2)):
                c = self.i(0, 5)
                m1 = C(-1) if self.i(0, 2) else F(-1.0)
                if c == 0:
                    ks.append(["Product", [m1, sub()[0], sub()[0]]])
                elif c == 1:
                    ks.append(["Product", [sub()[0], m1]])
                else:
                    ks.append(["Product", [m1, sub()[0]]])
            return ["Sum", list(self.draw(st.permutations(ks)))]
        if op == "Product":
            return ["Product", [sub()[0] for _ in range(self.i(2, 3))]]
        if op == "Quotient":
            if self.i(0, 7) == 0:
                # operands whose C text is integer-typed although the source
                # value is a float (x**0 is printed as 1)
                return ["Quotient", self.intish(depth), self.intish(depth)]
            (a, _), (b, vb) = sub(), sub()
            if abs(vb) < 1e-3:
                b = self.positive(b, -1.0)
            return ["Quotient", a, b]
        if op == "Power":
            b, vb = sub()
            c = self.i(0, 5)
            if c <= 2:
                ex = self.pick((-2, -1, -1, 0, 1, 1, 2, 2, 3))
                if ex < 0 and self.i(0, 1) == 0:
                    # a product or quotient as the base of a negative power
                    b2 = [self.pick(("Product", "Product", "Quotient")), b, sub()[0]]
                    b2 = ["Product", b2[1:]] if b2[0] == "Product" else b2
                    v2 = self.ok(b2)
                    if v2 is not None and abs(v2) >= 1e-3:
                        return ["Power", b2, C(ex) if self.i(0, 1) else F(float(ex))]
                if ex < 0 and abs(vb) < 1e-3:
                    b = self.positive(b, -1.0)
                return ["Power", b, C(ex)]
            if c <= 4:
                ex = F(self.pick((0.5, 1.5, 2.0, -0.5, 2.5, 0.3333333333333333)))
            else:
                ex, vx = self.gen(depth - 2)
                if abs(vx) > 6:
                    ex = call("sin", ex)
            return ["Power", self.positive(b, vb), ex]
        if op == "Call":
            f = self.pick(tuple(FUNCS))
            a, va = sub()
            if f == "sqrt":
                a = self.positive(a, va)
            elif f == "exp" and abs(va) > 20:
                a = call("sin", a)
            elif f in ("sin", "cos") and abs(va) > 1e3:
                a = call("sqrt", self.positive(a, va))
            return call(f, a)
        s, v = sub()
        if not is_op(s):
            s = ["Sum", [s, F(1.0)]]
        w = ["CommonSubexpression", s, self.pick(PREFIXES), SCOPE]
        v = self.ok(w)
        if v is not None and self.i(0, 2) == 0:
            self.atoms.append((w, v))
        return w


@st.composite
def float_env(draw):
    env = {}
    for n in FLOAT_VARS:
        c = draw(st.integers(0, 9))
        if c <= 2:
            v = draw(st.sampled_from((0.5, 1.5, 2.0, -0.75, 3.25, 1.0, -2.0, 10.0)))
        elif c <= 7:
            v = draw(st.floats(0.1, 10.0, allow_nan=False)) * draw(st.sampled_from((1, 1, -1)))
        elif c == 8:
            v = draw(st.floats(100.0, 1e6, allow_nan=False))
        else:
            v = draw(st.floats(1e-4, 1e-2, allow_nan=False))
        env[n] = v
    return env


@st.composite
def float_case(draw):
    env = draw(float_env())
    g = FloatGen(draw, env, atom_p=2)
    s, _ = g.gen(draw(st.integers(2, 5)))
    if not is_op(s):
        s = ["Sum", [s, ["Var", "x"]]]
    if draw(st.integers(0, 3)) == 0:
        # an int constant and the == float constant in one expression, the float one
        # where it decides between integer and floating division
        k = draw(st.sampled_from((2, 3, 4, 5, 10)))
        j = C(draw(st.sampled_from((1, 3, 7))))
        v = ["Var", draw(st.sampled_from(FLOAT_VARS))]
        ictx = draw(st.sampled_from((["Product", [v, C(k)]], ["Quotient", v, C(k)],
                                     ["Sum", [v, C(k)]], ["Product", [C(k), v]],
                                     ["Power", v, C(k)])))
        fctx = draw(st.sampled_from((["Quotient", j, F(float(k))],
                                     ["Quotient", ["Sum", [j, C(1)]], F(float(k))],
                                     ["Product", [j, F(float(k))]],
                                     ["Quotient", ["Product", [j, C(3)]], F(float(k))])))
        pair = [ictx, fctx] if draw(st.booleans()) else [fctx, ictx]
        s2 = draw(st.sampled_from((["Sum", pair], ["Sum", [*pair, s]], ["Sum", [s, *pair]],
                                   ["Product", pair])))
        if g.ok(s2) is not None:
            s = s2
    used = {t[1] for t in subtrees(s) if t[0] == "Var"} & set(env)
    return mapper_opts(draw, {"expr": s, "env": {k: v for k, v in env.items() if k in used}})

# }}}


# {{{ histories

EXTRA_NAMES = ("_cse_u", "_cse_u_2", "_cse0", "_cse1", "_cse_v", "ext", "_cse_tmp")


def _retype_outside_wrappers(s, how):
    """retype(), but wrapped sub-terms stay as they are: two wrappers that are == share
    one assignment by design (what == cannot tell apart is F38's subject, not C14's)"""
    if isinstance(s, list) and s and s[0] == "CommonSubexpression":
        return s
    if isinstance(s, list) and s and s[0] == "Const":
        return retype(s, how)
    if isinstance(s, list):
        return [_retype_outside_wrappers(c, how) for c in s]
    return s


@st.composite
def history_case(draw):
    kind = "int" if draw(st.integers(0, 4)) else "float"
    if kind == "int":
        env = draw(int_env())
        g = IntGen(draw, env, atom_p=6)
        term = lambda d: g.nn(d) if draw(st.integers(0, 2)) else g.any(d)  # noqa: E731
        one = C(1)
    else:
        env = draw(float_env())
        g = FloatGen(draw, env, atom_p=6)
        term = g.gen
        one = F(1.0)
    pool = []
    for _ in range(draw(st.integers(2, 4))):
        g.atoms = list(pool)
        s, v = term(draw(st.integers(1, 2)))
        if not is_op(s) or s[0] == "CommonSubexpression":
            s = ["Sum", [s, one]]
            v = v + 1
        pool.append((["CommonSubexpression", s,
                      draw(st.sampled_from(PREFIXES)), SCOPE], v))
    ops, n_mappers, mapped_on = [], 1, set()
    comm = [(w, v) for w, v in pool if w[1][0] in ("Sum", "Product") and len(w[1][1]) >= 2
            and w[1][1][0] != w[1][1][-1]]
    if comm and draw(st.integers(0, 2)) == 0:
        # two different wrappers whose C text is the same (x + y and y + x are sorted into
        # one spelling), a copy of the mapper, and a fresh wrapper on the copy: every name
        # handed out before the copy stays taken
        w, v = draw(st.sampled_from(comm))
        twin = ["CommonSubexpression", [w[1][0], list(reversed(w[1][1]))],
                draw(st.sampled_from((w[2], w[2], None, "u"))), SCOPE]
        fresh = ["CommonSubexpression", ["Sum", [w, one]],
                 draw(st.sampled_from((w[2], None, "u"))), SCOPE]
        ops += [["map", 0, w], ["map", 0, twin],
                ["copy", 0] if draw(st.booleans()) else ["copy_mapped", 0, [["ext", ["Var", "x"]]]],
                ["map", 1, fresh], ["map", 1, draw(st.sampled_from((w, twin)))]]
        n_mappers = 2
        mapped_on |= {0, 1}
    for _ in range(draw(st.integers(3, 8))):
        c = draw(st.integers(0, 9))
        m = draw(st.integers(0, n_mappers - 1))
        if c <= 5 or len(ops) == 0:
            g.atoms = list(pool)
            s, _ = term(draw(st.integers(0, 2)))
            ops.append(["map", m, s])
            mapped_on.add(m)
            if kind == "float" and draw(st.integers(0, 2)) == 0:
                # the same mapper then prints an == expression whose constants have
                # the other type (2.0 for 2): equal keys, different C text
                tw = _retype_outside_wrappers(s, draw(st.sampled_from(("i2f", "f2i"))))
                if tw != s and g.ok(tw) is not None:
                    ops.append(["map", m, tw])
        elif c <= 7:
            ops.append(["copy", m])
            n_mappers += 1
        else:
            pairs = [[draw(st.sampled_from(EXTRA_NAMES)),
                      draw(st.sampled_from((["Var", "x"], ["Var", "y"], C(3),
                                            ["Ref", draw(st.integers(0, 3)),
                                             draw(st.integers(1, 3))])))]
                     for _ in range(draw(st.integers(1, 2)))]
            ops.append(["copy_mapped", m, pairs])
            n_mappers += 1
    if n_mappers > 1 and (n_mappers - 1) not in mapped_on:
        g.atoms = list(pool)
        ops.append(["map", n_mappers - 1, term(1)[0]])
    names = set()
    for op in ops:
        if op[0] == "map":
            names |= {t[1] for t in subtrees(op[2]) if t[0] == "Var"}
    names |= {"x", "y"}
    spec = {"kind": kind, "env": {k: v for k, v in env.items() if k in names},
            "ops": ops}
    return mapper_opts(draw, spec) if kind == "int" else spec

# }}}


RULE = ("Value-directed Hypothesis generators build expressions of the C-expressible "
        "fragments together with an environment: C_INT (long long variables in [0,2^20], "
        "+ - *, // % with positive divisors, shifts by 0..20, & | ^ ~, comparisons, "
        "&& || !, If, Power with exponent 0/1/2, CSE wrappers with repeating/colliding "
        "prefixes) and C_FLOAT (double variables, + - * /, pow, sqrt/sin/cos/exp/fabs, "
        "CSEs); histories send 3-9 expressions sharing a pool of wrappers through one "
        "CCodeMapper and copies of it (copy / copy_with_mapped_cses). Every case becomes "
        "one C function (variables, hoisted assignments in list order, printf of the "
        "text), ~100 functions per gcc -O0 -fsanitize=undefined translation unit; the "
        "printed value must equal pbt.refsem's value of the source expression exactly "
        "(int) or to relative 1e-12 (float). Static obligations on every mapper state: "
        "names distinct, CSE names assigned before use, no more assignments than "
        "distinct wrapped sub-terms. Cases outside the fragment (an intermediate >= 2^62, "
        "int-typed intermediate >= 2^31, ill-conditioned float) are skipped and counted. "
        "Non-trivial = C text with >= 2 binary operators of different C precedence "
        "class or a hoisted name used >= 2 times; history: a call on a copy or a "
        "repeated prefix. Distinct by sha1 of the JSON case spec. programs = C "
        "functions compiled and run.")
ASSUMPTIONS = [
    "gcc -O0 on this machine (x86-64, two's complement, IEEE double, glibc libm) is the C semantics",
    "pbt/refsem.py gives the value of the source expression (checked against the evaluator in C02)",
    "UBSan reports and crashes of the generated program mean the case left the fragment: skipped and counted, never a violation",
    "float cases are judged only when a first-order rounding-error bound of any evaluation order stays below 1e-13 relative",
    "the copy's C block re-declares the assignments it inherited (each mapper's cse_name_list is rendered as one self-contained block)",
]
HEALTH = {"int": 0.3, "float": 0.15, "history": 0.1, "cse-hoisted": 0.15,
          "cse-reused": 0.02, "prefix-collision": 0.03, "sub-rewrite": 0.1,
          "op:shift": 0.05, "op:band": 0.03, "op:eq": 0.05, "op:cond": 0.04,
          "hist:map-on-copy": 0.05, "hist:copy-reuses-inherited": 0.03,
          "hist:reuse-across-calls": 0.05, "hist:repeated-prefix": 0.03}

_VM = r"^(hist-)?value-mismatch:(expr:)?"


def _all_exprs(spec):
    if "expr" in spec:
        return [spec["expr"]]
    return [op[2] for op in spec.get("ops", [])
            if isinstance(op, list) and len(op) == 3 and op[0] == "map"]

KNOWN = {
    # CCodeMapper.map_product drops the forced parentheses of the base class:
    # a * (b % c) -> 'a * b % c' (also the product x * x printed for x**2)
    "F16a": lambda sub, spec, fail: bool(re.match(
        _VM + r"(Product|Power)\((.*,)?n:Remainder(,.*)?\)$", fail.kind)),
    # comparison operands are printed with Python's precedences; in C == != <
    # bind tighter than & ^ |
    "F16b": lambda sub, spec, fail: bool(re.match(
        _VM + r"Comparison\(([lr]:Bitwise(And|Or|Xor),?)+\)$", fail.kind)),
    # x**2 is printed as the product x * x without the parentheses a product
    # gets as the right operand of / and %
    "F16c": lambda sub, spec, fail: bool(re.match(
        _VM + r"(Quotient|Remainder)\(den:Power\)$", fail.kind)),
    # x**0 is printed as the int literal 1 whatever the type of x: a quotient of
    # such terms is an integer division in C
    "F-C14-pow0": lambda sub, spec, fail: bool(re.match(
        _VM + r"Quotient\(int-typed operands\)$", fail.kind)) and any(
            t[0] == "Power" and t[2][0] == "Const" and t[2][2] == 0
            for e in _all_exprs(spec) for t in subtrees(e)),
    # copy() / copy_with_mapped_cses() lose the expression -> name table and
    # fill the set of taken names with texts
    "F17": lambda sub, spec, fail: sub == "history" and fail.kind in (
        "cse-assigned-twice:copy", "cse-name-reused:copy"),
}

BUDGET_S = {"quick": 300, "thorough": 3000}
CASE_TIMEOUT_S = 120
CHUNK = 96


def generate(ctx):
    cgen.gcc_path()

    def drive(sub, strategy, n):
        buf = []

        def flush():
            if not buf:
                return
            units = []
            for s in buf:
                units += units_for(sub, s)
            cgen.prefetch(units)
            for s in buf:
                ctx.judge(sub, s)
            cgen.clear()
            ctx.extra["programs"] += cgen.STATS.pop("units_run", 0)
            ctx.extra["gcc_runs"] += cgen.STATS.pop("gcc_runs", 0)
            buf.clear()

        def body(s):
            buf.append(s)
            if len(buf) >= CHUNK:
                flush()
        ctx.run_given(strategy, body, n)
        flush()

    drive("int", int_case(), ctx.n(1600, 40000))
    drive("float", float_case(), ctx.n(900, 24000))
    drive("history", history_case(), ctx.n(600, 16000))


MANIFEST = {
    "text": ("Translation validation by compilation and execution: each generated "
             "expression (and each history of expressions through one CCodeMapper and "
             "its copies) is rendered as a C function from the mapper's text and its "
             "hoisted assignments, compiled with gcc -O0 -fsanitize=undefined and run; "
             "the printed values are compared with an independent reference interpreter, "
             "exactly for the integer fragment and to relative 1e-12 for doubles. Name "
             "uniqueness, assignment-before-use and assign-once are checked statically on "
             "every mapper state. Each generated program is validated; nothing is proved "
             "about the mapper in general."),
    "note": ("Trusted: gcc/glibc on x86-64, pbt/refsem.py. One compiler, one target. "
             "Cases whose intermediates leave [-2^62, 2^62] (or 2^31 for int-typed C "
             "sub-terms) or that are ill-conditioned in floating point are skipped and "
             "counted."),
    "technique": "per-program translation validation on generated inputs (gcc + UBSan vs reference interpreter), stateful call histories",
    "design_ref": "DESIGN.md section 4, C14",
}
