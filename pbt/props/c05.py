"""C05 - memoization and mapper optimization are observationally transparent.

Sub-checks
  history   call histories on ONE memoizing mapper instance (pool with identical,
            equal-not-identical, commuted and retyped variants; several argument tuples):
            after every call the result equals that of a fresh non-memoizing counterpart;
            strict (type-tagged) equality when the history is unambiguous; each distinct
            (handler, expression, arguments) key computed at most once; a second instance
            interleaved must not be affected
  optfree   the argument-free optimized renamer under all 32 option combinations
  optargs   the argument-passing optimized renamer under its 8 valid combinations
  optkw     the keyword-argument-passing optimized renamer under its 4 valid combinations
"""
from __future__ import annotations

import itertools
from collections import Counter

import numpy as np
from hypothesis import strategies as st

import pymbolic.primitives as p
from pymbolic.mapper import (CachedIdentityMapper, CachedMapper, CachedWalkMapper, Collector,
                             CombineMapper, IdentityMapper, WalkMapper)
from pymbolic.mapper.dependency import CachedDependencyMapper, DependencyMapper
from pymbolic.mapper.evaluator import CachedEvaluationMapper, EvaluationMapper
from pymbolic.mapper.substitutor import (CachedSubstitutionMapper, SubstitutionMapper,
                                         make_subst_func)

from pbt import envs, optmappers as O, strategies as S, walk
from pbt.props.c04 import (COMBINE_NODES, _CachedLeafCounter, _CachedRenamer,
                           _CachedVarCollector, _LeafCounter, _Renamer, _VarCollector)
from pbt.props.c09 import DEP_NODES, FLAGS
from pbt.refsem import exc_site, values_agree
from pbt.runner import Result
from pbt.spec import HarnessError, build, subspecs

PROP = "C05"
LEVEL = "exploration"
RULE = ("Call histories (3-25 calls) on one mapper instance over pools that contain "
        "identical, equal-but-not-identical, commuted and retyped (4/4.0/True) variants of "
        "earlier arguments and several extra-argument tuples, for seven cached/uncached "
        "mapper pairs, with a second instance interleaved; optimized mapper classes under "
        "all 32 (argument-free) and 8 (argument-passing) option combinations. Non-trivial = "
        "history with >=3 calls in which a non-leaf sub-expression recurs as an "
        "equal-not-identical object, or a retyped constant recurs, or one expression is "
        "mapped under two argument tuples; distinct by sha1 of the case spec.")
ASSUMPTIONS = [
    "the non-memoizing counterpart applied afresh defines the expected result",
    "calls whose expression contains a node that is == to an earlier one but differs in a constant's type are judged like all others; their failures carry the suffix ':retyped-composite' and are the known finding F38",
    "for optimized classes the at-most-once obligation is demanded only when recursion still goes through the cache (not for inline_rec without inline_cache, which by construction turns self.rec into plain dispatch)",
    "mapper instances get one fixed context/flag set each (the documented precondition of CachedMapper.get_cache_key: no mutable state)",
]
HEALTH = {"equal-not-identical-recurs": 0.2, "retyped-recurs": 0.05, "two-arg-tuples": 0.1}


# {{{ counting subclasses

def counting(cls):
    """subclass recording every map_* invocation per (handler, expression key, args)"""
    ns = {}
    for name in dir(cls):
        if not name.startswith("map_") or name == "map_foreign":
            continue
        orig = getattr(cls, name)
        if not callable(orig):
            continue

        def wrapper(self, expr, *args, _orig=orig, _name=name, **kwargs):
            try:
                k = (_name, type(expr).__name__, repr(walk.key(expr, strict=False)),
                     repr(args), repr(sorted(kwargs.items())))
            except Exception:
                k = (_name, type(expr).__name__, id(expr))
            r = _orig(self, expr, *args, **kwargs)
            if not isinstance(expr, (list, np.ndarray)):
                # completed computations only (exceptions are not memoized), and
                # hashable keys only (lists and arrays are mapped uncached by design)
                self._calls[k] += 1
            return r
        ns[name] = wrapper
    sub = type("Counting" + cls.__name__, (cls,), ns)
    return sub

# }}}


# {{{ mapper pairs: name -> (plain factory, cached factory, argument alphabet, node set)

SUBST = {"x": p.Variable("y"), "y": p.Sum((p.Variable("x"), 1)), "z": 3}
ENV0 = {**S.BASE_ENV, "x": 3, "y": -2, "z": 5, "k": 2, "m": 1, "r": ["Frac", 1, 2],
        "s": ["Frac", -3, 4], "p": True, "q": False}
ENV1 = {**ENV0, "x": -1, "y": 7}

RENAME_ARGS = [(frozenset({"x"}),), (frozenset({"y"}),), (frozenset({"x", "y"}),),
               (frozenset(),)]
# the renamers also take a keyword argument (part of the cache key)
RENAME_KW = [{}, {"suffix": "_k"}, {"suffix": "_r"}, {}]


class _KwRenamer(IdentityMapper):
    def map_variable(self, expr, names, suffix="_r"):
        return p.Variable(expr.name + suffix) if expr.name in names else expr


class _CachedKwRenamer(CachedIdentityMapper):
    def map_variable(self, expr, names, suffix="_r"):
        return p.Variable(expr.name + suffix) if expr.name in names else expr
TAG_ARGS = [("s",), ("t",)]
NOARGS = [()]


class _Visited(WalkMapper):
    def __init__(self):
        self.seen = []

    def post_visit(self, expr, *a, **k):
        self.seen.append((type(expr).__name__, repr(walk.key(expr, strict=False))))


class _CachedVisited(CachedWalkMapper):
    def __init__(self):
        CachedWalkMapper.__init__(self)
        self.seen = []

    def post_visit(self, expr, *a, **k):
        self.seen.append((type(expr).__name__, repr(walk.key(expr, strict=False))))


def _pairs(cfg):
    flags = FLAGS[cfg.get("flags", 0) % len(FLAGS)]
    env = envs.build_env(ENV0 if cfg.get("env", 0) == 0 else ENV1)
    return {
        "rename": (lambda: _KwRenamer(), lambda: counting(_CachedKwRenamer)(), RENAME_ARGS),
        "leafcount": (lambda: _LeafCounter(), lambda: counting(_CachedLeafCounter)(), TAG_ARGS),
        "collect": (lambda: _VarCollector(), lambda: counting(_CachedVarCollector)(), TAG_ARGS),
        "evaluate": (lambda: EvaluationMapper(env),
                     lambda: counting(CachedEvaluationMapper)(env), NOARGS),
        "depend": (lambda: DependencyMapper(**flags),
                   lambda: counting(CachedDependencyMapper)(**flags), NOARGS),
        "subst": (lambda: SubstitutionMapper(make_subst_func(SUBST)),
                  lambda: counting(CachedSubstitutionMapper)(make_subst_func(SUBST)), NOARGS),
        "walk": (lambda: _Visited(), lambda: counting(_CachedVisited)(), NOARGS),
        # the common-subexpression caching mix-in on mappers that are *not* CachedMappers:
        # the counterpart computes every wrapper anew; the mix-in computes the child of
        # each distinct (wrapper, arguments) once per instance
        "mixin-evaluate": (lambda: _NoCSECacheEvaluator(env),
                           lambda: counting(EvaluationMapper)(env), NOARGS),
        "mixin-depend": (lambda: _NoCSECacheDependencies(**flags),
                         lambda: counting(DependencyMapper)(**flags), NOARGS),
    }


class _NoCSECacheEvaluator(EvaluationMapper):
    def map_common_subexpression(self, expr, *args, **kwargs):
        return self.map_common_subexpression_uncached(expr, *args, **kwargs)


class _NoCSECacheDependencies(DependencyMapper):
    def map_common_subexpression(self, expr, *args, **kwargs):
        return self.map_common_subexpression_uncached(expr, *args, **kwargs)

# }}}


def _norm(r, strict):
    """comparable form of a mapper result"""
    if isinstance(r, (set, frozenset)):
        return ("set", frozenset(_norm(x, strict) for x in r))
    if isinstance(r, Counter):
        return ("counter", frozenset((repr(k), v) for k, v in r.items()))
    if isinstance(r, (p.Expression, tuple)):
        return ("expr", repr(walk.key(r, strict=strict)))
    if isinstance(r, list):
        return ("list", tuple(_norm(x, strict) for x in r))
    return ("value", repr(walk.key(r, strict=strict)) if not callable(r) else "callable")


def _ambiguous(objs):
    seen = {}
    for e in objs:
        for _, n in walk.occurrences(e):
            if not walk.children(n):
                continue
            k = (type(n).__name__, repr(walk.key(n, strict=False)))
            sk = repr(walk.key(n, strict=True))
            if seen.setdefault(k, sk) != sk:
                return True
    # constants equal in value and type but not strictly (0.0 / -0.0)
    seenc = {}
    for e in objs:
        for _, n in walk.occurrences(e):
            if walk.children(n) or isinstance(n, (p.Expression, tuple)):
                continue
            k = (type(n).__name__, repr(walk.key(n, strict=False)))
            sk = repr(walk.key(n, strict=True))
            if seenc.setdefault(k, sk) != sk:
                return True
    return False


class _Fresh:
    """a list / object array argument that the caller builds, maps and throws away:
    the next one may well get the same address"""

    def __init__(self, spec):
        self.spec = spec

    def make(self):
        return build(self.spec)


def build_pool(pool_spec):
    objs = []
    for entry in pool_spec:
        if isinstance(entry, dict) and "fresh" in entry:
            objs.append(_Fresh(entry["fresh"]))   # built anew for every call, then dropped
        elif isinstance(entry, dict):        # {"same": i}: the identical object again
            objs.append(objs[entry["same"] % len(objs)] if objs else None)
        else:
            objs.append(build(entry))
    if any(o is None for o in objs):
        raise HarnessError("pool starts with a back reference")
    return objs


def _run(m, which, e, args, kw=None):
    if which == "walk":
        before = len(m.seen)
        m(e, *args)
        return set(m.seen[before:]) if not isinstance(m, CachedMapper) else None
    return m(e, *args, **(kw or {}))


def check_history(spec):
    """spec: {"pair": name, "cfg": {...}, "pool": [...], "calls": [[i, a], ...],
              "interleave": bool}"""
    res = Result()
    which = spec["pair"]
    pairs = _pairs(spec.get("cfg", {}))
    if which not in pairs:
        raise HarnessError(which)
    plain_f, cached_f, alphabet = pairs[which]
    pool = build_pool(spec["pool"])
    amb = _ambiguous([q.make() if isinstance(q, _Fresh) else q for q in pool])
    cached = cached_f()
    cached._calls = Counter()
    other = cached_f() if spec.get("interleave") else None
    if other is not None:
        other._calls = Counter()
    seen_keys = {}
    recur_eq = recur_retyped = two_args = False
    args_by_expr = {}
    walk_seen_total = set()
    strict_of = {}       # non-strict key -> strict key of every node mapped so far
    amb_keys = set()
    walk_valid = True
    for step, (i, a) in enumerate(spec["calls"]):
        e = pool[i % len(pool)]
        if isinstance(e, _Fresh):
            e = e.make()
            res.label("fresh-unhashable-argument")
        args = alphabet[a % len(alphabet)]
        kw = RENAME_KW[(a // len(alphabet)) % len(RENAME_KW)] if which == "rename" else {}
        res.compared()
        # A node that is == to an earlier one but differs in a constant's type
        # (Sum((x, 4)) after Sum((x, 4.0)), 0.0 after -0.0) is legitimately the same
        # cache key: nothing is demanded of such a call beyond not crashing.
        call_amb = False
        nks = []
        for _, n in walk.occurrences(e):
            nk = (type(n).__name__, repr(walk.key(n, strict=False)))
            nsk = repr(walk.key(n, strict=True))
            nks.append(nk)
            if strict_of.setdefault(nk, nsk) != nsk:
                amb_keys.add(nk)
        if any(nk in amb_keys for nk in nks):
            call_amb = True     # either member of the pair may now hit the other's entry
        if call_amb:
            res.label("ambiguous-call")
            walk_valid = False
        # classification of the history
        k = repr(walk.key(e, strict=False))
        sk = repr(walk.key(e, strict=True))
        if k in seen_keys:
            if seen_keys[k][0] is not e and walk.children(e):
                recur_eq = True
            if seen_keys[k][1] != sk:
                recur_retyped = True
        seen_keys.setdefault(k, (e, sk))
        args_by_expr.setdefault(k, set()).add(repr(args) + repr(sorted(kw.items())))
        if len(args_by_expr[k]) > 1:
            two_args = True
        # fresh, non-memoizing counterpart
        try:
            want = ("val", _run(plain_f(), which, e, args, kw))
        except Exception as exc:
            want = ("err", type(exc).__name__)
        try:
            got = ("val", _run(cached, which, e, args, kw))
        except Exception as exc:
            got = ("err", type(exc).__name__, exc)
        if other is not None:
            try:
                _run(other, which, pool[(i + 1) % len(pool)], alphabet[(a + 1) % len(alphabet)])
            except Exception:
                pass
        sfx = ":retyped-composite" if call_amb else ""
        if want[0] == "err" or got[0] == "err":
            if want[0] != got[0] or want[1] != got[1]:
                res.fail(f"{which}:outcome-differs-from-uncached{sfx}",
                         f"call {step} on {e!r} {args!r}: memoizing mapper {got[:2]}, "
                         f"fresh non-memoizing mapper {want}")
            continue
        if which == "walk":
            # observable: set of distinct nodes post-visited so far
            walk_seen_total |= want[1]
            if set(cached.seen) != walk_seen_total:
                res.fail("walk:visited-set-differs" + ("" if walk_valid else ":retyped-composite"),
                         f"after call {step} on {e!r}: cached walk saw {len(set(cached.seen))} "
                         f"distinct nodes, uncached walks {len(walk_seen_total)}")
            continue
        if which in ("evaluate", "mixin-evaluate"):
            same = values_agree(got[1], want[1])
            if same and type(got[1]) is not type(want[1]) and not callable(got[1]) \
                    and not isinstance(got[1], (bool, int, float)) :
                res.fail("evaluate:result-type-shared-across-constant-types" + sfx,
                         f"call {step} on {e!r}: {got[1]!r} vs fresh {want[1]!r}")
        else:
            same = _norm(got[1], False) == _norm(want[1], False)
        if not same:
            res.fail(f"{which}:result-differs-from-uncached{sfx}",
                     f"call {step} (history {spec['calls'][:step + 1]}) on {e!r} with "
                     f"{args!r}: memoizing mapper returned {got[1]!r}, a fresh "
                     f"non-memoizing mapper {want[1]!r}")
        elif which not in ("evaluate", "mixin-evaluate") \
                and _norm(got[1], True) != _norm(want[1], True):
            res.fail(f"{which}:result-shared-across-constant-types{sfx}",
                     f"call {step} on {e!r} with {args!r}: memoizing mapper returned "
                     f"{got[1]!r}, fresh {want[1]!r} (differ in a constant's type)")
    # once-only: every (handler, expression, arguments) at most once per instance
    for inst, nm in ((cached, "instance"), (other, "interleaved instance")):
        if inst is None:
            continue
        res.compared()
        worst = [(k, v) for k, v in inst._calls.items() if v > 1 and (
            not which.startswith("mixin-") or k[0] == "map_common_subexpression_uncached")]
        if worst:
            k, v = sorted(worst)[0]
            res.fail(f"{which}:handler-ran-more-than-once:{k[0]}",
                     f"{nm}: handler {k[0]} ran {v} times for {k[1]} {k[2][:120]} args {k[3]}")
    if recur_eq:
        res.label("equal-not-identical-recurs")
    if recur_retyped:
        res.label("retyped-recurs")
    if two_args:
        res.label("two-arg-tuples")
    res.label("pair:" + which)
    if amb:
        res.label("ambiguous-history")
    res.nontrivial = len(spec["calls"]) >= 3 and (recur_eq or recur_retyped or two_args)
    res.sample = {"pair": which, "pool": [repr(x.spec if isinstance(x, _Fresh) else x)[:80]
                                          for x in pool],
                  "calls": spec["calls"][:10]}
    return res


def _opt_check(res, cls, plain, pool, calls, argsets, tag, kind, memoizes=True,
               kwsets=({},)):
    inst = cls()
    strict_of, amb_keys = {}, set()
    for step, (i, a) in enumerate(calls):
        e = pool[i % len(pool)]
        if isinstance(e, _Fresh):
            e = e.make()
        args = argsets[a % len(argsets)]
        kw = kwsets[(a // len(argsets)) % len(kwsets)]
        res.compared()
        nks = []
        for _, n in walk.occurrences(e):
            nk = (type(n).__name__, repr(walk.key(n, strict=False)))
            nks.append(nk)
            nsk = repr(walk.key(n, strict=True))
            if strict_of.setdefault(nk, nsk) != nsk:
                amb_keys.add(nk)
        call_amb = any(nk in amb_keys for nk in nks)
        try:
            want = plain()(e, *args, **kw)
        except Exception as exc:
            raise HarnessError(f"plain renamer raised {exc!r}") from exc
        del O.CALLS[:]
        try:
            got = inst(e, *args, **kw)
        except Exception as exc:
            res.fail(f"{kind}:{tag}:raised:{type(exc).__name__}",
                     f"optimized mapper {tag} on {e!r} {args!r}: {type(exc).__name__}: {exc}")
            return
        if walk.key(got, strict=False) != walk.key(want, strict=False):
            res.fail(f"{kind}:{tag}:result-differs" + (":retyped-composite" if call_amb else ""),
                     f"optimized mapper {tag}, call {step} on {e!r} {args!r}: {got!r}, "
                     f"unoptimized non-memoizing mapper {want!r}")
            return
        if walk.key(got, strict=True) != walk.key(want, strict=True):
            res.fail(f"{kind}:{tag}:result-shared-across-constant-types"
                     + (":retyped-composite" if call_amb else ""),
                     f"optimized mapper {tag}, call {step} on {e!r}: {got!r} vs {want!r}")
            return
        c = Counter(O.CALLS)
        if memoizes and c and max(c.values()) > 1:
            k = max(c, key=c.get)
            res.fail(f"{kind}:{tag}:handler-ran-more-than-once",
                     f"optimized mapper {tag} on {e!r}: map_variable ran {c[k]} times for {k[1]!r}")
            return


def _tag(combo, names):
    return ",".join(n for n, v in zip(names, combo) if v) or "none"


def check_optfree(spec):
    res = Result()
    pool = build_pool(spec["pool"])
    if O.OPT_FREE_ERRORS:
        c, exc = sorted(O.OPT_FREE_ERRORS.items())[0]
        res.fail("optfree:optimize_mapper-raised",
                 f"options {c}: {type(exc).__name__}: {exc}")
    names = ("drop_args", "drop_kwargs", "inline_rec", "inline_cache", "inline_get_cache_key")
    for combo, cls in sorted(O.OPT_FREE.items()):
        # inline_rec without inline_cache turns recursive calls into plain dispatch
        # (the user's choice): results must still be right, once-only is not demanded
        memo = not (combo[2] and not combo[3])
        _opt_check(res, cls, O.PlainRenamer, pool, spec["calls"], [()], _tag(combo, names),
                   "optfree", memoizes=memo)
    # a class that overrides handlers which base classes alias (map_product = map_sum ...)
    if O.OPT_ALIAS_ERRORS:
        c, exc = sorted(O.OPT_ALIAS_ERRORS.items())[0]
        res.fail("optfree:alias-family:optimize_mapper-raised",
                 f"options {c}: {type(exc).__name__}: {exc}")
    for combo, cls in sorted(O.OPT_ALIAS.items()):
        _opt_check(res, cls, O.PlainMarker, pool, spec["calls"], [()],
                   "alias-family:" + _tag(combo, names), "optfree", memoizes=False)
    # a class whose cache key function has a guard clause: refusal to inline it is fine,
    # an accepted class keeps 4, 4.0 and True apart like the class as written
    if O.OPT_GUARD_ERRORS:
        c, exc = sorted(O.OPT_GUARD_ERRORS.items())[0]
        res.fail("optfree:guard-family:optimize_mapper-raised",
                 f"options {c}: {type(exc).__name__}: {exc}")
    for combo, cls in sorted(O.OPT_GUARD.items()):
        _opt_check(res, cls, O.PlainConstMarker, pool, spec["calls"], [()],
                   "guard-family:" + _tag(combo, names), "optfree", memoizes=False)
    res.nontrivial = len(spec["calls"]) >= 2 and any(
        walk.children(x) for x in pool if not isinstance(x, _Fresh))
    res.label("optimizer")
    res.sample = {"pool": [repr(getattr(x, "spec", x))[:80] for x in pool],
                  "calls": spec["calls"][:8],
                  "combinations": len(O.OPT_FREE) + len(O.OPT_ALIAS) + len(O.OPT_GUARD),
                  "guard-key classes refused by the optimizer": len(O.OPT_GUARD_REFUSED)}
    return res


ARGSETS = [(frozenset({"x"}), "_a"), (frozenset({"y", "f"}), "_b"), (frozenset({"x"}), "_b"),
           (frozenset(), "_a")]


def check_optargs(spec):
    res = Result()
    pool = build_pool(spec["pool"])
    if O.OPT_ARGS_ERRORS:
        c, exc = sorted(O.OPT_ARGS_ERRORS.items())[0]
        res.fail("optargs:optimize_mapper-raised", f"options {c}: {type(exc).__name__}: {exc}")
    names = ("drop_kwargs", "inline_rec", "inline_get_cache_key")
    for combo, cls in sorted(O.OPT_ARGS.items()):
        _opt_check(res, cls, O.PlainArgRenamer, pool, spec["calls"], ARGSETS,
                   _tag(combo, names), "optargs", memoizes=not combo[1])
    res.nontrivial = len({a for _, a in spec["calls"]}) >= 2
    res.label("optimizer")
    res.sample = {"pool": [repr(getattr(x, "spec", x))[:80] for x in pool],
                  "calls": spec["calls"][:8]}
    return res


def _known_retyped_composite(sub, spec, fail):
    """F38: the memoization key tells constants of different type apart only at the top
    level: composite expressions that are == but contain constants of different type
    (2*x and 2.0*x, x[1] and x[1.0]) share one cache entry."""
    return fail.kind.endswith(":retyped-composite")


KNOWN = {"F38": _known_retyped_composite}

def check_optwalk(spec):
    """optimized walk mappers: every distinct node post-visited exactly once per
    instance (unless recursion bypasses the cache by the user's choice of options)"""
    res = Result()
    pool = build_pool(spec["pool"])
    if O.OPT_WALK_ERRORS:
        c, exc = sorted(O.OPT_WALK_ERRORS.items())[0]
        res.fail("optwalk:optimize_mapper-raised", f"options {c}: {type(exc).__name__}: {exc}")
    names = ("inline_rec", "inline_cache", "inline_get_cache_key")
    for combo, cls in sorted(O.OPT_WALK.items()):
        tag = _tag(combo, names)
        memo = not (combo[0] and not combo[1])
        inst = cls()
        seen_total = set()
        for step, (i, _a) in enumerate(spec["calls"]):
            e = pool[i % len(pool)]
            if isinstance(e, _Fresh):
                continue
            if _ambiguous([e]) or any(_ambiguous([e, q]) for q in pool
                                      if not isinstance(q, _Fresh)):
                continue
            res.compared()
            del O.CALLS[:]
            try:
                inst(e)
            except (ValueError, NotImplementedError):
                break     # node types the walk mapper refuses: C04
            except Exception as exc:
                res.fail(f"optwalk:{tag}:raised:{type(exc).__name__}", f"{e!r}: {exc!r}")
                break
            visited = Counter((c[1], c[2]) for c in O.CALLS)
            want = {(type(n).__name__, repr(walk.key(n, strict=True)))
                    for _, n in walk.occurrences(e)}
            new = want - seen_total
            if memo:
                if set(visited) != new or (visited and max(visited.values()) > 1):
                    res.fail(f"optwalk:{tag}:visits-differ",
                             f"optimized walk mapper {tag}, call {step} on {e!r}: "
                             f"post-visited {sorted(visited.items())[:6]}..., expected each "
                             f"of the {len(new)} not yet seen distinct nodes once")
                    break
            elif not set(visited) >= new:
                res.fail(f"optwalk:{tag}:node-not-visited", f"{e!r}")
                break
            seen_total |= want
    res.label("optimizer")
    res.nontrivial = len(spec["calls"]) >= 2
    res.sample = {"pool": [repr(getattr(x, "spec", x))[:80] for x in pool],
                  "calls": spec["calls"][:8]}
    return res


KWARGSETS = [(frozenset({"x"}),), (frozenset({"y", "f"}),), (frozenset({"x", "y"}),)]
KWSETS = ({}, {"suffix": "_k"}, {"suffix": "_j"})


def check_optkw(spec):
    res = Result()
    pool = build_pool(spec["pool"])
    if O.OPT_KW_ERRORS:
        c, exc = sorted(O.OPT_KW_ERRORS.items())[0]
        res.fail("optkw:optimize_mapper-raised", f"options {c}: {type(exc).__name__}: {exc}")
    names = ("inline_rec", "inline_get_cache_key")
    for combo, cls in sorted(O.OPT_KW.items()):
        _opt_check(res, cls, O.PlainKwRenamer, pool, spec["calls"], KWARGSETS,
                   _tag(combo, names), "optkw", memoizes=not combo[0], kwsets=KWSETS)
    res.nontrivial = len({a for _, a in spec["calls"]}) >= 2
    res.label("optimizer")
    res.sample = {"pool": [repr(getattr(x, "spec", x))[:80] for x in pool],
                  "calls": spec["calls"][:8]}
    return res


CHECKS = {"history": check_history, "optkw": check_optkw, "optwalk": check_optwalk, "optfree": check_optfree, "optargs": check_optargs}


# {{{ generators

def _commute(spec):
    if spec[0] in ("Sum", "Product") and len(spec[1]) >= 2:
        return [spec[0], list(reversed(spec[1]))]
    return spec


def _retype(draw, spec):
    consts = [s for s in subspecs(spec) if s[0] == "Const" and s[1] in ("int", "float")]
    if not consts:
        return ["Sum", [spec, ["Const", "float", 4.0]]]
    target = draw(st.sampled_from(consts))
    new = ["Const", "float" if target[1] == "int" else "int",
           float(target[2]) if target[1] == "int" else int(target[2])]
    if target[2] in (0, 1) and draw(st.booleans()):
        new = ["Const", "bool", bool(target[2])]

    def rec(s):
        if s is target:
            return new
        if isinstance(s, list):
            return [rec(c) for c in s]
        return s
    return rec(spec)


@st.composite
def pool_for(draw, which):
    mixin = which.startswith("mixin-")
    which = which.replace("mixin-", "")
    if mixin:
        pool = draw(pool_for(which))
        # wrappers that recur: within one expression, across calls, nested
        bases = [q for q in pool if isinstance(q, list)] or [["Var", "x"]]
        for _ in range(draw(st.integers(1, 3))):
            b = draw(st.sampled_from(bases))
            w = ["CommonSubexpression", b, draw(st.sampled_from((None, "u"))), "pymbolic_eval"]
            pool.append(draw(st.sampled_from((
                ["Sum", [w, w]], ["Product", [w, ["Sum", [w, ["Const", "int", 1]]]]], w,
                ["CommonSubexpression", ["Sum", [w, w]], None, "pymbolic_eval"]))))
        return pool
    if which == "evaluate":
        frag = S.EVALUABLE.but(poison=False, float_consts=(0.5, 2.0, 4.0, 1.0, -1.5))
        gen = lambda: draw(S.expr(draw(st.sampled_from(("INT", "NUM", "BOOL"))),  # noqa: E731
                                  draw(st.integers(1, 4)), frag))
    elif which in ("leafcount", "collect"):
        gen = lambda: draw(S.any_expr(draw(st.integers(1, 4)), nodes=COMBINE_NODES,  # noqa: E731
                                      nan=False))
    elif which == "depend":
        gen = lambda: draw(S.any_expr(draw(st.integers(1, 4)), nodes=DEP_NODES))  # noqa: E731
    else:
        gen = lambda: draw(S.any_expr(draw(st.integers(1, 4))))  # noqa: E731
    base = [gen() for _ in range(draw(st.integers(1, 2)))]
    pool = list(base)
    if which == "depend":
        # wrappers of one child that differ in prefix / scope only (distinct wrappers)
        b0 = base[0]
        pool.append(["Sum", [["CommonSubexpression", b0, None, "pymbolic_eval"],
                             ["CommonSubexpression", b0, "u", "pymbolic_eval"]]])
        pool.append(["CommonSubexpression", b0, "v", "pymbolic_expr"])
    for _ in range(draw(st.integers(1, 4))):
        b = draw(st.sampled_from(base))
        c = draw(st.integers(0, 7))
        if c == 0:
            pool.append({"same": draw(st.integers(0, len(pool) - 1))})
        elif c == 1:
            pool.append(b)                       # equal, not identical
        elif c == 2:
            pool.append(_commute(b))
        elif c == 3:
            pool.append(_retype(draw, b))
        elif c == 4:
            pool.append(["Sum", [b, ["Const", "int", 4]]])
            pool.append(["Sum", [b, ["Const", "float", 4.0]]])
        elif c == 5:
            # unequal, with equal hashes (hash(-1) == hash(-2) in CPython)
            shape = draw(st.sampled_from((
                lambda k: ["Sum", [b, ["Const", "int", k]]],
                lambda k: ["Power", b, ["Const", "int", k]],
                lambda k: ["Product", [["Const", "int", k], b]])))
            pool.append(shape(-1))
            pool.append(shape(-2))
        elif c == 6:
            # retyped constants under *different* parents: separate cache keys
            pool.append(["Sum", [b, ["Const", "int", 4], ["Const", "bool", True]]])
            pool.append(["Product", [b, ["Const", "float", 4.0], ["Const", "int", 1]]])
        elif c == 7 and which != "evaluate":
            # wrappers of one child that differ in prefix / scope only
            pool.append(["Sum", [["CommonSubexpression", b, None, "pymbolic_eval"],
                                 ["CommonSubexpression", b, "u", "pymbolic_eval"],
                                 ["CommonSubexpression", b, None, "pymbolic_expr"]]])
        else:
            pool.append(["Product", [b, draw(st.sampled_from(base))]])
    if which in ("rename", "subst", "evaluate", "depend") and draw(st.integers(0, 2)) == 0:
        kind = draw(st.sampled_from(("List", "NpArray")))
        for _ in range(draw(st.integers(2, 3))):
            items = [draw(st.sampled_from(base)) for _ in range(draw(st.integers(1, 3)))]
            pool.append({"fresh": [kind, items]})
    return pool


@st.composite
def history_case(draw):
    which = draw(st.sampled_from(("rename", "rename", "leafcount", "collect", "evaluate",
                                  "depend", "subst", "walk", "mixin-evaluate",
                                  "mixin-depend")))
    pool = draw(pool_for(which))
    calls = [[draw(st.integers(0, 7)), draw(st.integers(0, 15))]
             for _ in range(draw(st.integers(3, 20)))]
    cse_flags = [i for i, fl in enumerate(FLAGS) if fl.get("include_cses")]
    flags = draw(st.sampled_from(cse_flags)) if which.endswith("depend") and draw(
        st.booleans()) else draw(st.integers(0, 26))
    return {"pair": which, "cfg": {"flags": flags,
                                   "env": draw(st.integers(0, 1))},
            "pool": pool, "calls": calls, "interleave": draw(st.booleans())}


OPT_NODES = tuple(n for n in S.ALL_COMPOSITE)


@st.composite
def opt_case(draw):
    pool = draw(pool_for("rename"))
    calls = [[draw(st.integers(0, 7)), draw(st.integers(0, 11))]
             for _ in range(draw(st.integers(1, 6)))]
    return {"pool": pool, "calls": calls}

# }}}


def generate(ctx):
    ctx.run_given(history_case(), lambda s: ctx.judge("history", s), ctx.n(8000, 200000))
    ctx.run_given(opt_case(), lambda s: ctx.judge("optfree", s), ctx.n(600, 8000))
    ctx.run_given(opt_case(), lambda s: ctx.judge("optargs", s), ctx.n(1500, 16000))
    ctx.run_given(opt_case(), lambda s: ctx.judge("optkw", s), ctx.n(1200, 12000))
    ctx.run_given(opt_case(), lambda s: ctx.judge("optwalk", s), ctx.n(800, 10000))
    ctx.exhaustive["optimizer option combinations (argument-free / argument-passing)"] = \
        (len(O.OPT_FREE) + len(O.OPT_ARGS) + len(O.OPT_KW) + len(O.OPT_WALK)) \
        if ctx.shard == 0 else 0


MANIFEST = {
    "text": ("Stateful search over call histories on single memoizing mapper instances, "
             "with pools built to make cache keys collide or nearly collide (identical, "
             "equal-but-distinct, commuted, retyped 4/4.0/True arguments, several argument "
             "tuples, a second interleaved instance): every result is compared with a fresh "
             "non-memoizing counterpart, handler invocations are counted per key, and the "
             "mapper optimizer is exercised under every option combination valid for the "
             "mapper family (argument-free, positional, keyword, walk, alias-overriding and "
             "guard-key families); the CSE caching mix-in is also observed on mappers that "
             "are not CachedMappers."),
    "note": ("Trusted: the non-memoizing mappers as the reference (their own correctness is "
             "C02/C04/C08/C09), pbt/walk.py keys for comparison."),
    "technique": "history-based property testing (generated call sequences per instance) with differential oracle and invocation counting; exhaustive optimizer option combinations",
    "design_ref": "DESIGN.md section 4, C05",
}
