"""C12 - common-subexpression handling keeps meaning and shares work.

Sub-checks
  tag      tag_common_subexpressions on lists with engineered repetition: equal values,
           no wrapper directly around a wrapper, and (wrapper-free inputs) every repeated
           operation evaluated once by one evaluator (deep-key / shallow-class bound)
  tagpre   inputs with pre-existing wrappers (prefixes, scopes): values and no CSE(CSE)
  histo    the histogram tagger (CSEWalkMapper/CSETagMapper): equal values
  once     evaluator: the child of each distinct wrapper is computed exactly once per
           evaluator instance, however often it occurs, over several evaluations; again on
           a fresh instance (observed through handler counts and a counting function)
  helpers  wrap_in_cse / make_common_subexpression rules and component-wise application
"""
from __future__ import annotations

from collections import Counter

import numpy as np
from hypothesis import strategies as st

import pymbolic.primitives as p
from pymbolic.cse import tag_common_subexpressions
from pymbolic.mapper.cse_tagger import CSETagMapper, CSEWalkMapper
from pymbolic.mapper.evaluator import EvaluationMapper

from pbt import envs, strategies as S, walk
from pbt.refsem import RefSkip, describe, exc_site, ref_eval, values_close
from pbt.runner import Result
from pbt.spec import HarnessError, build, subspecs

PROP = "C12"
LEVEL = "exploration"
RULE = ("Lists of 1-4 expressions over variables, constants, sums, products, divisions, "
        "powers and calls with engineered repetition (identical, equal-not-identical and "
        "commuted repeats, repeats nested in repeats and across list entries), optionally "
        "with pre-existing wrappers; trees with hand-placed wrappers evaluated several "
        "times on one and on fresh evaluator instances with a call-counting function. "
        "Non-trivial = some operation of >=3 nodes occurs >=2 times, at least once "
        "commuted or in another list entry; distinct by sha1 of the case spec.")
ASSUMPTIONS = [
    "values are compared over commutative exact numbers (merging a*b with b*a is the stated intent)",
    "an evaluated output node is mapped back to input operations through a deep key (wrappers stripped, Sum/Product operands sorted recursively); for each deep key D of the input: 1 <= evaluations(D) <= number of shallow classes (Sum/Product: multiset of operands, others: ==) with that deep key",
    "the sharing obligation is checked for wrapper-free inputs only, as the property states",
]
HEALTH = {"has-commuted-repeat": 0.1, "has-cross-entry-repeat": 0.15}

OPS = (p.Sum, p.Product, p.Quotient, p.FloorDiv, p.Remainder, p.Power, p.Call)


def deep_key(n):
    if isinstance(n, p.CommonSubexpression):
        return deep_key(n.child)
    if type(n) in (p.Sum, p.Product):
        return (type(n).__name__, tuple(sorted((deep_key(c) for c in n.children), key=repr)))
    if isinstance(n, p.Expression):
        return (type(n).__name__, tuple(deep_key(c) for _, c in walk.children(n)),
                repr(walk.key(n, strict=False)) if not walk.children(n) else None)
    if isinstance(n, tuple):
        return ("tuple", tuple(deep_key(c) for c in n))
    return repr(walk.key(n, strict=False))


def shallow_key(n):
    if type(n) in (p.Sum, p.Product):
        return (type(n).__name__, frozenset(Counter(
            repr(walk.key(c, strict=False)) for c in n.children).items()))
    return repr(walk.key(n, strict=False))


class Recording(EvaluationMapper):
    """logs the deep key of every operation node whose handler runs"""

    def __init__(self, context, log):
        EvaluationMapper.__init__(self, context)
        self.log = log


def _rec_handler(name):
    base = getattr(EvaluationMapper, name)

    def h(self, expr, *a, **k):
        self.log.append(expr)
        return base(self, expr, *a, **k)
    return h


for _n in ("map_sum", "map_product", "map_quotient", "map_floor_div", "map_remainder",
           "map_power", "map_call"):
    setattr(Recording, _n, _rec_handler(_n))


ENVS = [{"x": 3, "y": -2, "z": 5, "w": 7, "k": 2, "m": 1},
        {"x": ["Frac", 1, 2], "y": 4, "z": -3, "w": ["Frac", 5, 3], "k": 1, "m": 3},
        {"x": 0, "y": 1, "z": 2, "w": -1, "k": 0, "m": 2}]


def _same_values(res, what, orig, new, tag):
    for env_spec in ENVS:
        env = envs.build_env({**S.BASE_ENV, **env_spec})
        for i, (a, b) in enumerate(zip(orig, new)):
            try:
                ra, rb = ref_eval(a, env), ref_eval(b, env)
            except RefSkip:
                continue
            res.compared()
            same = ra[0] == rb[0] and (
                values_close(ra[1], rb[1]) if ra[0] == "val"
                else bool({n for n, _ in ra[1]} & {n for n, _ in rb[1]}))
            if not same:
                res.fail(f"{what}:value-changed",
                         f"{tag} entry {i}: {a!r} -> {b!r}: {ra} vs {rb}")
                return False
    return True


def _no_nested_wrappers(res, what, outs):
    for o in outs:
        for _, n in walk.occurrences(o):
            if isinstance(n, p.CommonSubexpression) and isinstance(
                    n.child, p.CommonSubexpression):
                res.fail(f"{what}:wrapper-around-wrapper", f"{o!r} contains {n!r}")
                return


def _classify(res, exprs):
    occ = []
    for ei, e in enumerate(exprs):
        for _, n in walk.occurrences(e):
            if isinstance(n, OPS) and walk.size(n) >= 3:
                occ.append((ei, deep_key(n), repr(walk.key(n, strict=False))))
    by = {}
    for ei, dk, k in occ:
        by.setdefault(repr(dk), []).append((ei, k))
    comm = cross = False
    for lst in by.values():
        if len(lst) >= 2:
            if len({k for _, k in lst}) >= 2:
                comm = True
            if len({ei for ei, _ in lst}) >= 2:
                cross = True
    if comm:
        res.label("has-commuted-repeat")
    if cross:
        res.label("has-cross-entry-repeat")
    res.nontrivial = comm or cross


def _sharing(res, what, exprs, outs):
    """evaluate all outputs with one evaluator, log the operation handlers that run: an
    operation of the input (wrappers looked through) runs at most once per spelling class"""
    classes = {}
    for e in exprs:
        for _, n in walk.occurrences(e):
            if isinstance(n, OPS):
                classes.setdefault(repr(deep_key(n)), set()).add(repr(shallow_key(n)))
    env = envs.build_env({**S.BASE_ENV, **ENVS[0]})
    log = []
    ev = Recording(env, log)
    ok = True
    for o in outs:
        try:
            ev(o)
        except (ZeroDivisionError, ValueError, OverflowError, TypeError):
            ok = False   # undefined at this point: an aborted evaluation proves nothing
            break
        except Exception as exc:
            res.fail(f"{what}:evaluation-raised:" + exc_site(exc), f"{o!r}: {exc!r}")
            ok = False
            break
    if ok:
        evals = Counter(repr(deep_key(n)) for n in log)
        for dk, cls in classes.items():
            res.compared()
            n_ev = evals.get(dk, 0)
            if n_ev < 1:
                res.fail(f"{what}:operation-never-evaluated",
                         f"{exprs!r} -> {outs!r}: an input operation is not evaluated at all")
                break
            if n_ev > len(cls):
                res.fail(f"{what}:repeated-operation-evaluated-more-than-once",
                         f"{exprs!r} -> {outs!r}: an operation occurring in {len(cls)} "
                         f"spelling class(es) is evaluated {n_ev} times")
                break
        extra = set(evals) - set(classes)
        if extra:
            res.fail(f"{what}:evaluates-operation-not-in-input", f"{exprs!r} -> {outs!r}")


def check_tag(spec):
    """spec: {"exprs": [expr specs]}  (wrapper-free)"""
    res = Result()
    exprs = [build(s) for s in spec["exprs"]]
    if any(isinstance(n, p.CommonSubexpression) for e in exprs
           for _, n in walk.occurrences(e)):
        raise HarnessError("tag sub-check takes wrapper-free inputs")
    if not all(isinstance(e, p.Expression) for e in exprs):
        raise HarnessError("entries must be expressions")
    try:
        outs = tag_common_subexpressions(exprs)
    except Exception as exc:
        return res.fail("tag:raised:" + exc_site(exc),
                        f"tag_common_subexpressions({exprs!r}): {type(exc).__name__}: {exc}")
    if len(outs) != len(exprs):
        return res.fail("tag:length-changed", f"{len(exprs)} -> {len(outs)}")
    _same_values(res, "tag", exprs, outs, "tag_common_subexpressions")
    _no_nested_wrappers(res, "tag", outs)
    _sharing(res, "tag", exprs, outs)
    _classify(res, exprs)
    res.sample = {"input": [repr(e)[:150] for e in exprs],
                  "tagged": [repr(o)[:200] for o in outs]}
    return res


def check_tagpre(spec):
    res = Result()
    exprs = [build(s) for s in spec["exprs"]]
    try:
        outs = tag_common_subexpressions(exprs)
    except Exception as exc:
        return res.fail("tagpre:raised:" + exc_site(exc),
                        f"tag_common_subexpressions({exprs!r}): {type(exc).__name__}: {exc}")
    _same_values(res, "tagpre", exprs, outs, "tag_common_subexpressions")
    _no_nested_wrappers(res, "tagpre", outs)
    # no sharing obligation here: the property states it for wrapper-free inputs, and the
    # library does not merge a hand-placed wrapper with the one it creates for the same
    # child ([CSE(x+y, 'inner'), x+y] keeps two wrappers, evaluated once each)
    _classify(res, exprs)
    res.label("pre-existing-wrappers")
    res.sample = {"input": [repr(e)[:150] for e in exprs],
                  "tagged": [repr(o)[:200] for o in outs]}
    return res


def check_histo(spec):
    res = Result()
    exprs = [build(s) for s in spec["exprs"]]
    try:
        wm = CSEWalkMapper()
        for e in exprs:
            wm(e)
        tm = CSETagMapper(wm)
        outs = [tm(e) for e in exprs]
    except Exception as exc:
        return res.fail("histo:raised:" + exc_site(exc), f"{exprs!r}: {exc!r}")
    _same_values(res, "histo", exprs, outs, "CSETagMapper")
    _classify(res, exprs)
    res.sample = {"input": [repr(e)[:150] for e in exprs],
                  "tagged": [repr(o)[:200] for o in outs]}
    return res


class CountingEval(EvaluationMapper):
    def __init__(self, context):
        EvaluationMapper.__init__(self, context)
        self.cse_runs = Counter()

    def map_common_subexpression_uncached(self, expr):
        self.cse_runs[repr(walk.key(expr, strict=False))] += 1
        return EvaluationMapper.map_common_subexpression_uncached(self, expr)


def check_once(spec):
    """spec: {"exprs": [...], "order": [indices], "env": i}: evaluations on one instance"""
    res = Result()
    exprs = [build(s) for s in spec["exprs"]]
    wrappers = Counter()
    for e in exprs:
        for _, n in walk.occurrences(e):
            if isinstance(n, p.CommonSubexpression):
                wrappers[repr(walk.key(n, strict=False))] += 1
    for round_ in range(2):     # second round: a fresh instance
        counter = envs.CallCounter()
        env = envs.build_env({**S.BASE_ENV, **ENVS[spec.get("env", 0) % len(ENVS)]}, counter)
        ev = CountingEval(env)
        reached = set()
        for i in spec["order"]:
            e = exprs[i % len(exprs)]
            try:
                ref = ref_eval(e, env)
            except RefSkip:
                return res.skip("refskip")
            res.compared()
            try:
                got = ev(e)
            except Exception as exc:
                if ref[0] == "err":
                    return res.skip("evaluation-undefined")
                res.fail("once:evaluation-raised:" + exc_site(exc), f"{e!r}: {exc!r}")
                return res
            if ref[0] == "err":
                res.fail("once:value-instead-of-error", f"{e!r}: {got!r}")
                return res
            if not values_close(got, ref[1]):
                res.fail("once:value-differs",
                         f"{e!r} on a re-used evaluator: {describe(got)} vs {describe(ref[1])}")
                return res
            for _, n in walk.occurrences(e):
                if isinstance(n, p.CommonSubexpression):
                    reached.add(repr(walk.key(n, strict=False)))
        for k in reached:
            res.compared()
            if ev.cse_runs[k] != 1:
                res.fail("once:wrapper-child-computed-%s" % (
                    "more-than-once" if ev.cse_runs[k] > 1 else "never"),
                    f"round {round_}: a wrapper occurring {wrappers[k]} time(s) in "
                    f"{[repr(e)[:120] for e in exprs]} had its child computed "
                    f"{ev.cse_runs[k]} times over evaluations {spec['order']}")
                return res
    res.nontrivial = any(v >= 2 for v in wrappers.values()) and len(spec["order"]) >= 2
    if res.nontrivial:
        res.label("wrapper-recurs")
    res.sample = {"exprs": [repr(e)[:150] for e in exprs], "order": spec["order"]}
    return res


def check_helpers(spec):
    """spec: {"expr": spec, "prefix": str|None, "scope": str|None, "array": [specs]|None}"""
    res = Result()
    e = build(spec["expr"])
    prefix, scope = spec.get("prefix"), spec.get("scope")
    # wrap_in_cse
    res.compared()
    try:
        w = p.wrap_in_cse(e, prefix)
    except Exception as exc:
        return res.fail("wrap_in_cse:raised:" + exc_site(exc), f"{e!r}: {exc!r}")
    if isinstance(e, (p.Variable, p.Subscript)):
        if w is not e:
            res.fail("wrap_in_cse:wrapped-variable-or-subscript", f"{e!r} -> {w!r}")
    elif isinstance(e, p.CommonSubexpression):
        if isinstance(getattr(w, "child", None), p.CommonSubexpression):
            res.fail("wrap_in_cse:wrapper-around-wrapper", f"{e!r} -> {w!r}")
        if prefix is None and w is not e:
            res.fail("wrap_in_cse:rewrapped-without-prefix", f"{e!r} -> {w!r}")
        if e.prefix is not None and w is not e:
            res.fail("wrap_in_cse:existing-prefix-lost", f"{e!r} prefix {prefix!r} -> {w!r}")
        if e.prefix is None and prefix is not None and type(e) is p.CommonSubexpression:
            if not (isinstance(w, p.CommonSubexpression) and w.prefix == prefix
                    and walk.key(w.child) == walk.key(e.child)):
                res.fail("wrap_in_cse:prefix-not-applied", f"{e!r} prefix {prefix!r} -> {w!r}")
    else:
        if not (type(w) is p.CommonSubexpression and w.child is e and w.prefix == prefix):
            res.fail("wrap_in_cse:not-wrapped", f"{e!r} -> {w!r}")
    _same_values(res, "wrap_in_cse", [e], [w], "wrap_in_cse")
    # make_common_subexpression on a scalar expression
    res.compared()
    try:
        mk = p.make_common_subexpression(e, prefix, scope)
    except Exception as exc:
        return res.fail("make_cse:raised:" + exc_site(exc), f"{e!r}: {exc!r}")
    if not isinstance(e, p.Expression):
        if mk is not e and not (mk == e):
            res.fail("make_cse:constant-wrapped", f"{e!r} -> {mk!r}")
    elif isinstance(e, p.CommonSubexpression) and (
            scope is None or scope == p.cse_scope.EVALUATION or e.scope == scope):
        if mk is not e:
            res.fail("make_cse:compatible-wrapper-rewrapped", f"{e!r} scope {scope!r} -> {mk!r}")
    else:
        want_scope = scope if scope is not None else p.cse_scope.EVALUATION
        if not (isinstance(mk, p.CommonSubexpression) and mk.child is e
                and mk.prefix == prefix and mk.scope == want_scope):
            res.fail("make_cse:not-wrapped-as-documented",
                     f"{e!r} prefix {prefix!r} scope {scope!r} -> {mk!r}")
    _same_values(res, "make_cse", [e], [mk], "make_common_subexpression")
    # component-wise on object arrays
    if spec.get("array"):
        items = [build(s) for s in spec["array"]]
        arr = np.empty(len(items), dtype=object)
        for i, it in enumerate(items):
            arr[i] = it
        res.compared()
        try:
            r = p.make_common_subexpression(arr, prefix, scope)
        except Exception as exc:
            return res.fail("make_cse:array-raised:" + exc_site(exc), f"{arr!r}: {exc!r}")
        if not (isinstance(r, np.ndarray) and r.shape == arr.shape):
            res.fail("make_cse:array-not-componentwise", f"{arr!r} -> {r!r}")
        else:
            for i, it in enumerate(items):
                want = p.make_common_subexpression(
                    it, None if prefix is None else f"{prefix}{i}", scope)
                if walk.key(r[i], strict=False) != walk.key(want, strict=False):
                    res.fail("make_cse:array-component-differs",
                             f"component {i} of {arr!r} with prefix {prefix!r}: {r[i]!r}, "
                             f"component-wise rule gives {want!r}")
                    break
            _same_values(res, "make_cse-array", items, list(r), "make_common_subexpression")
    # component-wise on multivectors
    if spec.get("mv"):
        from pymbolic.geometric_algebra import MultiVector
        items = [build(s) for s in spec["mv"]][:3]
        vec = np.empty(len(items), dtype=object)
        for i, it in enumerate(items):
            vec[i] = it
        try:
            mv = MultiVector(vec)
            r = p.make_common_subexpression(mv, prefix, scope)
        except Exception as exc:
            return res.fail("make_cse:multivector-raised:" + exc_site(exc), f"{exc!r}")
        res.compared()
        if not isinstance(r, MultiVector) or set(r.data) - set(mv.data):
            res.fail("make_cse:multivector-not-componentwise", f"{mv!r} -> {r!r}")
        else:
            for bits, coeff in mv.data.items():
                got = r.data.get(bits)
                if isinstance(coeff, p.Expression) and not isinstance(
                        coeff, p.CommonSubexpression):
                    if not (isinstance(got, p.CommonSubexpression) and got.child is coeff):
                        res.fail("make_cse:multivector-coefficient-not-wrapped",
                                 f"{coeff!r} -> {got!r}")
                        break
                    if prefix is not None and not (got.prefix or "").startswith(prefix + "_"):
                        res.fail("make_cse:multivector-prefix", f"{got!r} for prefix {prefix!r}")
                        break
                elif not isinstance(coeff, p.Expression) and got != coeff:
                    res.fail("make_cse:multivector-constant-changed", f"{coeff!r} -> {got!r}")
                    break
    res.nontrivial = isinstance(e, p.Expression) and walk.size(e) >= 2
    res.sample = {"expr": repr(e)[:150], "prefix": prefix, "scope": scope}
    return res


CHECKS = {"tag": check_tag, "tagpre": check_tagpre, "histo": check_histo,
          "once": check_once, "helpers": check_helpers}

# {{{ generators

FRAG = S.Frag(nodes=frozenset({"Sum", "Product", "Quotient", "FloorDiv", "Remainder", "Power",
                               "Call"}),
              int_vars=("x", "y", "z", "w"), small_vars=("k", "m"), rat_vars=(), bool_vars=(),
              funcs=("f1", "f2", "h"), np_consts=False, bool_consts=False, big_consts=False,
              float_consts=(), int_consts=(1, 2, 3, 5, 7), neg_exponents=False,
              exponents=(2, 3), cse_prefixes=(None,))


def _commute(s):
    if s[0] in ("Sum", "Product") and len(s[1]) >= 2:
        return [s[0], list(reversed(s[1]))]
    return s


@st.composite
def repetitive_list(draw, wrappers=False):
    pool = [draw(S.expr("INT", draw(st.integers(1, 3)), FRAG)) for _ in range(
        draw(st.integers(1, 3)))]
    pool = [q for q in pool if q[0] not in ("Var", "Const")] or [
        ["Sum", [["Var", "x"], ["Var", "y"]]]]
    # nested repeats: a pool entry containing another one
    pool.append(["Product", [pool[0], ["Var", "z"]]])
    pool.append(["Call", ["Var", "f2"], [pool[0], draw(st.sampled_from(pool))]])

    def variant(q):
        c = draw(st.integers(0, 3))
        if c == 0:
            return _commute(q)
        if c == 1 and wrappers:
            return ["CommonSubexpression", q, draw(st.sampled_from((None, "u", "v"))),
                    draw(st.sampled_from(S.SCOPES))]
        return q

    def rec(depth):
        if depth <= 0 or draw(st.integers(0, 2)) == 0:
            return variant(draw(st.sampled_from(pool)))
        n = draw(st.sampled_from(("Sum", "Product", "Quotient", "Power", "Call", "Sum")))
        if n in ("Sum", "Product"):
            return [n, [rec(depth - 1) for _ in range(draw(st.integers(2, 3)))]]
        if n == "Power":
            return ["Power", rec(depth - 1), ["Const", "int", 2]]
        if n == "Call":
            return ["Call", ["Var", "f1"], [rec(depth - 1)]]
        return [n, rec(depth - 1), rec(depth - 1)]
    out = [rec(draw(st.integers(0, 2))) for _ in range(draw(st.integers(1, 4)))]
    if wrappers and draw(st.booleans()):
        out[0] = ["CommonSubexpression",
                  ["CommonSubexpression", out[0], "inner", "pymbolic_eval"], None,
                  "pymbolic_expr"]
    return {"exprs": out}


@st.composite
def once_case(draw):
    frag = S.EVALUABLE.but(nodes=frozenset({"Sum", "Product", "Quotient", "Power", "Call",
                                            "CommonSubexpression", "Min", "Subscript"}),
                           poison=False, np_consts=False, cse_prefixes=(None, "u", "v"))
    shared = ["CommonSubexpression", ["Call", ["Var", "cnt"], [draw(S.expr("INT", 1, frag))]],
              draw(st.sampled_from((None, "u"))), draw(st.sampled_from(S.SCOPES))]
    base = [draw(S.expr("NUM", draw(st.integers(1, 3)), frag)) for _ in range(2)]
    exprs = [["Sum", [shared, base[0], shared]], ["Product", [base[1], shared]],
             draw(S.expr("NUM", 3, frag))]
    if draw(st.booleans()):
        exprs.append(["Sum", [["CommonSubexpression", shared[1], "other", shared[3]], shared]])
    return {"exprs": exprs, "order": draw(st.lists(st.integers(0, 3), min_size=1, max_size=5)),
            "env": draw(st.integers(0, 2))}


@st.composite
def helpers_case(draw):
    frag = FRAG.but(cse_prefixes=(None, "u"))
    c = draw(st.integers(0, 5))
    if c == 0:
        ex = ["Var", "x"]
    elif c == 1:
        ex = ["Subscript", ["Var", "A"], ["Const", "int", 1]]
    elif c == 2:
        ex = ["Const", draw(st.sampled_from(("int", "float"))), 3]
    elif c == 3:
        ex = ["CommonSubexpression", draw(S.expr("INT", 2, frag)),
              draw(st.sampled_from((None, "old"))), draw(st.sampled_from(S.SCOPES))]
    else:
        ex = draw(S.expr("INT", 2, frag))
    arr = [draw(st.sampled_from([["Const", "int", 4], ["Var", "y"],
                                 draw(S.expr("INT", 1, frag)),
                                 ["CommonSubexpression", ["Var", "z"], None,
                                  "pymbolic_eval"]]))
           for _ in range(draw(st.integers(0, 3)))]
    return {"expr": ex, "prefix": draw(st.sampled_from((None, "pf", "q"))),
            "scope": draw(st.sampled_from((None,) + S.SCOPES)),
            "array": arr or None, "mv": arr[:3] if draw(st.booleans()) and arr else None}

# }}}


def generate(ctx):
    ctx.run_given(repetitive_list(False),
                  lambda s: (ctx.judge("tag", s), ctx.judge("histo", s)), ctx.n(3000, 80000))
    ctx.run_given(repetitive_list(True), lambda s: ctx.judge("tagpre", s), ctx.n(1500, 40000))
    ctx.run_given(once_case(), lambda s: ctx.judge("once", s), ctx.n(1500, 40000))
    ctx.run_given(helpers_case(), lambda s: ctx.judge("helpers", s), ctx.n(1500, 30000))


MANIFEST = {
    "text": ("Generated expression lists with engineered repetition are tagged and compared "
             "by value with the inputs; the tagged outputs are evaluated by one recording "
             "evaluator and the number of times each input operation is computed is bounded "
             "by the number of its spelling classes (once for identical or commuted "
             "repeats); no wrapper may directly contain a wrapper; the evaluator's "
             "once-per-instance guarantee is observed over evaluation sequences with a "
             "call-counting function; the wrapping helpers are checked against their "
             "documented rules, component-wise on object arrays and multivectors."),
    "note": ("Trusted: pbt/refsem.py for values, the deep-key mapping in pbt/props/c12.py; "
             "commutative exact environments."),
    "technique": "property-based testing with instrumented evaluator (handler/call counting) and value oracle",
    "design_ref": "DESIGN.md section 4, C12",
}
