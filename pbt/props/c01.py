"""C01 - structural equality, consistent hashing, immutability of expression nodes.

Oracle: ref_eq, an independent field-by-field comparator (same class, fields
equal under Python ==, recursing through tuples, mappings and expressions
itself); hashes must agree wherever ref_eq holds; fields must not be rebindable.
Sub-checks: pair, triple, frozen, hier (generated user class hierarchies),
history (interleavings of hash/compare/copy/pickle/mapper/str operations).
"""
from __future__ import annotations

import copy
import dataclasses
import pickle
from collections.abc import Mapping

import numpy as np
from hypothesis import strategies as st

import pymbolic.primitives as p
from pymbolic.mapper import CachedIdentityMapper, IdentityMapper
from pymbolic.mapper.substitutor import SubstitutionMapper, make_subst_func

from pbt import strategies as S, usertypes, walk
from pbt.refsem import exc_site
from pbt.runner import Result
from pbt.spec import (K_DTYPE, K_EXPR, K_EXPRS, K_KWMAP, K_OPTSTR, K_STR, K_STRS,
                      NODE_TABLE, HarnessError, build, is_node_spec, subspecs)

PROP = "C01"
LEVEL = "exploration"
RULE = ("Pairs/triples of trees over every expr-dataclass in pymbolic.primitives, the "
        "second derived from the first by rebuild, one-field mutation at a random path, "
        "retyping a constant (1/1.0/True), keyword reordering (immutabledict and plain "
        "dict), swapping the node class for one with the same fields, CSE wrap, or "
        "independently; generated user class hierarchies (decorated, legacy init-args, "
        "mixed, depth 1-3); histories interleaving hash, ==, dict/set look-ups, copy, "
        "deepcopy, pickle, identity/substitution mappers, str/repr and setattr/delattr "
        "attempts on one pool of objects. Non-trivial = pair whose larger tree has >=3 "
        "nodes derived by mutation/retype/class swap/kw reorder, hierarchy case with a "
        "legacy or depth>=2 class, history with a hash before and a comparison/look-up "
        "after a copy/pickle/mapper step; distinct by sha1 of the case spec.")
ASSUMPTIONS = [
    "raw float('nan') leaves are excluded (Python's own == is not reflexive there); the NaN node is covered",
    "Rational, Polynomial and MultiVector define numeric __eq__ of their own and are covered by C19/C18",
    "object.__setattr__ (the library's own back door) is not something a user of the public API does and is not attempted",
]
HEALTH = {"deprecated-spelling": 0.01, "how:mutate": 0.1, "how:retype": 0.015, "how:classswap": 0.02,
          "how:kwreorder": 0.004, "ref-equal": 0.1, "ref-unequal": 0.2}

# {{{ reference comparator


def fields_of(e):
    if dataclasses.is_dataclass(e) and "_is_expr_dataclass" in type(e).__dict__:
        return [getattr(e, f.name) for f in dataclasses.fields(e)]
    return list(e.__getinitargs__())


def ref_eq(a, b):
    ea, eb = isinstance(a, p.Expression), isinstance(b, p.Expression)
    if ea or eb:
        if type(a) is not type(b):
            return False
        fa, fb = fields_of(a), fields_of(b)
        return len(fa) == len(fb) and all(ref_eq(x, y) for x, y in zip(fa, fb))
    if isinstance(a, tuple) or isinstance(b, tuple):
        if not (isinstance(a, tuple) and isinstance(b, tuple)) or len(a) != len(b):
            return False
        return all(ref_eq(x, y) for x, y in zip(a, b))
    if isinstance(a, Mapping) or isinstance(b, Mapping):
        if not (isinstance(a, Mapping) and isinstance(b, Mapping)):
            return False
        if set(a) != set(b):
            return False
        return all(ref_eq(a[k], b[k]) for k in a)
    try:
        return bool(a == b)
    except Exception:
        return False

# }}}


def _eq_checks(res, a, b, tag=""):
    """All equality/hash obligations for one ordered pair."""
    want = ref_eq(a, b)
    res.label("ref-equal" if want else "ref-unequal")
    for name, fn, expect in (("==", lambda: a == b, want), ("!=", lambda: a != b, not want),
                             ("== (swapped)", lambda: b == a, want),
                             ("!= (swapped)", lambda: b != a, not want)):
        res.compared()
        try:
            got = fn()
        except Exception as exc:
            res.fail("comparison-raised:" + exc_site(exc),
                     f"{tag}{a!r} {name} {b!r} raised {type(exc).__name__}: {exc}")
            continue
        if bool(got) is not expect:   # numpy fields make == return numpy.bool_
            res.fail(f"eq-disagrees-with-fieldwise:{name.split()[0]}:want-{expect}",
                     f"{tag}{a!r} {name} {b!r} gave {got!r}, field-by-field comparison "
                     f"says {expect}")
    for x in (a, b):
        res.compared()
        try:
            if not (x == x) or (x != x):
                res.fail("not-reflexive", f"{tag}{x!r} == itself is False")
        except Exception as exc:
            res.fail("comparison-raised:" + exc_site(exc), f"{tag}{x!r} == itself: {exc!r}")
    if want:
        res.compared()
        try:
            ha, hb = hash(a), hash(b)
        except Exception as exc:
            res.fail("hash-raised:" + exc_site(exc), f"{tag}hash of {a!r}/{b!r}: {exc!r}")
            return want
        if ha != hb:
            res.fail("equal-but-hash-differs",
                     f"{tag}{a!r} and {b!r} are field-wise equal, hashes {ha} != {hb}")
        else:
            try:
                ok = {a: 1}.get(b) == 1 and b in {a} and a in {b: 2}
            except Exception as exc:
                res.fail("dict-lookup-raised:" + exc_site(exc), f"{tag}{exc!r}")
            else:
                if not ok:
                    res.fail("equal-key-not-found",
                             f"{tag}{b!r} does not find {a!r} in a dict/set")
    return want


# hashable non-expressions, as they meet expressions as keys of one dict
FOREIGN = (5, 5.0, "x", None, (1, 2), object())


def _foreign_checks(res, a):
    for f in FOREIGN:
        res.compared()
        try:
            if bool(a == f) or not bool(a != f) or bool(f == a):
                res.fail("equal-to-foreign-object", f"{a!r} == {f!r} is not False")
        except Exception as exc:
            res.fail("comparison-with-foreign-raised:" + exc_site(exc),
                     f"{a!r} == {f!r} raised {type(exc).__name__}: {exc}")


def _size(e):
    return walk.size(e) if isinstance(e, (p.Expression, tuple)) else 1


_CMP_CANON = {"eq": "==", "ne": "!=", "lt": "<", "le": "<=", "gt": ">", "ge": ">="}


def canon(spec):
    """The documented normal spelling of deprecated constructor forms."""
    if is_node_spec(spec):
        s = [canon(c) for c in spec]
        if s[0] == "Comparison" and s[2] in _CMP_CANON:
            s[2] = _CMP_CANON[s[2]]
        if s[0] == "CommonSubexpression" and s[3] is None:
            s[3] = "pymbolic_eval"
        if s[0] == "CallWithKwargsDict":
            s[0] = "CallWithKwargs"
        return s
    if isinstance(spec, list):
        return [canon(c) for c in spec]
    return spec


def check_pair(spec):
    """spec: {"a":..., "b":..., "how": str}"""
    res = Result()
    a, b = build(spec["a"]), build(spec["b"])
    a2 = build(spec["a"])
    res.label("how:" + spec["how"])
    if not isinstance(a, p.Expression) or not isinstance(b, p.Expression):
        return res.skip("not-an-expression")
    _eq_checks(res, a, b)
    if not ref_eq(a, a2):
        raise HarnessError("rebuilt twin is not field-wise equal")
    _eq_checks(res, a, a2, tag="[twin] ")
    _foreign_checks(res, a)
    ca = canon(spec["a"])
    if ca != spec["a"]:
        # deprecated spellings (comparison operator names, scope=None, plain
        # dict keyword arguments) are normalised at construction time
        res.label("deprecated-spelling")
        a3 = build(ca)
        res.compared()
        try:
            if not (a == a3) or not (a3 == a) or hash(a) != hash(a3):
                res.fail("deprecated-spelling-not-normalised",
                         f"{a!r} vs canonical {a3!r}")
        except Exception as exc:
            res.fail("comparison-raised:" + exc_site(exc), repr(exc))
    res.nontrivial = max(_size(a), _size(b)) >= 3 and spec["how"] in (
        "mutate", "retype", "classswap", "kwreorder")
    res.sample = {"a": repr(a)[:200], "b": repr(b)[:200], "how": spec["how"],
                  "field-wise equal": ref_eq(a, b)}
    return res


def check_triple(spec):
    res = Result()
    xs = [build(s) for s in spec["chain"]]
    if not all(isinstance(x, p.Expression) for x in xs):
        return res.skip("not-an-expression")
    a, b, c = xs
    res.compared()
    try:
        ab, bc, ac = a == b, b == c, a == c
    except Exception as exc:
        return res.fail("comparison-raised:" + exc_site(exc), repr(exc))
    if ab and bc and not ac:
        res.fail("not-transitive", f"{a!r} == {b!r} == {c!r} but first != third")
    if ab and bc:
        res.label("transitive-chain")
        if not (hash(a) == hash(b) == hash(c)):
            res.fail("equal-but-hash-differs", f"{a!r}, {b!r}, {c!r}")
    for x, y in ((a, b), (b, c), (a, c)):
        if bool(x == y) is not ref_eq(x, y):
            res.fail("eq-disagrees-with-fieldwise:==:chain",
                     f"{x!r} == {y!r} gave {x == y}, field-wise {ref_eq(x, y)}")
    res.nontrivial = ab and bc and _size(a) >= 3
    res.sample = [repr(x)[:150] for x in xs]
    return res


# {{{ immutability

def _try_mutations(res, node, field_names, what, tag=""):
    before = walk.key(node, strict=True) if isinstance(node, p.Expression) and \
        type(node).__name__ in NODE_TABLE else None
    for f in field_names:
        res.compared()
        val = getattr(node, f)
        for op, fn in (("setattr", lambda f=f, val=val: setattr(node, f, val)),
                       ("setattr-new-value", lambda f=f: setattr(node, f, 12345)),
                       ("delattr", lambda f=f: delattr(node, f))):
            try:
                fn()
            except (AttributeError, TypeError):
                continue   # FrozenInstanceError is an AttributeError
            except Exception as exc:
                res.fail(f"{what}:{op}-raised-unexpected:{type(exc).__name__}",
                         f"{tag}{op}({node!r}, {f!r}): {exc!r}")
                continue
            res.fail(f"{what}:{op}-succeeded",
                     f"{tag}{op} on field {f!r} of {type(node).__name__} did not raise")
            # undo, so later obligations see the original object
            try:
                object.__setattr__(node, f, val)
            except Exception:
                pass
    if before is not None and walk.key(node, strict=True) != before:
        res.fail(f"{what}:object-changed", f"{tag}{node!r} changed under mutation attempts")


def check_frozen(spec):
    res = Result()
    e = build(spec)
    n = 0
    for _, node in walk.occurrences(e):
        if isinstance(node, p.Expression) and dataclasses.is_dataclass(node):
            names = [f.name for f in dataclasses.fields(node)]
            _try_mutations(res, node, names, "builtin")
            res.compared()
            try:
                node.brand_new_attribute = 1
            except (AttributeError, TypeError):
                pass
            else:
                res.fail("builtin:new-attribute-accepted",
                         f"{type(node).__name__} accepted a new attribute")
            n += 1
    res.nontrivial = n >= 2
    res.sample = repr(e)[:200]
    return res

# }}}


# {{{ user hierarchies

def check_hier(spec):
    """spec: {"hier": hierarchy spec, "level": i, "vals_a": {field: expr spec},
              "vals_b": {...}, "hash_first": bool}"""
    res = Result()
    seen_undecorated = False
    has_dc = spec["hier"]["root"] != "Expression"
    for lv in spec["hier"]["levels"]:
        if lv["kind"] == "D" and seen_undecorated:
            raise HarnessError("decorated below undecorated is not a supported shape")
        if lv["kind"] == "B" and (lv["fields"] or not has_dc):
            raise HarnessError("behaviour-only level needs a decorated ancestor, no fields")
        seen_undecorated = seen_undecorated or lv["kind"] in ("L", "B")
        has_dc = has_dc or lv["kind"] == "D"
    try:
        levels = usertypes.make_hierarchy(spec["hier"])
    except Exception as exc:
        return res.fail("hierarchy-creation-raised:" + exc_site(exc),
                        f"{spec['hier']}: {type(exc).__name__}: {exc}")
    i = min(spec["level"], len(levels) - 1)
    cls, allf, kind = levels[i]
    shape = spec["hier"]["root"][0] + "".join(l["kind"] for l in spec["hier"]["levels"][:i + 1])
    res.label("shape:" + shape)

    def inst(vals):
        return usertypes.instantiate(cls, allf, {
            k: (build(v) if isinstance(v, list) else v) for k, v in vals.items()
            if k in allf})
    # instances of the ancestor classes are hashed and compared before the class under
    # test is used at all: what == and hash decide per class must not be inherited from
    # whichever class happened to be used first
    if spec.get("hash_first", True):
        for pcls, pf, _k in levels[:i]:
            try:
                usertypes.NOINIT_VALUES["serial"] = 1
                mk = lambda: usertypes.instantiate(pcls, pf, {  # noqa: E731
                    k: (build(v) if isinstance(v, list) else v)
                    for k, v in spec["vals_a"].items() if k in pf})
                anc, anc2 = mk(), mk()
                hash(anc)
                anc == anc2
                anc != anc2
            except Exception:
                pass    # judged when that level is the one under test
        if i:
            res.label("ancestor-classes-used-first")
    try:
        usertypes.NOINIT_VALUES["serial"] = 1
        a, a2 = inst(spec["vals_a"]), inst(spec["vals_a"])
        usertypes.NOINIT_VALUES["serial"] = spec.get("serial_b", 1)
        b = inst(spec["vals_b"])
        usertypes.NOINIT_VALUES["serial"] = 1
        if any(lv.get("noinit") for lv in spec["hier"]["levels"][:i + 1]):
            res.label("has-init-false-field")
    except Exception as exc:
        return res.fail("instantiation-raised:" + exc_site(exc),
                        f"{cls.__name__}: {type(exc).__name__}: {exc}")
    if spec.get("hash_first"):
        hash(a)
    _eq_checks(res, a, a2, tag="[twin] ")
    _eq_checks(res, a, b)
    _foreign_checks(res, a)
    # an instance of a sibling/parent class with the same field values is never equal
    if i > 0:
        pcls, pf, _ = levels[i - 1]
        try:
            par = usertypes.instantiate(pcls, pf, {
                k: (build(v) if isinstance(v, list) else v)
                for k, v in spec["vals_a"].items() if k in pf})
            res.compared()
            if a == par or par == a:
                res.fail("equal-across-classes",
                         f"{a!r} == instance of parent class {pcls.__name__}")
        except Exception as exc:
            res.fail("comparison-raised:" + exc_site(exc), repr(exc))
    # pickling / copying keeps the equality class and hash
    for name, fn in (("copy", copy.copy), ("deepcopy", copy.deepcopy),
                     ("pickle", lambda x: pickle.loads(pickle.dumps(x)))):
        res.compared()
        try:
            c = fn(a)
        except Exception as exc:
            res.fail(f"{name}-raised:" + exc_site(exc), f"{a!r}: {exc!r}")
            continue
        if not ref_eq(a, c) or not (a == c) or hash(a) != hash(c):
            res.fail(f"{name}-changes-equality-class", f"{a!r} -> {c!r}")
    # immutability: decorated classes for every field; legacy classes for the
    # fields inherited from a decorated ancestor
    dec_fields = []
    for c2, f2, k2 in levels[:i + 1]:
        if k2 == "D":
            dec_fields = list(f2)
    root_fields = list(usertypes.ROOTS[spec["hier"]["root"]][1])
    if kind == "B":
        pass  # handled below like a legacy class without fields of its own
    if kind == "D":
        extra_f = [f for lv in spec["hier"]["levels"][:i + 1] for f in lv.get("noinit", [])]
        _try_mutations(res, a, list(allf) + extra_f, "decorated-user-class")
        res.compared()
        try:
            a.brand_new_attribute = 1
        except (AttributeError, TypeError):
            pass
        else:
            res.fail("decorated-user-class:new-attribute-accepted", cls.__name__)
    else:
        inherited = [f for f in allf if f in dec_fields or f in root_fields]
        own = [f for f in allf if f not in inherited]
        _try_mutations(res, a, inherited, "legacy-inherited-field")
        _try_mutations(res, a, own, "legacy-own-field")
    res.nontrivial = "L" in shape or len(shape) >= 3
    res.sample = {"shape": shape, "class": cls.__name__, "a": repr(a)[:150],
                  "b": repr(b)[:150]}
    return res


def _known_legacy_mutable(sub, spec, fail):
    """F01: attributes a legacy init-args subclass adds are ordinary instance
    attributes (rebinding them succeeds)."""
    return sub == "hier" and fail.kind.startswith("legacy-own-field:")


KNOWN = {"F01": _known_legacy_mutable}

# }}}


# {{{ histories

def check_history(spec):
    """spec: {"pool": [expr specs], "ops": [[op, i, ...], ...]}"""
    res = Result()
    pool = [build(s) for s in spec["pool"]]
    if not all(isinstance(x, p.Expression) for x in pool):
        return res.skip("not-an-expression")
    keys = [walk.key(x, strict=True) for x in pool]
    first_hash = [None] * len(pool)
    recorded = {}
    seen_hash = seen_transform = seen_after = False

    def invariant(step):
        for i, x in enumerate(pool):
            if walk.key(x, strict=True) != keys[i]:
                res.fail("object-changed-during-history",
                         f"after {step}: pool[{i}] is now {x!r}")
            h = hash(x)
            if first_hash[i] is None:
                first_hash[i] = h
            elif h != first_hash[i]:
                res.fail("hash-changed-during-history", f"after {step}: pool[{i}]")
            if h != hash(build(spec["pool"][i])):
                res.fail("hash-differs-from-fresh-twin", f"after {step}: pool[{i}] {x!r}")
        for (i, j), v in recorded.items():
            if bool(pool[i] == pool[j]) is not v:
                res.fail("comparison-result-changed", f"after {step}: pool[{i}] == pool[{j}]")

    n = len(pool)
    for op in spec["ops"]:
        kind, i = op[0], op[1] % n
        x = pool[i]
        res.compared()
        try:
            if kind == "hash":
                hash(x)
                seen_hash = True
            elif kind in ("eq", "ne"):
                j = op[2] % n
                v = bool(x == pool[j])
                if v is not ref_eq(x, pool[j]):
                    res.fail("eq-disagrees-with-fieldwise:history", f"{x!r} == {pool[j]!r}: {v}")
                recorded[(i, j)] = v
                if bool(x != pool[j]) is v:
                    res.fail("ne-not-negation-of-eq", f"{x!r} vs {pool[j]!r}")
                seen_after = seen_after or seen_transform
            elif kind == "lookup":
                twin = build(spec["pool"][i])
                if {x: 1}.get(twin) != 1 or twin not in {x} or x not in {twin}:
                    res.fail("equal-key-not-found", f"twin of {x!r}")
                seen_after = seen_after or seen_transform
            elif kind in ("copy", "deepcopy", "pickle"):
                c = (copy.copy(x) if kind == "copy" else copy.deepcopy(x) if kind == "deepcopy"
                     else pickle.loads(pickle.dumps(x, op[2] % (pickle.HIGHEST_PROTOCOL + 1))))
                if not ref_eq(x, c) or not (x == c) or not (c == x) or hash(x) != hash(c):
                    res.fail(f"{kind}-changes-equality-class", f"{x!r} -> {c!r}")
                if kind == "pickle" and "_hash_value" in getattr(c, "__dict__", {}) \
                        and False:
                    pass
                seen_transform = True
            elif kind in ("identity", "cached-identity"):
                m = IdentityMapper() if kind == "identity" else CachedIdentityMapper()
                try:
                    r = m(x)
                except Exception:
                    r = None  # unsupported node types are C04's business
                if r is not None and isinstance(r, p.Expression) and ref_eq(r, x) \
                        and hash(r) != hash(x):
                    res.fail("equal-but-hash-differs", f"identity-mapped {x!r}")
                seen_transform = True
            elif kind == "subst":
                try:
                    SubstitutionMapper(make_subst_func({"x": p.Variable("y")}))(x)
                except Exception:
                    pass
                seen_transform = True
            elif kind in ("wrap-cse", "tag-cse", "flatten", "deps", "expand"):
                # helpers and mappers that take the node and hand back a related one:
                # the argument is never the thing that changes
                try:
                    if kind == "wrap-cse":
                        pre = ("tmp", "u", None)[op[2] % 3]
                        p.wrap_in_cse(x, pre)
                        p.make_common_subexpression(x, pre)
                    elif kind == "tag-cse":
                        from pymbolic.cse import tag_common_subexpressions
                        tag_common_subexpressions([x, p.Sum((x, 1)), pool[op[2] % n]])
                    elif kind == "flatten":
                        from pymbolic.mapper.flattener import flatten
                        flatten(x)
                    elif kind == "deps":
                        from pymbolic.mapper.dependency import DependencyMapper
                        DependencyMapper(include_cses=True)(x)
                    else:
                        from pymbolic.mapper.distributor import distribute
                        distribute(x)
                except Exception:
                    pass    # node types these helpers do not handle are not C01's business
                seen_transform = True
            elif kind == "str":
                try:
                    str(x)
                    repr(x)
                except Exception:
                    pass
            elif kind == "mutate":
                if dataclasses.is_dataclass(x):
                    names = [f.name for f in dataclasses.fields(x)]
                    _try_mutations(res, x, names[(op[2] % max(1, len(names))):][:1], "history")
            else:
                raise HarnessError(f"unknown op {op!r}")
        except HarnessError:
            raise
        except Exception as exc:
            res.fail(f"history-op-raised:{kind}:" + exc_site(exc),
                     f"{op} on {x!r}: {type(exc).__name__}: {exc}")
        invariant(op)
    res.nontrivial = seen_hash and seen_transform and seen_after
    res.sample = {"pool": [repr(x)[:100] for x in pool], "ops": spec["ops"][:12]}
    return res

# }}}


CHECKS = {"pair": check_pair, "triple": check_triple, "frozen": check_frozen,
          "hier": check_hier, "history": check_history}


# {{{ derivations on specs

def _paths(spec, path=()):
    """paths to node sub-specs"""
    out = [path] if is_node_spec(spec) else []
    if isinstance(spec, list):
        for i, c in enumerate(spec):
            if isinstance(c, list):
                out.extend(_paths(c, (*path, i)))
    return out


def _get(spec, path):
    for i in path:
        spec = spec[i]
    return spec


def _set(spec, path, new):
    if not path:
        return new
    out = list(spec)
    out[path[0]] = _set(spec[path[0]], path[1:], new)
    return out


SAME_SHAPE = [("Sum", "Product", "Min", "Max", "BitwiseOr", "BitwiseXor", "BitwiseAnd",
               "LogicalOr", "LogicalAnd"),
              ("Quotient", "FloorDiv", "Remainder", "Power", "LeftShift", "RightShift"),
              ("LogicalNot", "BitwiseNot"),
              ("DotWildcard", "StarWildcard", "Variable")]


@st.composite
def derive(draw, a):
    how = draw(st.sampled_from(("rebuild", "mutate", "mutate", "mutate", "retype",
                                "kwreorder", "classswap", "csewrap", "independent")))
    if how == "rebuild":
        return a, how
    if how == "independent":
        return draw(S.any_expr(draw(st.integers(0, 3)), deprecated_forms=False)), how
    paths = _paths(a)
    if how == "retype":
        cands = [pp for pp in paths if _get(a, pp)[0] == "Const"
                 and _get(a, pp)[1] in ("int", "float", "bool", "np.int64")]
        if cands:
            pp = draw(st.sampled_from(cands))
            c = _get(a, pp)
            v = c[2]
            opts = [t for t in ("int", "float", "np.int64", "np.float64") if t != c[1]]
            if v in (0, 1, True, False, 0.0, 1.0):
                opts.append("bool") if c[1] != "bool" else None
            t = draw(st.sampled_from(opts))
            nv = bool(v) if t == "bool" else (float(v) if "float" in t else int(v))
            return _set(a, pp, ["Const", t, nv]), how
        how = "mutate"
    if how == "kwreorder":
        cands = [pp for pp in paths if _get(a, pp)[0] == "CallWithKwargs"
                 and len(_get(a, pp)[3]) >= 2]
        if cands:
            pp = draw(st.sampled_from(cands))
            node = list(_get(a, pp))
            node[3] = list(reversed(node[3]))
            if draw(st.booleans()):
                node[0] = "CallWithKwargsDict"
            return _set(a, pp, node), how
        how = "mutate"
    if how == "classswap":
        cands = []
        for pp in paths:
            tag = _get(a, pp)[0]
            tag = "Variable" if tag == "Var" else tag
            for grp in SAME_SHAPE:
                if tag in grp:
                    cands.append((pp, grp, tag))
        if cands:
            pp, grp, tag = draw(st.sampled_from(cands))
            new = draw(st.sampled_from([g for g in grp if g != tag]))
            node = list(_get(a, pp))
            node[0] = new
            return _set(a, pp, node), how
        how = "mutate"
    if how == "csewrap":
        pp = draw(st.sampled_from(paths))
        node = _get(a, pp)
        if node[0] == "CommonSubexpression":
            return _set(a, pp, node[1]), how
        return _set(a, pp, ["CommonSubexpression", node,
                            draw(st.sampled_from((None, "u"))), "pymbolic_eval"]), how
    # mutate exactly one field of one node
    pp = draw(st.sampled_from(paths))
    node = list(_get(a, pp))
    tag = node[0]
    if tag in ("Var", "Variable"):
        node[1] = draw(st.sampled_from([n for n in S.NAMES if n != node[1]]))
        return _set(a, pp, node), "mutate"
    if tag == "Const":
        return _set(a, pp, ["Const", "int", draw(st.integers(5, 9))]), "mutate"
    if tag not in NODE_TABLE or not NODE_TABLE[tag][1]:
        return _set(a, pp, ["Var", "mutated"]), "mutate"
    flds = NODE_TABLE[tag][1]
    k = draw(st.integers(0, len(flds) - 1))
    kind = flds[k][1]
    cur = node[k + 1]
    if kind == K_EXPR:
        node[k + 1] = ["Var", "mutated"] if cur != ["Var", "mutated"] else ["Const", "int", 77]
    elif kind == K_EXPRS:
        c = draw(st.integers(0, 2))
        if c == 0 or not cur:
            node[k + 1] = list(cur) + [["Var", "mutated"]]
        elif c == 1:
            node[k + 1] = list(cur[:-1])
        else:
            node[k + 1] = list(reversed(cur)) if len(cur) > 1 and cur != list(
                reversed(cur)) else list(cur) + [["Const", "int", 0]]
        if tag == "Substitution":
            node[2] = (list(node[2]) + ["x", "y", "z"])[:len(node[3])]
    elif kind == K_STR:
        if tag == "Comparison":
            node[k + 1] = draw(st.sampled_from([o for o in S.CMP_OPS if o != cur]))
        elif tag == "CommonSubexpression":
            node[k + 1] = draw(st.sampled_from([o for o in S.SCOPES if o != cur]))
        else:
            node[k + 1] = cur + "_m"
    elif kind == K_OPTSTR:
        node[k + 1] = "pfx" if cur is None else None
    elif kind == K_STRS:
        node[k + 1] = list(cur) + ["m"]
        if tag == "Substitution":
            node[3] = list(node[3]) + [["Var", "mutated"]]
    elif kind == K_KWMAP:
        c = draw(st.integers(0, 1))
        if c == 0:
            node[k + 1] = [[kk + "_m" if i == 0 else kk, v] for i, (kk, v) in enumerate(cur)]
        else:
            node[k + 1] = [[kk, ["Var", "mutated"] if i == 0 else v]
                           for i, (kk, v) in enumerate(cur)]
    elif kind == K_DTYPE:
        node[k + 1] = draw(st.sampled_from([o for o in (None, "float", "np.float64")
                                            if o != cur]))
    return _set(a, pp, node), "mutate"


@st.composite
def pair_case(draw):
    a = draw(S.any_expr(draw(st.integers(0, 4)), deprecated_forms=True))
    c = draw(st.integers(0, 11))
    if c == 0:    # make sure keyword mappings and retypable constants are frequent
        a = [draw(st.sampled_from(("CallWithKwargs", "CallWithKwargsDict"))), ["Var", "f"], [a],
             [["k", draw(S.any_expr(1))], ["j", draw(S.any_expr(1))]]]
    elif c == 1:
        a = [draw(st.sampled_from(("Sum", "Product", "Min"))),
             [a, ["Const", draw(st.sampled_from(("int", "float", "bool"))),
                  draw(st.sampled_from((0, 1)))]]]
    if c == 0 and draw(st.booleans()):
        # the keyword mapping written in the other order (reversed insertion order, or
        # handed over as a plain dict): an equal node
        node = list(a)
        node[3] = list(reversed(node[3]))
        node[0] = draw(st.sampled_from(("CallWithKwargs", "CallWithKwargsDict")))
        return {"a": a, "b": node, "how": "kwreorder"}
    b, how = draw(derive(a))
    return {"a": a, "b": b, "how": how}


@st.composite
def triple_case(draw):
    a = draw(S.any_expr(draw(st.integers(0, 3))))
    b, _ = draw(derive(a))
    c, _ = draw(derive(b))
    return {"chain": [a, b, c]}


FIELD_POOL = ("extra", "tag", "weight", "other")


@st.composite
def hier_case(draw):
    root = draw(st.sampled_from(("Expression", "Variable", "Call", "Lookup")))
    depth = draw(st.integers(1, 3))
    levels = []
    used = set()
    for _ in range(depth):
        kind = draw(st.sampled_from(("D", "D", "L", "B")))
        if levels and levels[-1]["kind"] in ("L", "B"):
            # a decorated class below an undecorated one is not a supported shape
            kind = draw(st.sampled_from(("L", "B")))
        if kind == "B" and root == "Expression" and not any(
                lv["kind"] == "D" for lv in levels):
            kind = "L" if levels else "D"      # behaviour-only subclasses need a decorated ancestor
        nf = 0 if kind == "B" else draw(st.integers(0, 2))
        flds = [f for f in draw(st.permutations(FIELD_POOL)) if f not in used][:nf]
        used.update(flds)
        lvl = {"kind": kind, "fields": flds, "mapper_method": None}
        if kind == "D" and draw(st.integers(0, 4)) == 0:
            lvl["noinit"] = ["serial"] if "serial" not in used else []
            used.add("serial")
        if kind == "D" and root == "Expression" and not levels and draw(
                st.integers(0, 4)) == 0:
            lvl["init"] = False
        levels.append(lvl)
    hier = {"root": root, "levels": levels,
            "tag": draw(st.sampled_from(("MyNode", "HTTPNode2D", "ABCFoo", "Tagged")))}
    allf = list(usertypes.ROOTS[root][1]) + [f for lv in levels for f in lv["fields"]]

    def vals():
        out = {}
        for f in allf:
            if f == "name":
                out[f] = draw(st.sampled_from(("nm", "other_nm")))
            elif f == "parameters":
                continue
            else:
                out[f] = draw(S.any_expr(1, wild=False))
        return out
    va = vals()
    vb = dict(va)
    c = draw(st.integers(0, 3))
    if c and allf:
        f = draw(st.sampled_from(allf))
        if f == "name":
            vb[f] = va[f] + "_2"
        elif f != "parameters":
            vb[f] = ["Var", "changed"]
    return {"hier": hier, "level": draw(st.integers(0, depth - 1)), "vals_a": va,
            "vals_b": vb, "hash_first": draw(st.booleans()),
            "serial_b": draw(st.sampled_from((1, 1, 2)))}


OPS = ("hash", "eq", "ne", "lookup", "copy", "deepcopy", "pickle", "identity",
       "cached-identity", "subst", "str", "mutate", "wrap-cse", "tag-cse", "flatten",
       "deps", "expand")


@st.composite
def history_case(draw):
    base = draw(S.any_expr(draw(st.integers(1, 3))))
    if draw(st.integers(0, 4)) == 0:
        # wrappers (unnamed / named) are what the CSE helpers look at most closely
        base = ["CommonSubexpression", base, draw(st.sampled_from((None, None, "u"))),
                draw(st.sampled_from(S.SCOPES))]
    pool = [base, base]
    for _ in range(draw(st.integers(0, 2))):
        b, _ = draw(derive(base))
        pool.append(b)
    ops = [[draw(st.sampled_from(OPS)), draw(st.integers(0, 5)), draw(st.integers(0, 5))]
           for _ in range(draw(st.integers(3, 25)))]
    return {"pool": pool, "ops": ops}

# }}}


def generate(ctx):
    ctx.run_given(pair_case(), lambda s: ctx.judge("pair", s), ctx.n(5000, 150000))
    ctx.run_given(triple_case(), lambda s: ctx.judge("triple", s), ctx.n(1500, 30000))
    ctx.run_given(S.any_expr(3, deprecated_forms=True),
                  lambda s: ctx.judge("frozen", s), ctx.n(800, 8000))
    ctx.run_given(hier_case(), lambda s: ctx.judge("hier", s), ctx.n(1500, 20000))
    ctx.run_given(history_case(), lambda s: ctx.judge("history", s), ctx.n(1200, 20000))


MANIFEST = {
    "text": ("Generated pairs, triples, user class hierarchies and operation histories "
             "checked against an independent field-by-field comparator: == must coincide "
             "with it for every node class and every single-field mutation, equal objects "
             "must hash equal and find each other in dicts/sets, equality must be an "
             "equivalence, every field assignment/deletion must raise, and no interleaving "
             "of hashing, copying, pickling, mapping and printing may change an object's "
             "key or hash."),
    "note": ("Trusted: ref_eq in pbt/props/c01.py and pbt/walk.py keys; classes are read "
             "by dataclasses.fields()/__getinitargs__ introspection; default interpreter "
             "mode (no -O)."),
    "technique": "property-based testing with mutation-derived pairs, generated class hierarchies and operation histories vs a field-wise reference comparator",
    "design_ref": "DESIGN.md section 4, C01",
}
