"""C17 - pickles and persistent hash keys are stable across interpreter processes.

Every case really crosses a process boundary: long-lived worker interpreters
(pbt/xproc_worker.py), each started with its own PYTHONHASHSEED and with or
without -O, are fed JSON case specs over pipes.

  producer worker   builds the object from the spec, performs the prescribed
                    pre-operations (hash / compare / dict insertion / str / digest /
                    pickle once before / pickle round trip / copy), nests it in a
                    container, pickles with the given protocol; reports the bytes,
                    whether the root really carried a cached hash when pickled, its
                    hash and its persistent digests (object, rebuilt twin, twin with
                    keyword arguments in another insertion order)
  consumer worker   (other hash seed and/or -O) builds the same spec locally,
                    unpickles; reports: cached hash / foreign attributes present in
                    any unpickled node before anything hashes, field-wise equality,
                    remote == local, local == remote, !=, hash(remote) == hash(local),
                    {local: 1}.get(remote), remote in {local}, local in {remote},
                    look-ups of the local object in an unpickled dict/set keyed by
                    the remote one, its own digests of both
  parent (here)     demands all of those, and digest(producer) == digest(consumer)
                    for both digest channels (PersistentHashWalkMapper over sha256 and
                    pytools.persistent_dict.KeyBuilder), digest equality for equal
                    in-process twins; for compiled expressions: unpickled callable,
                    consumer-compiled callable and the producer's callable agree on
                    the box inputs.

Sub-checks: expr (trees over every node class), user (generated decorated /
legacy / mixed user classes, also embedded in built-in nodes), compiled
(pymbolic.compile), numeric (the library's own legacy node types Polynomial,
Rational and the hashable MultiVector).
"""
from __future__ import annotations

import atexit
import json
import os
import select
import subprocess
import sys
import time
from collections import OrderedDict

from hypothesis import strategies as st

from pbt import strategies as S, usertypes, xproc_worker as X
from pbt.runner import VERIF, Result
from pbt.spec import HarnessError, spec_size, subspecs

PROP = "C17"
LEVEL = "exploration"
RULE = ("Hypothesis-generated trees over every node class in pymbolic.primitives "
        "(string-bearing nodes forced frequent: variable / look-up / wildcard names, CSE "
        "prefixes and scopes, keyword names, derivative / substitution variable names, "
        "comparison operators, non-ASCII names; deprecated constructor spellings), "
        "instances of generated user classes (decorated, legacy init-args, mixed, depth "
        "1-3; bare or embedded in Sum / Call / CallWithKwargs / Subscript), compiled "
        "expressions (random listed-variable order, 2-4 argument environments) and the "
        "library's legacy number-like nodes (sparse Polynomial with symbolic coefficients, "
        "Rational of ints / integer polynomials, MultiVector over 1-3 dimensions with the "
        "shared or an own Space); x a generated list of pre-pickle operations (hash, ==, dict "
        "insertion, str, repr, persistent digest, pickle-and-discard, pickle round trip, "
        "copy) x container nesting (bare, tuple, list, dict value, dict key, set, same "
        "object twice, nested) x pickle protocol 0-5 x order of the consumer's "
        "compare/hash/look-up x ordered pair of worker interpreters out of four per shard "
        "(PYTHONHASHSEED 0, 1 and two seed-derived values; with and without -O; pairs "
        "differ in seed only, -O only, or both). Non-trivial = the object contains a "
        "string-bearing node, its root carried a cached hash in the producer when it was "
        "pickled, and the two processes hash it differently (compiled: >= 2 arguments "
        "with a listed order; numeric: symbolic part and >= 1 pre-operation); distinct by "
        "sha1 of the case spec.")
ASSUMPTIONS = [
    "digest equality is demanded for strictly structurally equal objects (same spec, same "
    "constant types) and for twins differing only in keyword insertion order / dict "
    "spelling; that unequal expressions get different digests is not demanded",
    "pytools.persistent_dict.KeyBuilder is observed as a second digest channel when it imports",
    "a fixed small set of (hash seed, -O) worker pairs per shard is explored, not all",
    "worker trouble (start-up, time-out, protocol) is a harness error, never a violation",
    "printing (str) is only performed as a pre-operation; its result is not judged here",
    "a cached hash (_hash_value, memoized __hash__) found in an unpickled node before anything "
    "hashed it in the consumer is taken as leaked process-local state, the mechanism the "
    "property names, even where the value happens to be numerically right",
    "Polynomial, Rational and MultiVector count as node types of this property (Expression "
    "subclasses with mapper methods / documented as pickleable); hash obligations apply to "
    "the hashable one (MultiVector) only",
]
HEALTH = {"hash-before-pickle": 0.45, "string-bearing": 0.6, "hash-seed-sensitive": 0.45,
          "kwcall>=2": 0.03, "opt-differs": 0.3, "seed-differs": 0.5,
          "digest:walk": 0.3, "digest:kb": 0.3, "user:legacy": 0.03,
          "compiled:listed-unsorted": 0.01, "pre:roundtrip": 0.03, "nest:dictkey": 0.03,
          "kind:compiled": 0.04, "kind:numeric": 0.02, "user": 0.1,
          "numeric:MultiVector": 0.008, "numeric:Polynomial": 0.005}
CASE_TIMEOUT_S = 90
TIMEOUT_IS_FAIL = False
BUDGET_S = {"quick": 300, "thorough": 3000}

MAX_LIVE = 4                 # live worker interpreters per (shard) process
START_TIMEOUT_S = 90.0
REQUEST_TIMEOUT_S = 45.0


# {{{ worker interpreters

class _Trouble(Exception):
    pass


class _Worker:
    def __init__(self, cfg):
        self.cfg = cfg
        hashseed, opt = cfg
        env = dict(os.environ)
        env["PYTHONHASHSEED"] = str(hashseed)
        env.pop("PYTHONOPTIMIZE", None)
        env["PYTHONDONTWRITEBYTECODE"] = "1"
        # children import what this process imports: PYMBOLIC_SRC (if any) stays
        # first, /verif must be there for the pbt package
        path = [q for q in env.get("PYTHONPATH", "").split(":") if q]
        if VERIF not in path:
            path.append(VERIF)
        env["PYTHONPATH"] = ":".join(path)
        cmd = [sys.executable, "-W", "ignore"] + (["-O"] if opt else []) + [
            "-m", "pbt.xproc_worker"]
        self.proc = subprocess.Popen(cmd, stdin=subprocess.PIPE, stdout=subprocess.PIPE,
                                     env=env, cwd=VERIF, close_fds=True, bufsize=0)
        self.rfd = self.proc.stdout.fileno()
        self.wfd = self.proc.stdin.fileno()
        self.buf = b""
        try:
            hello = json.loads(self._readline(START_TIMEOUT_S))
        except (_Trouble, ValueError) as exc:
            self.kill()
            raise _Trouble(f"start-up failed: {exc}") from None
        except BaseException:
            self.kill()
            raise
        if not hello.get("ready"):
            self.kill()
            raise _Trouble("worker could not initialise:\n" + str(hello.get("error")))
        if hello.get("opt") is not bool(opt) or hello.get("hashseed") != str(hashseed):
            self.kill()
            raise _Trouble(f"worker runs with {hello}, wanted {cfg}")
        self.hello = hello

    def _readline(self, timeout):
        deadline = time.monotonic() + timeout
        while b"\n" not in self.buf:
            left = deadline - time.monotonic()
            if left <= 0:
                raise _Trouble(f"no answer within {timeout:.0f}s")
            ready, _, _ = select.select([self.rfd], [], [], min(left, 5.0))
            if not ready:
                if self.proc.poll() is not None:
                    raise _Trouble(f"worker exited with status {self.proc.returncode}")
                continue
            chunk = os.read(self.rfd, 1 << 16)
            if not chunk:
                raise _Trouble(f"worker closed its pipe (status {self.proc.poll()})")
            self.buf += chunk
        line, self.buf = self.buf.split(b"\n", 1)
        return line

    def request(self, req):
        """One request, one answer.  Any interruption (including the runner's
        per-case alarm) leaves the pipe out of step, so the worker is killed."""
        try:
            data = json.dumps(req).encode() + b"\n"
            view = memoryview(data)
            while view:
                n = os.write(self.wfd, view)
                view = view[n:]
            return json.loads(self._readline(REQUEST_TIMEOUT_S))
        except BaseException:
            self.kill()
            raise

    def quit(self):
        try:
            os.write(self.wfd, b'{"op": "quit"}\n')
        except OSError:
            pass
        self._close()
        try:
            self.proc.wait(timeout=3)
        except Exception:
            self.kill()

    def _close(self):
        for f in (self.proc.stdin, self.proc.stdout):
            try:
                f.close()
            except Exception:
                pass

    def kill(self):
        try:
            self.proc.kill()
        except Exception:
            pass
        self._close()
        try:
            self.proc.wait(timeout=10)      # reap: no zombies
        except Exception:
            pass

    def abandon(self):
        """In a forked child: the parent's worker is not ours to talk to."""
        self._close()


_POOL = {"pid": None, "workers": OrderedDict(), "atexit": False}


def shutdown_workers():
    if _POOL["pid"] != os.getpid():
        return
    for w in list(_POOL["workers"].values()):
        w.quit()
    _POOL["workers"].clear()


def _worker(cfg):
    if _POOL["pid"] != os.getpid():
        for w in _POOL["workers"].values():
            w.abandon()
        _POOL["workers"] = OrderedDict()
        _POOL["pid"] = os.getpid()
        atexit.register(shutdown_workers)
    ws = _POOL["workers"]
    w = ws.get(cfg)
    if w is not None and w.proc.poll() is not None:
        w.kill()
        del ws[cfg]
        w = None
    if w is None:
        while len(ws) >= MAX_LIVE:
            _, old = ws.popitem(last=False)
            old.quit()
        last = None
        for _attempt in range(2):
            try:
                w = _Worker(cfg)
                break
            except _Trouble as exc:
                last = exc
        else:
            raise HarnessError(f"C17 worker {cfg}: {last}")
        ws[cfg] = w
    ws.move_to_end(cfg)
    return w


def _ask(cfg, req):
    w = _worker(cfg)
    try:
        return w.request(req)
    except (_Trouble, OSError, ValueError) as exc:
        _POOL["workers"].pop(cfg, None)
        raise HarnessError(f"C17 worker {cfg}: {exc}") from None
    except BaseException:
        _POOL["workers"].pop(cfg, None)
        raise

# }}}


# {{{ the check

def _cfg(d):
    if not isinstance(d, dict) or not isinstance(d.get("hashseed"), int) \
            or isinstance(d.get("hashseed"), bool) \
            or not 0 <= d["hashseed"] <= 4294967295 or not isinstance(d.get("opt"), bool):
        raise HarnessError(f"bad process configuration {d!r}")
    return (d["hashseed"], d["opt"])


def _validate(spec, want):
    kind = X.case_kind(spec)
    if kind != want:
        raise HarnessError(f"sub-check {want} got a {kind} case")
    ops = spec.get("pre_ops")
    if not isinstance(ops, list) or any(o not in X.PRE_OPS for o in ops):
        raise HarnessError(f"bad pre_ops {ops!r}")
    if spec.get("nest") not in X.NESTS:
        raise HarnessError(f"bad nest {spec.get('nest')!r}")
    pr = spec.get("protocol")
    if not isinstance(pr, int) or isinstance(pr, bool) or not 0 <= pr <= 5:
        raise HarnessError(f"bad protocol {pr!r}")
    if not isinstance(spec.get("post_order", 0), int):
        raise HarnessError("bad post_order")
    if kind == "hier":
        h = spec["hier"]
        if not isinstance(h, dict) or h.get("root") not in usertypes.ROOTS \
                or not isinstance(h.get("levels"), list) or not h["levels"] \
                or not isinstance(spec.get("vals"), dict) \
                or not isinstance(spec.get("level", 0), int) \
                or spec.get("embed") not in X.EMBEDS:
            raise HarnessError("bad user-class case")
        seen_l = False
        for lv in h["levels"]:
            if not isinstance(lv, dict) or lv.get("kind") not in ("D", "L", "B") \
                    or not isinstance(lv.get("fields"), list):
                raise HarnessError("bad hierarchy level")
            if lv["kind"] == "D" and seen_l:
                raise HarnessError("decorated below legacy is not a supported shape")
            seen_l = seen_l or lv["kind"] in ("L", "B")
            if lv["kind"] == "B" and (lv["fields"] or (
                    h["root"] == "Expression" and not any(
                        q.get("kind") == "D" for q in h["levels"][:h["levels"].index(lv)]))):
                raise HarnessError("behaviour-only level needs a decorated ancestor, no fields")
    if kind == "numeric":
        if spec.get("nest") in ("dictkey", "set"):
            raise HarnessError("number types are not used as keys here")
    if kind == "compiled":
        c = spec["compiled"]
        if not isinstance(c, dict) or not isinstance(c.get("listed"), list) \
                or not isinstance(c.get("envs"), list) or "expr" not in c \
                or any(not isinstance(l, list) or len(l) != 2 for l in c["listed"]):
            raise HarnessError("bad compiled case")
        if spec.get("nest") in ("dictkey", "set"):
            raise HarnessError("compiled expressions are not used as keys")
        order = X.compiled_arg_order(c)
        for env in c["envs"]:
            if not isinstance(env, dict) or any(n not in env for n in order):
                raise HarnessError("environment does not bind every argument")
    pc, cc = _cfg(spec.get("producer")), _cfg(spec.get("consumer"))
    if pc == cc:
        raise HarnessError("producer and consumer must differ in PYTHONHASHSEED or -O")
    return kind, pc, cc


STRING_TAGS = {"Var", "Variable", "Lookup", "DotWildcard", "StarWildcard", "Comparison",
               "Derivative", "Substitution", "CallWithKwargs", "CallWithKwargsDict",
               "CommonSubexpression"}


def _string_bearing(spec, kind):
    if kind == "hier":
        return True     # embeddings add variables; names/fields hold strings or trees
    ex = spec["expr"] if kind == "expr" else (
        spec["numeric"] if kind == "numeric" else spec["compiled"]["expr"])
    return any(s[0] in STRING_TAGS for s in subspecs(ex))


def _bad_answer(res, role, ans):
    """Turn a worker's {"ok": false} into a verdict; True if the case is over."""
    if ans.get("ok"):
        return False
    stage = ans.get("stage")
    if stage == "recursion":
        res.skip("recursion limit")
        return True
    if ans.get("harness") or (stage in ("build", "worker") and "@?" in ans.get("site", "")):
        raise HarnessError(f"{role} {stage}: {ans.get('etype')}: {ans.get('msg')}\n"
                           f"{ans.get('tb', '')}")
    res.fail(f"{stage}-raised:{ans['site']}",
             f"{role} ({stage}): {ans['etype']}: {ans['msg']}\n{ans.get('tb', '')[-500:]}")
    return True


def _localize(spec, pc, cc, channel):
    """Tag of the smallest sub-tree whose digest differs between the processes."""
    if "expr" not in spec:
        return "user-class-instance" if "hier" in spec else "numeric"
    a = _ask(pc, {"op": "subdigests", "case": spec}).get("subs", [])
    b = _ask(cc, {"op": "subdigests", "case": spec}).get("subs", [])
    subs = subspecs(spec["expr"])
    best = None
    for s, (ta, da), (tb, db) in zip(subs, a, b):
        if da is None or db is None:
            continue
        if da[channel][0] == "ok" and db[channel][0] == "ok" and da[channel] != db[channel]:
            if best is None or spec_size(s) < best[0]:
                best = (spec_size(s), ta)
    return best[1] if best else "?"


def _check(spec, want):
    kind, pc, cc = _validate(spec, want)
    res = Result()
    P = _ask(pc, {"op": "produce", "case": spec})
    if _bad_answer(res, "producer", P):
        return res
    C = _ask(cc, {"op": "consume", "case": spec, "pickle": P["pickle"]})
    # -- classification
    res.label("kind:" + kind, f"proto:{spec['protocol']}", f"nest:{spec.get('nest')}")
    for op in sorted(set(spec["pre_ops"])):
        res.label("pre:" + op)
    if pc[0] != cc[0]:
        res.label("seed-differs")
    if pc[1] != cc[1]:
        res.label("opt-differs", "opt:producer" if pc[1] else "opt:consumer")
    strings = _string_bearing(spec, kind)
    if strings:
        res.label("string-bearing")
    if P.get("hashed"):
        res.label("hash-before-pickle")
    if kind == "expr":
        for t in {s[0] for s in subspecs(spec["expr"])}:
            res.label("node:" + t)
        if X.n_kw_reorderable(spec["expr"]):
            res.label("kwcall>=2")
        if spec.get("shared"):
            res.label("shared-subtrees")
    elif kind == "hier":
        shape = spec["hier"]["root"] + ":" + "".join(
            lv["kind"] for lv in spec["hier"]["levels"][:spec.get("level", 0) + 1])
        res.label("user", "user-shape:" + shape, f"user-embed:{spec.get('embed')}")
        if "L" in shape:
            res.label("user:legacy")
    elif kind == "numeric":
        res.label("numeric:" + str(spec["numeric"][0]))
    for pe in P.get("pre_errors", ()):
        res.fail(f"pre-op-raised:{pe[0]}:{pe[1]}", f"producer pre-operation {pe}")
    if _bad_answer(res, "consumer", C):
        return res
    if P.get("hash") is not None and C.get("hash_local") is not None \
            and P["hash"] != C["hash_local"]:
        res.label("hash-seed-sensitive")
    where = f"[{pc} -> {cc}, protocol {spec['protocol']}] "

    def demand(key, bucket, text):
        v = C.get(key)
        if v is None:
            return
        res.compared()
        if isinstance(v, dict):
            res.fail(f"consumer-op-raised:{key}:{v['raised']}", where + f"{text}: {v}")
        elif v is not True:
            res.fail(bucket, where + text + f" (observed {v!r})")

    res.compared()
    if not C.get("same_type"):
        res.fail("unpickled-type-differs", where + "type(unpickled) is not type(local)")
    if kind == "compiled":
        res.compared(2)
        if C["results_remote"] != P["results"]:
            res.fail("compiled-unpickled-disagrees-with-producer",
                     where + f"producer's callable: {P['results']}, unpickled: "
                     f"{C['results_remote']} on {spec['compiled']['envs']}")
        if C["results_local"] != P["results"]:
            res.fail("compiled-differs-across-processes",
                     where + f"producer's callable: {P['results']}, compiled from source "
                     f"in the consumer: {C['results_local']}")
        listed = [n for _, n in spec["compiled"]["listed"]]
        order = X.compiled_arg_order(spec["compiled"])
        if listed != sorted(listed):
            res.label("compiled:listed-unsorted")
        res.nontrivial = len(order) >= 2 and bool(listed) and bool(spec["compiled"]["envs"])
        res.sample = {"compiled": repr(spec["compiled"]["expr"])[:200], "listed": listed,
                      "results": P["results"][:3], "producer": list(pc), "consumer": list(cc)}
        return res
    if C.get("stale"):
        res.fail("stale-hash-after-unpickle",
                 where + f"unpickled nodes carry a cached hash (_hash_value / memoized "
                 f"__hash__) before anything hashed them: {C['stale']}")
    res.compared()
    if C.get("shape_equal") is False:
        res.fail("unpickled-instance-dict-differs",
                 where + f"attributes of unpickled vs locally built nodes: {C['shape_diff']}")
    demand("ref_eq", "unpickled-not-fieldwise-equal",
           "unpickled object is not field-by-field equal to the locally built one")
    demand("eq_rl", "unpickled-not-equal-to-local", "unpickled == local is False")
    demand("eq_lr", "unpickled-not-equal-to-local", "local == unpickled is False")
    if C.get("ne_rl") is True:
        res.fail("unpickled-not-equal-to-local", where + "unpickled != local is True")
    elif isinstance(C.get("ne_rl"), dict):
        res.fail(f"consumer-op-raised:ne:{C['ne_rl']['raised']}", where + str(C["ne_rl"]))
    demand("hash_eq", "unpickled-hash-differs-from-local",
           "hash(unpickled) != hash(local) in the consumer")
    demand("dict_get", "unpickled-not-found-in-dict", "{local: 1}.get(unpickled) misses")
    demand("in_set", "unpickled-not-found-in-dict", "unpickled in {local} is False")
    demand("rev_in_set", "unpickled-not-found-in-dict", "local in {unpickled} is False")
    demand("container", "local-not-found-in-unpickled-container",
           "the locally built object does not find its unpickled twin as a key of the "
           "unpickled dict/set")
    # -- persistent digests
    for ch in X.CHANNELS:
        dp, dl, dr = P["digests"][ch], C["digests_local"][ch], C["digests_remote"][ch]
        tw = P["twin_digests"][ch]
        for who, d in (("producer", dp), ("consumer", dl), ("consumer/unpickled", dr),
                       ("producer/twin", tw)):
            if d[0] == "raised":
                res.fail(f"digest-raised:{ch}:{d[1]}", where + f"{who}: {d}")
        if dp[0] == "ok":
            res.label("digest:" + ch)
        if {dp[0], dl[0]} == {"ok", "unsupported"}:
            res.fail(f"digest-support-differs-across-processes:{ch}",
                     where + f"producer {dp}, consumer {dl}")
        if dp[0] == dl[0] == "ok":
            res.compared()
            if dp[1] != dl[1]:
                res.fail(f"digest-differs-across-processes:{ch}:"
                         + _localize(spec, pc, cc, ch),
                         where + f"same spec built in both processes: producer {dp[1]}, "
                         f"consumer {dl[1]}")
        if dl[0] == dr[0] == "ok":
            res.compared()
            if dl[1] != dr[1]:
                res.fail(f"digest-differs-after-unpickle:{ch}",
                         where + f"consumer: locally built {dl[1]}, unpickled {dr[1]}")
        elif {dl[0], dr[0]} == {"ok", "unsupported"}:
            res.fail(f"digest-differs-after-unpickle:{ch}", where + f"{dl} vs {dr}")
        if dp[0] == tw[0] == "ok":
            res.compared()
            if dp[1] != tw[1]:
                res.fail(f"digest-differs-for-rebuilt-twin:{ch}",
                         where + f"two builds of one spec in one process: {dp[1]} / {tw[1]}")
        if ch == "walk" and "np_twin_digests" in P:
            nt = P["np_twin_digests"][ch]
            res.label("digest:numpy-normalised-twin")
            if dp[0] == nt[0] == "ok":
                res.compared()
                if dp[1] != nt[1]:
                    res.fail(f"digest-differs-numpy-vs-python-constants:{ch}",
                             where + "equal expressions (numpy scalars replaced by the "
                             f"Python numbers of the same value): {dp[1]} / {nt[1]}")
            elif nt[0] == "raised":
                res.fail(f"digest-raised:{ch}:{nt[1]}", where + f"numpy-normalised twin: {nt}")
        if "kw_digests" in P:
            kw = P["kw_digests"][ch]
            if not P.get("kw_twin_equal"):
                res.fail("kwarg-reordered-twin-unequal",
                         where + "the twin with reversed keyword insertion order is not "
                         "== / hash-equal to the original in the producer")
            elif dp[0] == kw[0] == "ok":
                res.compared()
                if dp[1] != kw[1]:
                    res.fail(f"digest-differs-kwarg-order:{ch}",
                             where + f"equal expressions (keyword arguments in another "
                             f"insertion order): {dp[1]} / {kw[1]}")
            elif kw[0] == "raised":
                res.fail(f"digest-raised:{ch}:{kw[1]}", where + f"kw twin: {kw}")
    res.nontrivial = bool(strings and P.get("hashed") and P.get("hash") != C.get("hash_local"))
    if kind == "numeric":
        res.nontrivial = bool(strings and spec["pre_ops"])
    res.sample = {"case": repr(spec.get("expr", spec.get("hier", spec.get("numeric"))))[:260],
                  "pre_ops": spec["pre_ops"], "nest": spec.get("nest"),
                  "protocol": spec["protocol"], "producer": list(pc), "consumer": list(cc),
                  "hashes (producer, consumer)": [P.get("hash"), C.get("hash_local")]}
    return res


def check_expr(spec):
    return _check(spec, "expr")


def check_user(spec):
    return _check(spec, "hier")


def check_compiled(spec):
    return _check(spec, "compiled")


def check_numeric(spec):
    return _check(spec, "numeric")


CHECKS = {"expr": check_expr, "user": check_user, "compiled": check_compiled,
          "numeric": check_numeric}

# }}}


# {{{ known findings

def _known_f20(sub, spec, fail):
    """F20: PersistentHashWalkMapper walks keyword arguments in insertion order
    (and never digests their names): equal CallWithKwargs, different keys."""
    return (sub == "expr" and fail.kind == "digest-differs-kwarg-order:walk"
            and X.n_kw_reorderable(spec.get("expr")) >= 1)


def _numeric_tags(spec):
    out = set()

    def rec(x):
        if isinstance(x, list):
            if x and x[0] in ("Polynomial", "Rational", "MultiVector"):
                out.add(x[0])
            for c in x:
                rec(c)
    rec(spec.get("numeric"))
    return out


def _known_legacy_unpickle(sub, spec, fail):
    """Polynomial and Rational inherit Expression.__setstate__, which needs
    init_arg_names; neither class defines it: they pickle but never unpickle
    (copy.copy fails the same way)."""
    return (sub == "numeric" and _numeric_tags(spec) & {"Polynomial", "Rational"}
            and "MultiVector" not in _numeric_tags(spec)
            and fail.kind.endswith("NotImplementedError@primitives.py:init_arg_names"))


def _known_mv_memo(sub, spec, fail):
    """MultiVector.__hash__ is memoized in the instance dict, which is the
    pickled state."""
    return (sub == "numeric" and _numeric_tags(spec) == {"MultiVector"}
            and fail.kind == "stale-hash-after-unpickle")


def _known_mv_space(sub, spec, fail):
    """MultiVector.__hash__ mixes in hash(space); Space has identity hash while
    MultiVector.__eq__ ignores the space: an unpickled multivector (fresh Space
    object) is == the local one and hashes differently."""
    return (sub == "numeric" and _numeric_tags(spec) == {"MultiVector"}
            and fail.kind in ("unpickled-hash-differs-from-local",
                              "unpickled-not-found-in-dict"))


KNOWN = {"F20": _known_f20, "F-C17-legacy-unpickle": _known_legacy_unpickle,
         "F-C17-mv-memo": _known_mv_memo, "F-C17-mv-space": _known_mv_space}

# }}}


# {{{ generation

STR_NAMES = ("x", "y", "z", "f", "a_b", "name", "alpha_beta_gamma_delta", "λ",
             "äö_1", "X", "x1")
PREFIXES = ("u", "tmp", "cse_μ")


@st.composite
def expr_tree(draw):
    ex = draw(S.any_expr(draw(st.integers(0, 4)), deprecated_forms=True))
    sm = lambda: draw(S.any_expr(draw(st.integers(0, 1))))  # noqa: E731
    nm = lambda: draw(st.sampled_from(STR_NAMES))  # noqa: E731
    c = draw(st.integers(0, 15))
    if c == 0:
        keys = draw(st.lists(st.sampled_from(("k", "j", "kw", "κ", "zz")), min_size=2,
                             max_size=4, unique=True))
        ex = [draw(st.sampled_from(("CallWithKwargs", "CallWithKwargsDict"))),
              ["Var", nm()], [ex], [[k, sm()] for k in keys]]
    elif c == 1:
        ex = ["Lookup", ex, nm()]
    elif c == 2:
        ex = ["CommonSubexpression", ex, draw(st.sampled_from(PREFIXES)),
              draw(st.sampled_from(S.SCOPES))]
    elif c == 3:
        ex = ["Derivative", ex, draw(st.lists(st.sampled_from(STR_NAMES), min_size=1,
                                              max_size=3))]
    elif c == 4:
        vs = draw(st.lists(st.sampled_from(STR_NAMES), min_size=1, max_size=3, unique=True))
        ex = ["Substitution", ex, vs, [sm() for _ in vs]]
    elif c == 5:
        ex = ["Comparison", ex, draw(st.sampled_from(S.CMP_OPS + S.CMP_NAMES)), ["Var", nm()]]
    elif c == 6:
        ex = ["Subscript", ["Var", nm()], ["Tuple", [ex, ["Var", nm()]]]]
    elif c == 7:
        ex = ["Sum", [ex, [draw(st.sampled_from(("DotWildcard", "StarWildcard"))), nm()]]]
    elif c == 8:
        ex = ["Product", [["Var", nm()], ex, ["Var", nm()]]]
    elif c in (9, 10):
        # the same composite sub-term several times: one object when the case is built
        # "shared", separate equal objects in its twin
        ex = draw(st.sampled_from((
            ["Product", [ex, ["Power", ex, ["Var", nm()]]]],
            ["Sum", [ex, ["Call", ["Var", nm()], [ex]], ex]],
            ["If", ["Comparison", ex, "<", ["Var", nm()]], ex, sm()])))
    elif c == 12:
        # numpy scalar constants of every kind, numpy.bool_ included
        ex = ["Sum", [ex, ["Const", "np.int64", 3],
                      draw(st.sampled_from((["Const", "np.bool_", True],
                                            ["Const", "np.bool_", False],
                                            ["Const", "np.float64", 1.5]))),
                      ["LogicalAnd", [["Var", nm()], ["Const", "np.bool_", True]]]]]
    elif c == 11:
        # what parse("f((a, b), [c, d])") returns: the parser's own list / tuple
        # subclasses as call arguments (the list one is hashable)
        ex = ["Call", ["Var", nm()],
              [["ParsedTuple", [ex, sm()]], ["ParsedList", [sm(), ["Var", nm()]]]]]
    if ex[0] in ("Const", "Tuple", "List", "NpArray"):
        ex = ["Sum", [ex, ["Var", nm()]]]     # the pickled root is an expression node
    return ex


HASHING_OPS = ("hash", "eq", "dict")


@st.composite
def op_list(draw, compiled=False):
    pool = [o for o in X.PRE_OPS if compiled or o != "call"]
    ops = draw(st.lists(st.sampled_from(pool), max_size=5))
    if draw(st.integers(0, 9)) < 6 and not any(o in HASHING_OPS for o in ops):
        ops.insert(draw(st.integers(0, len(ops))), draw(st.sampled_from(HASHING_OPS)))
    return ops


def shard_configs(seed, shard):
    """Four interpreter configurations per shard: fixed seeds 0 (randomisation
    off) and 1, two derived from the run seed; two of them under -O, one pair
    differing in -O only."""
    s1 = (seed * 7919 + 104729 * (shard + 1) + 17) % 4294967295
    return [{"hashseed": 0, "opt": False}, {"hashseed": 1, "opt": True},
            {"hashseed": s1, "opt": False}, {"hashseed": s1, "opt": True}]


@st.composite
def variant(draw, cfgs, compiled=False, protocols=(0, 1, 2, 3, 4, 5)):
    i = draw(st.integers(0, len(cfgs) - 1))
    j = draw(st.integers(0, len(cfgs) - 2))
    j = j if j < i else j + 1
    nests = [n for n in X.NESTS if not (compiled and n in ("dictkey", "set"))]
    return {"pre_ops": draw(op_list(compiled)),
            "protocol": draw(st.sampled_from(protocols)),
            "nest": draw(st.sampled_from([None, None] + nests)),
            "post_order": draw(st.integers(0, 5)),
            "producer": cfgs[i], "consumer": cfgs[j]}


FIELD_POOL = ("extra", "tag", "weight", "other")
ROOT_METHOD = {"Expression": None, "Variable": "map_variable", "Call": "map_call",
               "Lookup": "map_lookup"}


@st.composite
def user_object(draw):
    root = draw(st.sampled_from(("Expression", "Variable", "Variable", "Call", "Lookup")))
    depth = draw(st.integers(1, 3))
    levels, used = [], set()
    for _ in range(depth):
        kind = draw(st.sampled_from(("D", "D", "L", "B")))
        if levels and levels[-1]["kind"] in ("L", "B"):
            kind = draw(st.sampled_from(("L", "B")))
        if kind == "B" and root == "Expression" and not any(
                lv["kind"] == "D" for lv in levels):
            kind = "L" if levels else "D"
        if kind == "L" and "serial" in used:
            # the init-args protocol carries exactly the constructor arguments: a legacy
            # class below a class with post-init state is not a supported shape
            kind = "B"
        flds = [] if kind == "B" else [
            f for f in draw(st.permutations(FIELD_POOL)) if f not in used][
            :draw(st.integers(0, 2))]
        used.update(flds)
        mm = ROOT_METHOD[root] if kind == "D" and draw(st.booleans()) else None
        lvl = {"kind": kind, "fields": flds, "mapper_method": mm}
        if kind == "D" and "serial" not in used and draw(st.integers(0, 3)) == 0:
            # a field(init=False) member that __post_init__ fills in: part of the
            # node's state, equality and hash like any other field
            lvl["noinit"] = ["serial"]
            used.add("serial")
        if kind == "D" and root == "Expression" and not levels and draw(
                st.integers(0, 4)) == 0:
            lvl["init"] = False       # @expr_dataclass(init=False), own constructor
        elif kind == "D" and flds and draw(st.integers(0, 3)) == 0:
            lvl["hash"] = False       # @expr_dataclass(hash=False), own __hash__
        levels.append(lvl)
    hier = {"root": root, "levels": levels,
            "tag": draw(st.sampled_from(("MyNode", "HTTPNode2D", "Tagged")))}
    allf = list(usertypes.ROOTS[root][1]) + [f for lv in levels for f in lv["fields"]]
    vals = {}
    for f in allf:
        if f == "name":
            vals[f] = draw(st.sampled_from(STR_NAMES))
        elif f == "parameters":
            vals[f] = ["Tuple", [draw(S.any_expr(1, wild=False))
                                 for _ in range(draw(st.integers(0, 2)))]]
        else:
            vals[f] = draw(S.any_expr(draw(st.integers(0, 2)), wild=False))
    return {"hier": hier, "level": draw(st.integers(0, depth - 1)), "vals": vals,
            "embed": draw(st.sampled_from(X.EMBEDS))}


C_NODES = frozenset({
    "Sum", "Product", "Quotient", "FloorDiv", "Remainder", "Power", "LeftShift",
    "RightShift", "BitwiseNot", "BitwiseOr", "BitwiseXor", "BitwiseAnd", "LogicalNot",
    "LogicalOr", "LogicalAnd", "If", "Call", "CallWithKwargs", "Subscript", "Lookup",
    "Comparison", "Min", "Max"})
FRAG_C = S.EVALUABLE.but(nodes=C_NODES, logical_bool_only=True, big_consts=False,
                         float_consts=(0.5, -1.5, 2.0, 0.25, 4.0))
C_VALUES = {"x": (-2, 1, 3), "y": (-3, 2, 7), "z": (0, 5), "k": (0, 2), "m": (1, 3),
            "r": (["Frac", 1, 2],), "s": (["Frac", -3, 4],), "p": (True, False),
            "q": (False, True), "aa": (11,), "zz": (12,)}


@st.composite
def compiled_object(draw):
    ex = draw(S.expr(draw(st.sampled_from(("INT", "NUM", "NUM"))),
                     draw(st.integers(1, 3)), FRAG_C))
    if draw(st.integers(0, 2)) == 0:
        # unlisted names that tie under a case-insensitive or "natural" ordering, used
        # asymmetrically: their order must not depend on set iteration (hash seed)
        trio = draw(st.sampled_from((("alpha", "Alpha", "ALPHA"), ("v", "V", "v_"),
                                     ("x2", "x10", "X2"), ("n", "N", "nn"))))
        ex = ["Sum", [ex, ["Product", [["Const", "int", 100], ["Var", trio[0]]]],
                      ["Product", [["Const", "int", 10], ["Var", trio[1]]]],
                      ["Var", trio[2]]]]
    if draw(st.integers(0, 4)) == 0:
        # a numpy function: the generated code names the module, so the unpickled
        # callable needs numpy in its namespace like the freshly compiled one
        other = draw(S.expr("NUM", 1, FRAG_C))
        ex = ["Call", ["Lookup", ["Var", "numpy"], draw(st.sampled_from(
            ("maximum", "minimum", "add")))], [ex, other]]
    subclass = draw(st.integers(0, 4)) == 0
    if subclass:
        # a user subclass of CompiledExpression whose context() provides 'triple'
        ex = ["Sum", [["Call", ["Var", "triple"], [ex]], ["Var", "x"]]]
    names = sorted(X.var_names(ex) - {"numpy", "math"} - ({"triple"} if subclass else set()))
    pool = names + [n for n in ("aa", "zz") if draw(st.integers(0, 4)) == 0]
    if draw(st.booleans()):
        pool = [n for n in pool if n not in (
            "alpha", "Alpha", "ALPHA", "v", "V", "v_", "x2", "x10", "X2", "n", "N", "nn")]
    listed = draw(st.permutations(pool))[:draw(st.integers(0, len(pool)))] if pool else []
    listed = [[draw(st.sampled_from(("name", "var"))), n] for n in listed]
    envs = []
    for _ in range(draw(st.integers(2, 4))):
        env = {}
        for n in set(names) | {n for _, n in listed}:
            if n in S.BASE_ENV:
                env[n] = S.BASE_ENV[n]
            elif n in C_VALUES:
                env[n] = draw(st.sampled_from(C_VALUES[n]))
            else:
                env[n] = draw(st.integers(-3, 7))
        envs.append(env)
    out = {"expr": ex, "listed": listed, "envs": envs}
    if subclass:
        out["subclass"] = True
    return {"compiled": out}


@st.composite
def numeric_object(draw):
    nm = lambda: draw(st.sampled_from(STR_NAMES))  # noqa: E731

    def coeff():
        c = draw(st.integers(0, 3))
        if c == 0:
            return ["Var", nm()]
        if c == 1:
            return ["Sum", [["Var", nm()], ["Const", "int", draw(st.integers(1, 5))]]]
        return ["Const", "int", draw(st.sampled_from((1, 2, 3, -1, -4, 7)))]

    def poly():
        exps = sorted(draw(st.lists(st.integers(0, 6), min_size=1, max_size=4, unique=True)))
        return ["Polynomial", ["Var", nm()], [[e, coeff()] for e in exps]]
    c = draw(st.integers(0, 5))
    if c <= 1:
        return {"numeric": poly()}
    if c == 2:
        ints = st.sampled_from((1, 2, 3, 5, -7, 12))
        if draw(st.booleans()):
            return {"numeric": ["Rational", ["Const", "int", draw(ints)],
                                ["Const", "int", draw(ints)]]}

        def ipoly():
            q = poly()
            return [q[0], q[1], [[e, ["Const", "int", draw(st.sampled_from((1, 2, -3, 5)))]]
                                 for e, _ in q[2]]]
        return {"numeric": ["Rational", ipoly(), ipoly()]}
    dims = draw(st.integers(1, 3))
    bits = draw(st.lists(st.integers(0, 2 ** dims - 1), min_size=1, max_size=4, unique=True))
    return {"numeric": ["MultiVector", [[b, coeff()] for b in bits], dims,
                        draw(st.sampled_from((False, False, True)))]}


def generate(ctx):
    cfgs = shard_configs(ctx.seed, ctx.shard)
    quick = ctx.tier == "quick"
    protos = (0, 1, 2, 3, 4, 5)
    nvar = 2 if quick else 3

    def cases(obj_strategy, compiled=False):
        return st.tuples(obj_strategy, st.lists(
            variant(cfgs, compiled, protos), min_size=nvar, max_size=nvar))

    def body(sub):
        def run(value):
            obj, variants = value
            for v in variants:
                if ctx.over_budget():
                    return
                ctx.judge(sub, {**obj, **v})
        return run

    expr_obj = st.builds(lambda e, sh: {"expr": e, "shared": sh}, expr_tree(),
                         st.sampled_from((False, False, True)))
    try:
        for c in cfgs:       # evidence: what the interpreters really run with
            h = _worker(_cfg(c)).hello
            ctx.extra[f"worker seed={h['hashseed']} -O={h['opt']} "
                      f"frozen-dataclasses={h['frozen']}"] += 1
        ctx.run_given(cases(expr_obj), body("expr"), ctx.n(6000, 120000))
        ctx.run_given(cases(user_object()), body("user"), ctx.n(2400, 48000))
        ctx.run_given(cases(compiled_object(), True), body("compiled"), ctx.n(1200, 24000))
        ctx.run_given(cases(numeric_object(), True), body("numeric"), ctx.n(800, 16000))
    finally:
        shutdown_workers()

# }}}


def finalize(m, cov):
    cov["worker_interpreters"] = {k: v for k, v in sorted(m["extra"].items())
                                  if k.startswith("worker ")}
    cov["digest_channels"] = list(X.CHANNELS)


MANIFEST = {
    "text": ("Every generated case crosses a real process boundary: a producer interpreter "
             "builds the object from a JSON spec, performs a generated sequence of "
             "operations on it (hash, ==, dict insertion, str/repr, persistent digest, "
             "pickle, pickle round trip, copy), nests it in a container and pickles it with "
             "a generated protocol; a consumer interpreter started with another "
             "PYTHONHASHSEED and/or with -O builds the same spec from source, unpickles, "
             "and reports whether any unpickled node carries a cached hash or foreign "
             "attribute, field-wise equality, ==/!= both ways, hash agreement, dict/set "
             "look-ups in both directions (also inside unpickled dicts/sets keyed by the "
             "object) and its own persistent digests (PersistentHashWalkMapper over sha256; "
             "pytools KeyBuilder as a second channel). The parent demands all of it plus "
             "digest equality producer/consumer, locally built/unpickled, rebuilt twin and "
             "keyword-reordered twin; compiled expressions must compute the same values "
             "unpickled, compiled in the consumer and in the producer. Covers every node "
             "class, generated user classes (decorated, legacy, mixed), pymbolic.compile and "
             "the library's own legacy nodes Polynomial, Rational and MultiVector."),
    "note": ("Trusted: pbt/xproc_worker.py (observations only; its field-wise comparator is "
             "independent of the generated __eq__), pbt/spec.py builders, pbt/usertypes.py "
             "(same spec -> same class name in every process). Explores four interpreter "
             "configurations per shard, not all seeds. Collisions of digests between unequal "
             "expressions are outside the property."),
    "technique": ("cross-process round-trip and metamorphic testing with Hypothesis-generated "
                  "cases over long-lived worker interpreters differing in PYTHONHASHSEED and -O"),
    "design_ref": "DESIGN.md section 4, C17",
}
