"""C10 - symbolic differentiation yields the true derivative.

Oracle: forward-mode dual numbers (pbt.dual) pushed through the reference
interpreter (pbt.refsem) on the *input* expression.  The derivative expression
returned by pymbolic is evaluated by pymbolic.evaluate at the same point (with
the real ``math`` module and ``log``) and must equal the dual derivative:
exactly when both numbers are ints/Fractions, to 1e-9 relative / 1e-12
absolute otherwise.  A float comparison that fails is adjudicated by
repeating both evaluations in 60-digit decimal arithmetic (pbt.dual.HP), and in
240 digits if those still disagree: only a difference that survives there is
reported.

Sub-checks (same check function, same spec format)
  diff   Hypothesis-generated trees of the differentiable fragment x variable
         spelling x allowed_nonsmoothness x points
  grid   every (construct, operand shape, operand shape) cell of a small pool
         x differentiation variable x allowed_nonsmoothness on a fixed grid of
         points (the zero-derivative short cuts of the quotient/power rules)

Spec: {"expr": <pbt.spec expression>, "var": ["Var","x"] | ["Name","x"] |
       ["Subscript",["Var","a"],["Const","int",0]], "allow": "none" |
       "continuous" | "discontinuous" | null, "api": "function" | "mapper",
       "shared": bool, "points": [{"x": ["Frac",1,2] | 0.5, ...,
       "a": ["List",[...]]}, ...]}
"""
from __future__ import annotations

import itertools
import math
import random
from fractions import Fraction

from hypothesis import strategies as st

import pymbolic
import pymbolic.primitives as p
from pymbolic.mapper.differentiator import DifferentiationMapper, differentiate

from pbt import dual, walk
from pbt.dual import (DUAL_FUNCS, DUAL_MATH, HP, HP_FUNCS, HP_MATH, TRACE,
                      DomainSkip, Dual, HPUnsupported, split)
from pbt.refsem import (RefError, RefEvaluator, RefSkip, _apply, _pow, describe,
                        exc_site)
from pbt.runner import Result
from pbt.spec import HarnessError, build, build_shared, build_value, subspecs

PROP = "C10"
LEVEL = "exploration"
RULE = ("Hypothesis-generated trees of the differentiable fragment (sums, products "
        "of arity <= 4, quotients, powers with constant integer / constant rational "
        "/ variable exponents, the eleven math.* table functions incl. copysign with "
        "general arguments, If, shared CommonSubexpressions, constants, variables, "
        "constant-index subscripts; a low-weight class of unknown functions and "
        "non-differentiable node types) x differentiation variable given as "
        "Variable / name / Subscript / absent x the three allowed_nonsmoothness "
        "settings x 5 points (Fractions for the algebraic part, dyadic floats "
        "otherwise), plus an enumerated grid of two-operand constructs over a pool "
        "of operand shapes. Each derivative is evaluated and compared with the "
        "dual-number derivative of the input; refusals are compared with what the "
        "non-smoothness setting demands. Non-trivial = at least one point compared "
        "(or a demanded refusal observed) and the differentiation variable occurs "
        "under >= 2 of {product, quotient, power, function call}; distinct by sha1 "
        "of the JSON case spec (tree, variable, setting, points).")
ASSUMPTIONS = [
    "pbt/refsem.py states the denotation of the input; pbt/dual.py implements the "
    "differentiation rules of + - * / ** and the elementary functions independently "
    "of pymbolic",
    "exact comparison for int/Fraction results; floats to 1e-9 relative / 1e-12 "
    "absolute, a failing float comparison is re-evaluated in 60-digit (then 240-digit) "
    "decimal arithmetic and only reported if it persists there",
    "points where the reference is undefined, not finite (> 1e150), complex, needs a "
    "non-integer or non-constant power of a non-positive base, or lies within 1e-3 of "
    "a kink that depends on the differentiation variable are skipped and counted",
    "a refusal is demanded only when a not-permitted construct's arguments contain the "
    "differentiation variable (otherwise refusing and returning the right value are "
    "both accepted); If conditions and function positions are not differentiated",
    "derivatives of variable-exponent powers call a free variable named 'log'; the "
    "environment binds it to math.log",
]
HEALTH = {"value-checked": 0.45, "refusal-demanded": 0.03, "var:absent": 0.03,
          "has:power-var-exp": 0.03, "permission-used": 0.04, "cse-shared": 0.02,
          "var:Subscript": 0.03, "has:If": 0.02, "mode:alg": 0.15}
TIMEOUT_IS_FAIL = False   # an overloaded machine must not look like a defect
CASE_TIMEOUT_S = 30

REL, ABS = 1e-9, 1e-12
STRICT_ABS = 1e-30     # localisation only: 60-digit values, rounding residue ~1e-55
KINK_EPS = 1e-3
BIG = 1e150
REFUSALS = (ValueError, RuntimeError, NotImplementedError)
ALLOWS = ("none", "continuous", "discontinuous")
SMOOTH = ("sin", "cos", "tan", "log", "exp", "sinh", "cosh", "tanh", "expm1")
TABLE = {**{n: 1 for n in SMOOTH}, "fabs": 1, "copysign": 2}   # name -> arity
SCALARS = ("x", "y", "z", "w")
AGG, N_AGG = "a", 3
N_POINTS = 5


def _poly(u):
    return u * u + 1


def _poly2(u, v):
    return u * v + u


# {{{ syntactic analysis of the input

def _math_name(fn):
    if isinstance(fn, p.Lookup) and fn.aggregate == p.Variable("math"):
        return fn.name
    return None


def _tag(e):
    if isinstance(e, p.Call):
        nm = _math_name(e.function)
        if nm is None:
            nm = getattr(e.function, "name", type(e.function).__name__)
            return f"call:{nm}(unknown)"
        return f"call:{nm}"
    if isinstance(e, p.Power):
        return "Power:var-exp" if walk.variables(e.exponent) else "Power:const-exp"
    return type(e).__name__


def _contains(e, var):
    return any(isinstance(n, p.Expression) and n == var
               for _, n in walk.occurrences(e))


def _diff_children(e):
    """Sub-expressions the differentiator has to differentiate."""
    if isinstance(e, (p.Sum, p.Product)):
        return list(e.children)
    if isinstance(e, p.Quotient):
        return [e.numerator, e.denominator]
    if isinstance(e, p.Power):
        return [e.base, e.exponent]
    if isinstance(e, p.Call):
        return list(e.parameters)
    if isinstance(e, p.If):
        return [e.then, e.else_]
    if isinstance(e, p.CommonSubexpression):
        return [e.child]
    return []


SUPPORTED = (p.Sum, p.Product, p.Quotient, p.Power, p.Call, p.If,
             p.CommonSubexpression, p.Variable, p.Subscript)


def _obligations(e, var, out):
    """Collect (category, construct, depends) for every construct at a
    differentiated position that needs a permission ('continuous',
    'discontinuous') or can never be differentiated ('never')."""
    if not isinstance(e, p.Expression):
        return
    if isinstance(e, p.Call) and type(e) is p.Call:
        nm = _math_name(e.function)
        dep = any(_contains(a, var) for a in e.parameters)
        if nm in TABLE and len(e.parameters) == TABLE[nm]:
            if nm == "fabs":
                out.append(("continuous", "fabs", dep))
            elif nm == "copysign":
                out.append(("discontinuous", "copysign", dep))
        elif nm == "log" and len(e.parameters) == 2:
            # log with a base is not in the table: refusing it is fine, and so is
            # differentiating it - correctly (judged by value like everything else)
            out.append(("optional", "log-with-base", dep))
        elif e.parameters:
            out.append(("never", "unknown-function", dep))
    elif isinstance(e, p.If):
        out.append(("discontinuous", "If", _contains(e.condition, var)))
    elif not isinstance(e, SUPPORTED) or type(e) is p.CallWithKwargs:
        out.append(("never", "node:" + type(e).__name__, _contains(e, var)))
        return
    for c in _diff_children(e):
        _obligations(c, var, out)


def _permitted(cat, allow):
    if cat == "continuous":
        return allow in ("continuous", "discontinuous")
    if cat == "discontinuous":
        return allow == "discontinuous"
    return False


def _under(e, var):
    """Union over the occurrences of *var* of the construct classes above it."""
    found = set()

    def rec(n, above):
        if isinstance(n, p.Expression) and n == var:
            found.update(above)
            return
        cls = {p.Product: "product", p.Quotient: "quotient", p.Power: "power",
               p.Call: "call"}.get(type(n))
        nxt = above | {cls} if cls else above
        for _, c in walk.children(n):
            rec(c, nxt)
    rec(e, frozenset())
    return found

# }}}


# {{{ environments

def _conv(v, hp):
    return HP(v) if hp else v


def _build_point(pt):
    if not isinstance(pt, dict):
        raise HarnessError("point is not a dict")
    out = {}
    for k, v in pt.items():
        bv = build_value(v)
        if k == AGG:
            if not isinstance(bv, list) or not all(_is_real(c) for c in bv):
                raise HarnessError("aggregate value must be a list of reals")
        elif not _is_real(bv):
            raise HarnessError(f"point value {bv!r} is not a real number")
        out[k] = bv
    return out


def _is_real(v):
    return isinstance(v, (int, float, Fraction)) and not isinstance(v, bool) \
        and v == v and abs(v) != math.inf


def _plain_env(pt, hp):
    env = {}
    for k, v in pt.items():
        env[k] = [_conv(c, hp) for c in v] if k == AGG else _conv(v, hp)
    if hp:
        env.update({"math": HP_MATH, "log": HP_FUNCS["log"], "sin": HP_FUNCS["sin"]})
    else:
        env.update({"math": math, "log": math.log, "sin": math.sin})
    env.update({"f": _poly, "g2": _poly2})
    return env


def _dual_env(pt, var, hp):
    env = {}
    for k, v in pt.items():
        if k == AGG:
            env[k] = [
                Dual(_conv(c, hp), *((1, True) if var == p.Subscript(p.Variable(AGG), i)
                                     else (0, False)))
                for i, c in enumerate(v)]
        else:
            seeded = var == p.Variable(k)
            env[k] = Dual(_conv(v, hp), 1 if seeded else 0, seeded)
    env.update({"math": DUAL_MATH, "sin": DUAL_FUNCS["sin"], "f": _poly, "g2": _poly2})
    return env

# }}}


# {{{ one point

def _exact(v):
    return isinstance(v, (int, Fraction))


def _close(a, b, abs_tol=ABS):
    try:
        if isinstance(a, complex) or isinstance(b, complex):
            return False
        diff = abs(a - b)
        scale = max(abs(a), abs(b))
        return bool(diff <= REL * scale + abs_tol)
    except Exception:
        return False


class _DiffRef(RefEvaluator):
    """pbt.refsem plus the domain rule of the property: a power whose
    exponent is not a constant (syntactically contains a variable) is a
    differentiable function only on a positive base."""

    def ev(self, e):
        if type(e) is p.Power and walk.variables(e.exponent):
            a, b = self.strict([e.base, e.exponent])
            bv = split(a)[0]
            if isinstance(bv, complex):
                raise DomainSkip("complex-base")
            try:
                positive = bool(bv > 0)
            except TypeError:
                raise DomainSkip("non-numeric-base") from None
            if not positive:
                raise DomainSkip("nonpositive-base")
            return _apply(_pow, a, b)
        return RefEvaluator.ev(self, e)


def _ref_eval(e, env):
    try:
        return ("val", _DiffRef(env).ev(e))
    except RefError as err:
        return ("err", err.errs)


def _reference(e, var, pt, hp):
    """("val", value, derivative) or ("skip", reason)."""
    TRACE.reset(hp)
    try:
        r = _ref_eval(e, _dual_env(pt, var, hp))
    except DomainSkip as s:
        return ("skip", f"domain:{s}")
    except HPUnsupported:
        return ("skip", "decimal-domain-gives-up")
    except RefSkip:
        return ("skip", "reference-skip")
    except (OverflowError, ZeroDivisionError, ValueError, ArithmeticError):
        return ("skip", "reference-undefined")
    finally:
        TRACE.hp = False
    if r[0] == "err":
        return ("skip", "reference-undefined")
    v, d = split(r[1])
    for q in (v, d):
        if isinstance(q, complex):
            return ("skip", "reference-complex")
        try:
            fq = abs(float(q))
        except (OverflowError, ValueError, TypeError):
            return ("skip", "reference-not-finite")
        if not fq < BIG:
            return ("skip", "reference-not-finite")
    if TRACE.kink < KINK_EPS:
        return ("skip", "near-kink")
    return ("val", v, d)


def _evaluate(dexpr, pt, hp):
    try:
        return ("val", pymbolic.evaluate(dexpr, _plain_env(pt, hp)))
    except HPUnsupported:
        return ("giveup", None)
    except RecursionError:
        raise
    except Exception as exc:
        return ("exc", exc)


def _judge_point(e, dexpr, var, pt, strict=False):
    """-> ("ok"|"ok-adjudicated"|"skip"|"mismatch"|"eval-error:<T>", detail)

    strict (used only to localise a failure that is already established):
    compare the 60-digit evaluations with the relative tolerance alone."""
    ref = _reference(e, var, pt, False)
    if ref[0] == "skip":
        return ("skip", ref[1])
    want = ref[2]
    got = _evaluate(dexpr, pt, False)
    if got[0] == "val" and not strict:
        if _exact(got[1]) and _exact(want):
            if got[1] == want:
                return ("ok", "exact")
            return ("mismatch", f"derivative evaluates to {describe(got[1])}, "
                                f"dual-number derivative {describe(want)} (exact)")
        if _close(got[1], want):
            return ("ok", "float")
    # float comparison failed or float evaluation raised: 60 digits decide
    ref_hp = _reference(e, var, pt, True)
    if ref_hp[0] == "skip":
        return ("skip", "adjudication:" + ref_hp[1])
    got_hp = _evaluate(dexpr, pt, True)
    if got_hp[0] == "giveup":
        return ("skip", "adjudication:decimal-domain-gives-up")
    if got_hp[0] == "exc":
        # name the exception a user sees (float evaluation) when there is one
        exc = got[1] if got[0] == "exc" else got_hp[1]
        return ("eval-error:" + type(exc).__name__,
                f"evaluating the derivative raised {type(exc).__name__}: {exc}; "
                f"the input is differentiable there, dual-number derivative "
                f"{describe(want)}")
    if _close(got_hp[1], ref_hp[2], ABS if not strict else STRICT_ABS):
        return ("ok-adjudicated", "")
    # 60 digits disagree: a derivative expression whose terms cancel exactly (the
    # input does not really depend on the variable) times a factor like exp(130)
    # is rounding noise even at 60 digits.  240 digits decide; a wrong derivative
    # stays wrong at every precision.
    with dual.precision(240):
        ref_x = _reference(e, var, pt, True)
        got_x = _evaluate(dexpr, pt, True)
    if ref_x[0] == "val" and got_x[0] == "val" and _close(
            got_x[1], ref_x[2], ABS if not strict else STRICT_ABS):
        return ("ok-adjudicated", "240-digit")
    shown = got[1] if got[0] == "val" else got_hp[1]
    return ("mismatch", f"derivative evaluates to {describe(shown)}, dual-number "
                        f"derivative {describe(want)} (60-digit evaluation: "
                        f"{got_hp[1]!r} vs {ref_hp[2]!r})")

# }}}


def _differentiate(e, var_arg, allow, api):
    if api == "mapper":
        return DifferentiationMapper(var_arg, allowed_nonsmoothness=allow)(e)
    if allow is None:
        return differentiate(e, var_arg)
    return differentiate(e, var_arg, allowed_nonsmoothness=allow)


def _localise(e, var, allow, pt, verdict0, depth=0):
    """Tag of a minimal sub-expression whose own derivative already fails in
    the same way (wrong value / cannot be evaluated) at *pt*; descends through
    differentiated positions only."""
    cls0 = verdict0.split(":")[0]
    if depth < 40:
        for c in _diff_children(e):
            if not isinstance(c, p.Expression) or not _contains(c, var):
                continue
            try:
                dc = differentiate(c, var, allowed_nonsmoothness=allow or "none")
                verdict = _judge_point(c, dc, var, pt, strict=True)[0]
            except RecursionError:
                raise
            except Exception:
                continue
            if verdict.split(":")[0] == cls0:
                return _localise(c, var, allow, pt, verdict0, depth + 1)
    return _tag(e)


def check(spec):
    res = Result()
    try:
        espec, vspec, allow = spec["expr"], spec["var"], spec["allow"]
        points = spec["points"]
        api = spec.get("api", "function")
        shared = spec.get("shared", True)
    except (KeyError, TypeError, AttributeError):
        raise HarnessError("malformed C10 spec") from None
    if allow not in (*ALLOWS, None) or api not in ("function", "mapper") \
            or not isinstance(points, list) or not isinstance(vspec, list) \
            or not vspec:
        raise HarnessError("malformed C10 spec")
    e = (build_shared if shared else build)(espec)
    if vspec[0] == "Name":
        if not isinstance(vspec[1], str):
            raise HarnessError("bad variable name")
        var, var_arg = p.Variable(vspec[1]), vspec[1]
        if api == "mapper":
            var_arg = var
    elif vspec[0] in ("Var", "Subscript"):
        var = var_arg = build(vspec)
    else:
        raise HarnessError("bad differentiation variable")
    if isinstance(var, p.Subscript) and not (
            var.aggregate == p.Variable(AGG) and isinstance(var.index, int)):
        raise HarnessError("subscript variable must be a[<int>]")
    if isinstance(var, p.Variable) and var.name in (AGG, "math", "log", "f", "g2",
                                                     "sin"):
        raise HarnessError("name is not a scalar variable of the fragment")
    pts = [_build_point(pt) for pt in points]
    eff = allow or "none"

    obligations = []
    _obligations(e, var, obligations)
    barred = [(cat, what, dep) for cat, what, dep in obligations
              if not _permitted(cat, eff)]
    must = sorted({what for cat, what, dep in barred if dep and cat != "optional"})
    may = bool(barred)
    used = sorted({what for cat, what, dep in obligations
                   if _permitted(cat, eff) and dep})

    # -- labels ---------------------------------------------------------------
    occurs = _contains(e, var)
    res.label("var:" + (vspec[0] if occurs else "absent"), "allow:" + str(allow),
              "api:" + api)
    alg = not any(isinstance(n, p.Call) for _, n in walk.occurrences(e))
    res.label("mode:alg" if alg else "mode:trans")
    tags = {_tag(n) for _, n in walk.occurrences(e)
            if isinstance(n, p.Expression) and walk.children(n)}
    for t in tags:
        res.label("node:" + t)
    if "Power:var-exp" in tags:
        res.label("has:power-var-exp")
    if "If" in tags:
        res.label("has:If")
    cse_ids = [id(n) for _, n in walk.occurrences(e)
               if isinstance(n, p.CommonSubexpression)]
    if len(cse_ids) != len(set(cse_ids)):
        res.label("cse-shared")
    if must:
        res.label("refusal-demanded")
    elif may:
        res.label("refusal-optional")

    # -- differentiate --------------------------------------------------------
    try:
        dexpr = _differentiate(e, var_arg, allow, api)
    except RecursionError:
        raise
    except REFUSALS as exc:
        res.compared()
        if not may:
            res.fail("spurious-refusal:" + exc_site(exc),
                     f"{type(exc).__name__}: {exc} although every construct is "
                     f"permitted with allowed_nonsmoothness={allow!r}")
        else:
            res.label("refused")
            res.nontrivial = len(_under(e, var)) >= 2
        res.sample = {"expr": repr(e)[:300], "var": repr(var_arg), "allow": allow,
                      "outcome": f"refused with {type(exc).__name__}"}
        return res
    except Exception as exc:
        if isinstance(exc, ArithmeticError) and pts and all(
                _reference(e, var, pt, False) == ("skip", "reference-undefined")
                for pt in pts):
            # e.g. u / 0: constant folding fails on an input that denotes no
            # function at any of the points - outside the domain of the property
            return res.skip("input-undefined-at-every-point")
        res.fail("unexpected-exception:" + exc_site(exc),
                 f"differentiate raised {type(exc).__name__}: {exc}")
        return res
    if must:
        res.compared()
        res.fail("missing-refusal:" + must[0],
                 f"{', '.join(must)} depending on the variable differentiated without "
                 f"refusal under allowed_nonsmoothness={allow!r}: {repr(dexpr)[:200]}")

    # -- evaluate -------------------------------------------------------------
    n_ok = 0
    skips = []
    for pt in pts:
        verdict, detail = _judge_point(e, dexpr, var, pt)
        if verdict == "skip":
            skips.append(detail)
            res.label("point-skip:" + detail.split(":")[0])
            continue
        res.compared()
        if verdict == "ok":
            n_ok += 1
        elif verdict == "ok-adjudicated":
            n_ok += 1
            res.label("float-noise-adjudicated")
        else:
            where = _localise(e, var, eff, pt, verdict)
            kind = ("derivative-mismatch:" if verdict == "mismatch"
                    else "derivative-" + verdict + ":") + where
            res.fail(kind, f"d/d{var} of {repr(e)[:300]} = {repr(dexpr)[:300]} at "
                           f"{_show(pt)}: {detail}")
    if res.comparisons == 0:
        return res.skip("no-usable-point:" + (skips[0].split(":")[0] if skips
                                              else "no-points"))
    if n_ok or res.fails:
        res.label("value-checked")
        if used:
            res.label("permission-used")
            for u in used:
                res.label("permission-used:" + u)
    res.nontrivial = len(_under(e, var)) >= 2
    res.sample = {"expr": repr(e)[:300], "var": repr(var_arg), "allow": allow,
                  "derivative": repr(dexpr)[:300], "points_compared": n_ok,
                  "first_point": _show(pts[0]) if pts else None}
    return res


def check_reuse(spec):
    """One DifferentiationMapper instance applied to a sequence of expressions that
    are built, differentiated and dropped again (so object addresses are re-used);
    every result must still be the derivative of *that* expression.
    spec: {"exprs": [...], "var": vspec, "points": [...], "order": [indices]}"""
    import gc
    res = Result()
    try:
        especs, vspec, points, order = (spec["exprs"], spec["var"], spec["points"],
                                        spec["order"])
    except (KeyError, TypeError):
        raise HarnessError("malformed C10 reuse spec") from None
    if not especs or vspec[0] not in ("Var", "Subscript"):
        raise HarnessError("malformed C10 reuse spec")
    var = build(vspec)
    if isinstance(var, p.Variable) and var.name not in SCALARS:
        raise HarnessError("name is not a scalar variable of the fragment")
    if isinstance(var, p.Subscript) and not (
            var.aggregate == p.Variable(AGG) and isinstance(var.index, int)):
        raise HarnessError("subscript variable must be a[<int>]")
    pts = [_build_point(pt) for pt in points]
    dm = DifferentiationMapper(var, allowed_nonsmoothness="discontinuous")
    n_ok = 0
    for step, i in enumerate(order):
        espec = especs[i % len(especs)]
        e = build(espec)
        try:
            fresh = differentiate(e, var, allowed_nonsmoothness="discontinuous")
        except RecursionError:
            raise
        except Exception:
            del e
            continue        # refusals / undefined inputs are the diff sub-check's business
        try:
            d = dm(e)
        except RecursionError:
            raise
        except Exception as exc:
            res.fail("reused-mapper-raised:" + exc_site(exc),
                     f"call {step} on {e!r}: {type(exc).__name__}: {exc}; a fresh "
                     f"mapper returns {fresh!r}")
            break
        bad = False
        for pt in pts:
            verdict, detail = _judge_point(e, d, var, pt)
            if verdict == "skip":
                continue
            res.compared()
            if verdict in ("ok", "ok-adjudicated"):
                n_ok += 1
                continue
            # only a failure if a fresh mapper gets it right (else: diff sub-check)
            v2, _ = _judge_point(e, fresh, var, pt)
            if v2 in ("ok", "ok-adjudicated"):
                res.fail("reused-mapper-wrong-derivative",
                         f"call {step} of {order} on one DifferentiationMapper: d/d{var} "
                         f"of {repr(e)[:200]} = {repr(d)[:200]} at {_show(pt)}: {detail}; "
                         f"a fresh mapper gives {repr(fresh)[:200]}")
                bad = True
                break
        del e, d, fresh
        gc.collect()
        if bad:
            break
    if res.comparisons == 0:
        return res.skip("no-usable-point")
    res.label("reuse", "value-checked")
    res.nontrivial = len(order) >= 3 and len(especs) >= 2
    res.sample = {"exprs": [repr(build(s))[:120] for s in especs[:3]], "order": order,
                  "var": repr(var)}
    return res


def _show(pt):
    return {k: (str(v) if isinstance(v, Fraction) else
                [str(c) if isinstance(c, Fraction) else c for c in v]
                if isinstance(v, list) else v) for k, v in pt.items()}


CHECKS = {"diff": check, "grid": check, "reuse": check_reuse}


# {{{ known findings

def _has_copysign_of_variable(spec):
    for s in subspecs(spec.get("expr")):
        if (s[0] == "Call" and len(s) == 3 and s[1] == ["Lookup", ["Var", "math"],
                                                        "copysign"]
                and isinstance(s[2], list) and len(s[2]) == 2
                and any(t[0] in ("Var", "Subscript") for t in subspecs(s[2][0]))):
            return True
    return False


def _has_log_of_int_constant(spec):
    for s in subspecs(spec.get("expr")):
        if (s[0] == "Call" and len(s) == 3
                and s[1] == ["Lookup", ["Var", "math"], "log"]
                and isinstance(s[2], list) and len(s[2]) == 1
                and s[2][0][0] == "Const" and s[2][0][1] in ("int", "bool")):
            return True
    return False


def _has_power_with_wrapped_constant_operand(spec):
    """A Power with a variable-free base or exponent that contains a
    CommonSubexpression or an If (whose derivative is the truthy node
    CSE(0) / If(c, 0, 0))."""
    for s in subspecs(spec.get("expr")):
        if s[0] == "Power" and len(s) == 3:
            for operand in s[1:]:
                inner = subspecs(operand)
                if any(t[0] in ("CommonSubexpression", "If") for t in inner) \
                        and not any(t[0] in ("Var", "Subscript") for t in inner):
                    return True
    return False


KNOWN = {
    # the derivative of CSE(<constant>) is CSE(0) (of If(c, 2, 3): If(c, 0, 0)),
    # which is truthy: the power rule misses its zero-derivative short cut and
    # emits log(base)
    "F-C10-truthy-zero": lambda sub, spec, fail: (
        fail.kind.startswith("derivative-eval-error:")
        and _has_power_with_wrapped_constant_operand(spec)),
    # copysign(u, v) with u depending on the variable is differentiated to 0
    "F24": lambda sub, spec, fail: (
        fail.kind == "derivative-mismatch:call:copysign"
        and spec.get("allow") == "discontinuous"
        and _has_copysign_of_variable(spec)),
    # math.log(<integer constant>): quotient(1, c) builds a legacy Rational
    # whose arithmetic fails (float numerator/denominator -> FieldTraits.gcd)
    "F-C10-log-const": lambda sub, spec, fail: (
        fail.kind in ("unexpected-exception:AttributeError@rational.py:__mul__",
                      "spurious-refusal:RuntimeError@traits.py:get_unit")
        and _has_log_of_int_constant(spec)),
}

# }}}


# {{{ generator

def V(n):
    return ["Var", n]


def C(i):
    return ["Const", "float" if isinstance(i, float) else "int", i]


def SUB(i):
    return ["Subscript", V(AGG), C(i)]


def MATH(name, *args):
    return ["Call", ["Lookup", V("math"), name], list(args)]


def CSE(child):
    return ["CommonSubexpression", child, None, "pymbolic_eval"]


_INTS = (-3, -2, -1, -1, 0, 1, 1, 2, 2, 3, 4)
_FLOATS = (0.5, 1.5, -0.25, 2.0, -1.5, 0.125)
_LEAF_VARS = (V("x"), V("x"), V("x"), V("x"), V("y"), V("y"), V("z"), SUB(0),
              SUB(0), SUB(1))


class _G:
    """One tree: recursive generation from a random.Random."""

    def __init__(self, rng, mode, level, bad):
        self.rng = rng
        self.mode = mode          # "alg" | "trans"
        self.level = level        # 0 smooth, 1 + fabs, 2 + sign/copysign/If
        self.bad = bad            # unknown functions / unsupported nodes allowed
        self.pool = []            # CSE specs to share
        self.bad_used = False

    def pick(self, seq):
        return self.rng.choice(seq)

    def int(self, lo, hi):
        return self.rng.randint(lo, hi)

    def coin(self):
        return self.rng.random() < 0.5

    def leaf(self):
        r = self.int(0, 9)
        if r <= 5:
            return self.pick(_LEAF_VARS)
        if r <= 8 or self.mode == "alg":
            return C(self.pick(_INTS))
        return C(self.pick(_FLOATS))

    def positive(self, depth):
        """Expression that is positive at most points."""
        r = self.int(0, 9)
        if r <= 1 or depth <= 0:
            return self.pick((C(2), C(3), C(2), V("x"), V("y"), SUB(0)))
        u = self.gen(depth - 1)
        if r <= 5:
            return ["Sum", [["Product", [u, u]], C(self.pick((1, 2)))]]
        if self.mode == "trans":
            if r == 6:
                return MATH("exp", u)
            if r == 7:
                return MATH("cosh", u)
            if r == 8 and self.level >= 1:
                return ["Sum", [MATH("fabs", u), C(1)]]
        return ["Sum", [["Power", u, C(2)], C(1)]]

    def cond(self, depth):
        d = min(depth, 1)
        r = self.int(0, 19)
        cmp_ = ["Comparison", self.gen(d), self.pick(("<", "<=", ">", ">=", "<", ">")
                                                      if r else ("==", "!=")),
                self.gen(d)]
        if r in (1, 2):
            other = ["Comparison", self.gen(0), self.pick(("<", ">")), self.gen(0)]
            return [self.pick(("LogicalAnd", "LogicalOr")), [cmp_, other]]
        if r == 3:
            return ["LogicalNot", cmp_]
        return cmp_

    def bad_node(self, depth):
        self.bad_used = True
        u = self.gen(depth - 1)
        r = self.int(0, 13)
        if r >= 12:
            # a function of the table's name in another namespace is not math's
            nm = self.pick(("sin", "exp", "tanh", "log", "fabs", "cos"))
            ns = self.pick((V("mylib"), V("cmath"), ["Lookup", V("pkg"), "sub"]))
            return ["Call", ["Lookup", ns, nm], [u]]
        if r == 0:
            return ["Call", V("f"), [u]]
        if r == 1:
            return MATH("sqrt", self.positive(depth - 1))
        if r == 2:
            return MATH("atan", u)
        if r == 3:
            return ["Call", V("sin"), [u]]
        if r == 4:
            return MATH("sin", u, self.gen(0))
        if r == 5:
            return ["Call", V("g2"), [u, self.gen(0)]]
        if r == 6:
            return [self.pick(("Min", "Max")), [u, self.gen(0)]]
        if r == 7:
            return [self.pick(("FloorDiv", "Remainder")), u, C(self.pick((2, 3)))]
        if r == 8:
            return ["CallWithKwargs", V("f"), [u], []]
        if r == 9:
            return ["Derivative", u, ["x"]]
        if r == 10:
            return MATH("copysign", u)
        return ["Call", V("f"), []]

    def gen(self, depth):
        if depth <= 0:
            return self.leaf()
        choices = [("Sum", 3), ("Product", 3), ("Quotient", 2), ("PowInt", 2),
                   ("CSE", 1), ("leaf", 1)]
        if self.mode == "trans":
            choices += [("Func", 4), ("PowRat", 1), ("PowVar", 2)]
            if self.level >= 1:
                choices += [("fabs", 1)]
            if self.level >= 2:
                choices += [("sign", 1), ("copysign", 1)]
        if self.level >= 2:
            choices += [("If", 2 if self.mode == "alg" else 1)]
        if self.bad:
            choices += [("bad", 1 if self.bad_used else 3)]
        names = [n for n, w in choices for _ in range(w)]
        k = self.pick(names)
        if k == "leaf":
            return self.leaf()
        if k in ("Sum", "Product"):
            n = self.pick((2, 2, 2, 3, 3, 4))
            return [k, [self.gen(depth - 1 if i < 2 else min(depth - 1, 1))
                        for i in range(n)]]
        if k == "Quotient":
            den = self.positive(depth - 1) if self.coin() else self.gen(depth - 1)
            if den == C(0):
                den = C(2)      # u / 0 denotes no function
            return ["Quotient", self.gen(depth - 1), den]
        if k == "PowInt":
            return ["Power", self.gen(depth - 1),
                    C(self.pick((2, 3, 2, -1, -2, 0, 1, 4)))]
        if k == "PowRat":
            ex = self.pick((["Quotient", C(1), C(2)], ["Quotient", C(3), C(2)],
                            C(0.5), C(1.5), C(-0.5), ["Quotient", C(1), C(3)],
                            C(2.5), ["Quotient", C(-1), C(2)]))
            return ["Power", self.positive(depth - 1), ex]
        if k == "PowVar":
            r = self.int(0, 9)
            base = (self.positive(depth - 1) if r <= 6 else
                    self.pick((C(2), C(3), C(0.5), V("x"), V("y"))) if r <= 8
                    else self.gen(depth - 1))
            ex = self.gen(min(depth - 1, 2))
            if ex[0] == "Const":
                ex = self.pick((V("x"), V("y"), SUB(1), ["Product", [C(2), V("x")]]))
            return ["Power", base, ex]
        if k == "Func":
            nm = self.pick(SMOOTH)
            if nm == "log" and self.int(0, 3) == 0:
                base = self.pick((C(2.0), C(10.0), C(0.5),
                                  ["Sum", [self.positive(min(depth - 1, 1)), C(1.5)]]))
                return MATH("log", self.positive(depth - 1), base)
            arg = (self.positive(depth - 1) if nm == "log" and self.int(0, 9) < 7
                   else self.gen(depth - 1))
            if nm == "log" and arg[0] == "Const" and arg[1] == "int" \
                    and self.int(0, 9) < 8:
                # log(<int constant>) crashes the differentiator (known finding):
                # keep most constant arguments floats so the tree is still checked
                arg = C(float(arg[2]) if arg[2] > 0 else 1.5)
            return MATH(nm, arg)
        if k == "fabs":
            return MATH("fabs", self.gen(depth - 1))
        if k == "sign":
            return MATH("copysign", C(self.pick((1, 1, 1, -2, 3))), self.gen(depth - 1))
        if k == "copysign":
            return MATH("copysign", self.gen(depth - 1), self.gen(min(depth - 1, 1)))
        if k == "If":
            return ["If", self.cond(depth - 1), self.gen(depth - 1), self.gen(depth - 1)]
        if k == "CSE":
            if self.pool and self.int(0, 9) < 5:
                return self.pick(self.pool)
            c = CSE(self.gen(depth - 1))
            self.pool.append(c)
            if self.int(0, 9) < 4:
                # use it twice right away
                other = self.gen(min(depth - 1, 1))
                r = self.int(0, 2)
                if r == 0 and self.mode == "trans":
                    kids = [c, MATH("sin", c)]
                elif r == 1:
                    kids = [c, other, c]
                else:
                    kids = [other, c, c]
                return [self.pick(("Sum", "Product")), kids]
            return c
        if k == "bad":
            return self.bad_node(depth)
        raise AssertionError(k)


_FRAC_NUM = (-7, -5, -4, -3, -2, -1, -1, 0, 1, 1, 2, 2, 3, 3, 4, 5, 7)
_FRAC_DEN = (1, 1, 1, 2, 2, 3, 4)
_DYADIC_SPECIAL = (0, 8, -8, 16, 4)


def _frac(rng):
    return ["Frac", rng.choice(_FRAC_NUM), rng.choice(_FRAC_DEN)]


def _dyadic(rng):
    r = rng.randint(0, 2)
    k = (rng.randint(-24, 24) if r == 0 else rng.randint(1, 24) if r == 1
         else rng.choice(_DYADIC_SPECIAL))
    return k / 8.0


def _used_names(espec):
    return {s[1] for s in subspecs(espec) if s[0] == "Var"}


def make_case(seed):
    """The whole case is a deterministic function of one integer drawn by
    Hypothesis (tree decisions through random.Random(seed): far cheaper than
    one Hypothesis draw per decision, and the runner shrinks specs itself)."""
    rng = random.Random(seed)
    mode = rng.choice(("alg", "alg", "trans", "trans", "trans", "trans"))
    allow = rng.choice(ALLOWS)
    natural = ALLOWS.index(allow)
    level = natural if rng.randint(0, 9) < 7 else rng.randint(0, 2)
    bad = rng.randint(0, 11) == 0
    g = _G(rng, mode, level, bad)
    espec = g.gen(rng.choice((1, 2, 2, 3, 3, 3, 4, 4, 4)))
    names = _used_names(espec)
    scal = sorted(n for n in names if n in SCALARS)
    subs = sorted({s[2][2] for s in subspecs(espec)
                   if s[0] == "Subscript" and s[1] == V(AGG)})
    cands = [("Var", n) for n in scal] + [("Sub", i) for i in subs]
    r = rng.randint(0, 19)
    if r == 0 or not cands:
        kind, which = rng.choice((("Var", "w"), ("Sub", 2), ("Var", "w")))
    elif r <= 9 and ("Var", "x") in cands:
        kind, which = "Var", "x"
    else:
        kind, which = rng.choice(cands)
    if kind == "Sub":
        vspec = SUB(which)
    else:
        vspec = [rng.choice(("Var", "Var", "Name")), which]
    api = rng.choice(("function", "function", "function", "mapper"))
    allow_arg = allow
    if allow == "none" and rng.randint(0, 3) == 0:
        allow_arg = None
    value = _frac if mode == "alg" else _dyadic
    points = []
    for _ in range(N_POINTS):
        pt = {n: value(rng) for n in scal}
        if AGG in names:
            pt[AGG] = ["List", [value(rng) for _ in range(N_AGG)]]
        points.append(pt)
    return {"expr": espec, "var": vspec, "allow": allow_arg, "api": api,
            "shared": rng.randint(0, 4) > 0, "points": points}


def diff_case():
    return st.integers(0, 2**62).map(make_case)


def make_reuse_case(seed):
    rng = random.Random(seed)
    mode = rng.choice(("alg", "alg", "trans"))
    g = _G(rng, mode, 2, False)
    especs = [g.gen(rng.choice((1, 2, 2, 3))) for _ in range(rng.randint(2, 5))]
    which = rng.choice(("x", "x", "y"))
    value = _frac if mode == "alg" else _dyadic
    points = []
    for _ in range(2):
        pt = {n: value(rng) for n in SCALARS}
        pt[AGG] = ["List", [value(rng) for _ in range(N_AGG)]]
        points.append(pt)
    order = [rng.randint(0, 7) for _ in range(rng.randint(3, 10))]
    return {"exprs": especs, "var": V(which), "points": points, "order": order}


def reuse_case():
    return st.integers(0, 2**62).map(make_reuse_case)


# -- enumerated grid -----------------------------------------------------------

_POOL = {
    "c2": C(2), "c-3": C(-3), "c0": C(0), "c1": C(1),
    "x": V("x"), "y": V("y"), "a0": SUB(0),
    "x*y": ["Product", [V("x"), V("y")]],
    "x+1": ["Sum", [V("x"), C(1)]],
    "x*x+1": ["Sum", [["Product", [V("x"), V("x")]], C(1)]],
    "y*y+2": ["Sum", [["Product", [V("y"), V("y")]], C(2)]],
    "cse(x*x)": CSE(["Product", [V("x"), V("x")]]),
    "1/2": ["Quotient", C(1), C(2)],
}
_GRID_VARS = (V("x"), ["Name", "y"], SUB(0), V("w"))
_GRID_VALUES = (["Frac", 3, 2], ["Frac", -2, 1], ["Frac", 1, 3], ["Frac", 5, 4],
                ["Frac", -1, 2], ["Frac", 2, 1], ["Frac", 0, 1])


def _grid_points(exact):
    pts = []
    vals = list(_GRID_VALUES)
    for i in range(6):
        vs = [vals[(i + j * 2) % len(vals)] for j in range(5)]
        if not exact:
            vs = [v[1] / v[2] if v[2] in (1, 2, 4) else (v[1] * 3 + 1) / 8.0
                  for v in vs]
        pts.append({"x": vs[0], "y": vs[1], AGG: ["List", [vs[2], vs[3], vs[4]]]})
    return pts


def grid_cells():
    keys = list(_POOL)
    for a, b in itertools.product(keys, repeat=2):
        yield f"Quotient({a},{b})", ["Quotient", _POOL[a], _POOL[b]], True
        yield f"Power({a},{b})", ["Power", _POOL[a], _POOL[b]], False
        yield f"Product({a},{b})", ["Product", [_POOL[a], _POOL[b]]], True
        yield (f"If({a}<{b})", ["If", ["Comparison", _POOL[a], "<", _POOL[b]],
                                _POOL[a], _POOL[b]], True)
    for a, b, c in itertools.product(("c2", "x", "y", "x*y", "x+1"), repeat=3):
        yield (f"Product({a},{b},{c})",
               ["Product", [_POOL[a], _POOL[b], _POOL[c]]], True)
        yield f"Sum({a},{b},{c})", ["Sum", [_POOL[a], _POOL[b], _POOL[c]]], True
    for nm in (*SMOOTH, "fabs"):
        for a in keys:
            yield f"{nm}({a})", MATH(nm, _POOL[a]), False
            yield (f"{nm}({a})*x", ["Product", [MATH(nm, _POOL[a]), V("x")]], False)
    for a, b in itertools.product(keys, repeat=2):
        if a.startswith("c") or b.startswith("c"):
            yield f"copysign({a},{b})", MATH("copysign", _POOL[a], _POOL[b]), False
    for a in keys:
        for pw in (0, 1, 2, 3, -1, -2):
            yield f"Power({a},{pw})", ["Power", _POOL[a], C(pw)], True
        yield f"f({a})", ["Call", V("f"), [_POOL[a]]], False
        yield f"Min({a},1)", ["Min", [_POOL[a], C(1)]], True


def generate(ctx):
    i = 0
    n = 0
    for name, espec, exact in grid_cells():
        nonsmooth = any(t in name for t in ("fabs", "copysign", "If(", "f(", "Min("))
        for vspec in _GRID_VARS:
            i += 1
            for allow in (ALLOWS if nonsmooth else (ALLOWS[i % 3],)):
                if not ctx.mine(i) or ctx.over_budget():
                    continue
                ctx.judge("grid", {"expr": espec, "var": vspec, "allow": allow,
                                   "api": "function", "shared": True,
                                   "points": _grid_points(exact)})
                n += 1
    ctx.exhaustive["two-operand constructs x operand pool x variable x setting"] = n
    ctx.run_given(diff_case(), lambda s: ctx.judge("diff", s), ctx.n(40000, 1600000))
    ctx.run_given(reuse_case(), lambda s: ctx.judge("reuse", s), ctx.n(3000, 60000))

# }}}


MANIFEST = {
    "text": ("Generated-input search: trees of the differentiable fragment are "
             "differentiated by pymbolic and the resulting expression is evaluated "
             "at generated points and compared with the derivative obtained by "
             "pushing forward-mode dual numbers through an independent reference "
             "interpreter on the input (exact over Fractions for the algebraic "
             "part, 1e-9 relative otherwise with 60/240-digit adjudication of float "
             "disagreements); refusals of non-smooth, unknown and non-differentiable "
             "constructs are compared with the allowed_nonsmoothness setting; an "
             "enumerated grid covers every two-operand construct over a pool of "
             "operand shapes. Exploration, not proof."),
    "note": ("Trusted: pbt/refsem.py, pbt/dual.py (dual numbers, decimal functions). "
             "A wrong derivative within 1e-9 relative error, or only wrong on the "
             "skipped points (kinks, non-positive bases of general powers), is not "
             "detected."),
    "technique": "property-based testing (Hypothesis) vs forward-mode automatic "
                 "differentiation through a reference interpreter; enumerated grid",
    "design_ref": "DESIGN.md section 4, C10",
}
