"""C03 - operator overloading builds trees that mean what the operators mean.

An *operator program* (JSON AST) is interpreted twice by the same tiny
interpreter: leaves as pymbolic Variables / literal numbers (giving a tree T or
a number) and leaves as the environment's plain values (giving v).  Oracle:
the reference interpreter's value of T equals v in every environment where the
plain computation is defined.

Program nodes
  ["v", name]  ["n", type, value]
  ["bin", op, a, b]  ["un", op, a]  ["abs", a]
  ["call", fname, [args], [[kw, arg], ...]]  ["idx", aggname, i]  ["attr", objname, name]
  ["meth", name, a, b|null]       eq ne lt le gt ge and_ or_ not_
  ["fsum", [..]] ["fprod", [..]] ["lincomb", [numbers], [..]] ["quot", a, b]
"""
from __future__ import annotations

import itertools
import math
import operator
from fractions import Fraction

import numpy as np
from hypothesis import strategies as st

import pymbolic.primitives as p

from pbt import envs, strategies as S, walk
from pbt.refsem import (RefSkip, _guard, _lshift, _pow, describe, exc_site,
                        ref_eval)
from pbt.runner import Result
from pbt.spec import twin_how, HarnessError, build_const

PROP = "C03"
LEVEL = "exploration"
RULE = ("Operator programs over +,-,*,/,//,%,**,<<,>>,&,|,^, unary -,+,~, abs, call, "
        "subscript, attribute, comparison/logical constructor methods and the smart "
        "constructors, run once on pymbolic leaves and once on plain values; exhaustive "
        "over every (operator, left kind, right kind) cell x the integer box (Fraction "
        "box for '/'), random programs of depth <=5, a matrix-valued (non-commutative) "
        "class, and order-comparison refusals. Non-trivial = >=2 operators and (a "
        "shortcut/flattening path taken, i.e. the tree has fewer operator nodes than the "
        "program, or a reflected operator ran); distinct by sha1 of the program spec.")
ASSUMPTIONS = [
    "tree values are computed by the reference interpreter pbt/refsem.py",
    "programs with // % << >> & | ^ ~ are evaluated over integers only (x//1 -> x and x%1 -> 0 are integer identities)",
    "a construction refusing a bool literal as a direct operand (TypeError/AssertionError) is a refusal, not a violation",
    "whenever a float takes part, values are compared with absolute/relative tolerance 1e-9 (Fraction environments are dyadic)",
]
HEALTH = {"shortcut-taken": 0.05, "reflected": 0.05, "mat": 0.02}

BIN = {"+": operator.add, "-": operator.sub, "*": operator.mul,
       "/": operator.truediv, "//": operator.floordiv, "%": operator.mod,
       "**": _pow, "<<": _lshift, ">>": operator.rshift,
       "&": operator.and_, "|": operator.or_, "^": operator.xor}
INT_ONLY = {"//", "%", "<<", ">>", "&", "|", "^", "~"}
UN = {"-": operator.neg, "+": operator.pos, "~": operator.invert}
CMP = {"eq": operator.eq, "ne": operator.ne, "lt": operator.lt,
       "le": operator.le, "gt": operator.gt, "ge": operator.ge}


class Refusal(Exception):
    pass


class ReceiverFolded(Exception):
    pass


class PlainUndefined(Exception):
    pass


class NumberQuotient(Exception):
    pass


class NonInteger(Exception):
    pass


def _pythonize(tree):
    """numpy constants -> Python numbers (exact arithmetic, Python error semantics)"""
    def f(n):
        if isinstance(n, np.generic):
            return (n.item(),)
        return None
    return walk.transform(tree, f)


def _is_bool(v):
    return isinstance(v, (bool, np.bool_))


class ArgumentChanged(Exception):
    """a smart constructor modified the list the caller handed it"""


class Interp:
    def __init__(self, symbolic, env=None, exact=False):
        self.sym = symbolic
        self.env = env
        self.exact = exact      # float literals as the Fractions they are (shadow run)
        self.saw_float = False
        self.near_jump = False  # a discrete decision was taken on floats that nearly tie
        self.n_ops = 0
        self.reflected = False

    def leaf(self, name):
        return p.Variable(name) if self.sym else self.env[name]

    def run(self, pr):
        v = self._run(pr)
        if isinstance(v, (float, complex, np.floating, np.complexfloating)):
            self.saw_float = True       # some intermediate value is inexact
        return v

    def _run(self, pr):
        tag = pr[0]
        if tag == "v":
            return self.leaf(pr[1])
        if tag == "n":
            c = build_const(pr[1], pr[2])
            if not self.sym and isinstance(c, np.generic):
                c = c.item()   # plain numbers: Python semantics (numpy does not raise on x/0)
            if self.exact and isinstance(c, float) and c == c and abs(c) != float("inf"):
                c = Fraction(c)
            return c
        if tag == "bin":
            a, b = self.run(pr[2]), self.run(pr[3])
            self.n_ops += 1
            if self.sym and not isinstance(a, p.Expression) \
                    and not isinstance(b, p.Expression):
                # number op number: no pymbolic involved; same arithmetic as the
                # plain run (numpy scalars would give nan where Python goes complex)
                a = a.item() if isinstance(a, np.generic) else a
                b = b.item() if isinstance(b, np.generic) else b
                try:
                    return _guard(BIN[pr[1]](a, b))
                except RefSkip:
                    raise
                except Exception:
                    raise PlainUndefined() from None
            if self.sym:
                if not isinstance(a, p.Expression) and isinstance(b, p.Expression):
                    self.reflected = True
                try:
                    return BIN[pr[1]](a, b) if pr[1] not in ("**", "<<") else (
                        a ** b if pr[1] == "**" else a << b)
                except (TypeError, AssertionError) as exc:
                    if (_is_bool(a) or _is_bool(b)) and (
                            isinstance(a, p.Expression) or isinstance(b, p.Expression)):
                        raise Refusal(f"{pr[1]} with bool operand: {exc!r}") from None
                    if not isinstance(a, p.Expression) and not isinstance(b, p.Expression):
                        raise PlainUndefined() from None
                    raise
                except Exception:
                    if not isinstance(a, p.Expression) and not isinstance(b, p.Expression):
                        raise PlainUndefined() from None   # number op number: no pymbolic involved
                    raise
            if pr[1] in ("//", "%") and not (
                    isinstance(a, int) and isinstance(b, int)):
                # x//1 -> x and x%1 -> 0 are integer identities: the property
                # speaks about integer operands here (see ASSUMPTIONS)
                raise NonInteger()
            return _guard(BIN[pr[1]](a, b))
        if tag == "un":
            a = self.run(pr[2])
            self.n_ops += 1
            return UN[pr[1]](a)
        if tag == "abs":
            a = self.run(pr[1])
            self.n_ops += 1
            return abs(a)
        if tag == "call":
            f = self.leaf(pr[1])
            args = [self.run(a) for a in pr[2]]
            kw = {k: self.run(a) for k, a in pr[3]}
            self.n_ops += 1
            return f(*args, **kw)
        if tag == "idx":
            a = self.leaf(pr[1])
            i = self.run(pr[2])
            self.n_ops += 1
            return a[i]
        if tag == "attr":
            o = self.leaf(pr[1])
            self.n_ops += 1
            if self.sym:
                # both spellings of a look-up: e.attr("name") and e.a.name
                return o.attr(pr[2]) if pr[2] in ("a", "b") else getattr(o.a, pr[2])
            return getattr(o, pr[2])
        if tag == "meth":
            a = self.run(pr[2])
            b = self.run(pr[3]) if pr[3] is not None else None
            self.n_ops += 1
            if self.sym:
                if not isinstance(a, p.Expression):
                    raise ReceiverFolded()
                return getattr(a, pr[1])(*([] if b is None else [b]))
            fl = (float, np.floating)
            if pr[1] in CMP:
                if (isinstance(a, fl) or isinstance(b, fl)) and _is_num(a) and _is_num(b) \
                        and abs(a - b) <= 1e-9 * max(1.0, abs(a), abs(b)):
                    self.near_jump = True      # a comparison of floats that nearly tie
                return CMP[pr[1]](a, b)
            if any(isinstance(x, fl) and abs(x) <= 1e-9 for x in (a, b)):
                self.near_jump = True          # the truth of a float that is nearly zero
            if pr[1] == "not_":
                return not a
            if pr[1] == "and_":
                return bool(a) and bool(b)
            if pr[1] == "or_":
                return bool(a) or bool(b)
        if tag == "fsum":
            items = [self.run(a) for a in pr[1]]
            self.n_ops += max(0, len(items) - 1)
            if self.sym:
                before = list(items)
                r = p.flattened_sum(items)
                if len(items) != len(before) or any(x is not y for x, y in zip(items, before)):
                    raise ArgumentChanged(f"flattened_sum changed its argument list: "
                                          f"{before!r} -> {items!r}")
                return r
            return sum(items)
        if tag == "fprod":
            items = [self.run(a) for a in pr[1]]
            self.n_ops += max(0, len(items) - 1)
            if self.sym:
                before = list(items)
                r = p.flattened_product(items)
                if len(items) != len(before) or any(x is not y for x, y in zip(items, before)):
                    raise ArgumentChanged(f"flattened_product changed its argument list: "
                                          f"{before!r} -> {items!r}")
                return r
            r = 1
            for it in items:
                r = r * it
            return r
        if tag == "lincomb":
            coeffs = [build_const(*c[1:]) for c in pr[1]]
            items = [self.run(a) for a in pr[2]]
            self.n_ops += len(items)
            if self.sym:
                return p.linear_combination(coeffs, items)
            return sum(c * it for c, it in zip(coeffs, items))
        if tag == "quot":
            a, b = self.run(pr[1]), self.run(pr[2])
            self.n_ops += 1
            if self.sym:
                if not isinstance(a, p.Expression) and not isinstance(b, p.Expression):
                    # quotient(number, number) builds the exact-quotient node:
                    # no expression operand involved, covered by C19
                    raise NumberQuotient()
                return p.quotient(a, b)
            return a / b
        raise HarnessError(f"bad program node {pr!r}")


def prog_ops(pr, out=None):
    out = set() if out is None else out
    if isinstance(pr, list) and pr:
        if pr[0] in ("bin", "un"):
            out.add(pr[1])
        if pr[0] in ("quot",):
            out.add("/")
        for c in pr[1:]:
            if isinstance(c, list):
                prog_ops(c, out)
    return out


def agree(a, b):
    if isinstance(a, (complex, np.complexfloating)) or isinstance(
            b, (complex, np.complexfloating)):
        try:
            za, zb = complex(a), complex(b)
            if za != za or zb != zb:
                # nan parts (overflowing complex powers): nan agrees with nan, part by part
                same = lambda u, v: (u != u and v != v) or u == v or (  # noqa: E731
                    abs(u - v) <= 1e-9 * max(1, abs(v)))
                return same(za.real, zb.real) and same(za.imag, zb.imag)
            return abs(za - zb) <= 1e-9 * max(1, abs(zb))
        except Exception:
            return False
    if isinstance(a, float) or isinstance(b, float) or isinstance(
            a, np.floating) or isinstance(b, np.floating):
        try:
            fa, fb = float(a), float(b)
        except Exception:
            return False
        if fa != fa and fb != fb:
            return True
        if fa == fb:
            return True
        # cancellation after an inexact Fraction->float conversion leaves an
        # absolute error relative to the operands, not to the result
        return abs(fa - fb) <= 1e-9 * max(1.0, abs(fa), abs(fb))
    if isinstance(a, complex) or isinstance(b, complex):
        try:
            return abs(complex(a) - complex(b)) <= 1e-12 * max(1, abs(complex(b)))
        except Exception:
            return False
    try:
        return bool(a == b)
    except Exception:
        return False


def symbolic_tree(res, prog):
    it = Interp(True)
    try:
        tree = it.run(prog)
    except Refusal:
        res.label("refused-bool-operand")
        return None, it
    except ReceiverFolded:
        res.skip("receiver-folded-to-number")
        return None, it
    except PlainUndefined:
        res.skip("plain-computation-undefined-everywhere")
        return None, it
    except NumberQuotient:
        res.skip("quotient-of-two-numbers(C19)")
        return None, it
    except RefSkip:
        res.skip("refskip:number-too-large")
        return None, it
    except Exception as exc:
        it.construction_error = exc
        return None, it
    return tree, it


def _is_num(x):
    return isinstance(x, (int, float, Fraction, np.integer, np.floating)) \
        and not isinstance(x, bool)


def _has_float_literal(pr):
    if isinstance(pr, list):
        if len(pr) == 3 and pr[0] == "n" and "float" in str(pr[1]):
            return True
        return any(_has_float_literal(c) for c in pr)
    return False


def _exact_shadow_differs(prog, env, v):
    """a truth value / integer computed through floats (a comparison, a floor of inexact
    operands): with the float literals taken as exact rationals the plain program itself
    gives another answer, so the plain answer was decided by rounding noise"""
    try:
        ve = Interp(False, env, exact=True).run(prog)
    except RecursionError:
        raise
    except Exception:
        return True
    try:
        return bool(ve != v)
    except Exception:
        return False


def _has_complex_literal(pr):
    if isinstance(pr, list):
        if len(pr) == 3 and pr[0] == "n" and "complex" in str(pr[1]):
            return True
        return any(_has_complex_literal(c) for c in pr)
    return False


def _ill_conditioned(prog, env, v):
    """Shadow run with float literals taken as exact rationals: does the plain float
    result *v* have anything to do with the program's exact value?"""
    if abs(v) >= 1e12:
        # operands and constants are small: a float of this size that the other side does
        # not reproduce is the reciprocal of cancellation noise (the shadow run below
        # cannot be exact once an irrational power took part)
        return True
    try:
        ve = Interp(False, env, exact=True).run(prog)
    except RecursionError:
        raise
    except Exception:
        return True         # exactly: a division by zero or the like
    if isinstance(ve, (int, Fraction, float)) and not isinstance(ve, bool):
        # (a float here: the exact base went through a fractional power)
        try:
            return abs(float(ve) - v) > 1e-9 * max(1.0, abs(v))
        except OverflowError:
            return True
    return False


def compare_envs(res, prog, tree, env_specs, exact_mode=False):
    """exact_mode: integer environments, where a shortcut (x**0 -> 1) cannot change the
    type of an operand from Fraction to int and with it the type of a later power"""
    n_def = 0
    for env_spec in env_specs:
        env = envs.build_env(env_spec)
        env.setdefault("abs", abs)
        plain = Interp(False, env)
        try:
            v = plain.run(prog)
        except RefSkip:
            continue
        except HarnessError:
            raise
        except Exception:
            res.extra_undefined = getattr(res, "extra_undefined", 0) + 1
            continue  # the plain computation is undefined here: outside the domain
        n_def += 1
        try:
            ref = ref_eval(tree, env)
        except RefSkip:
            continue
        res.compared()
        small = {k: v_ for k, v_ in env_spec.items() if k in "xyzkwabc"}
        if isinstance(v, (complex, np.complexfloating)) and not _has_complex_literal(prog):
            # a negative base under a fractional power: which of the two conjugate
            # branches comes out depends on how the exponent was spelled (x**-1.5 or
            # 1/x**1.5) - outside the domain of real programs
            res.label("complex-from-real-operands")
            continue
        if ref[0] == "err" and isinstance(v, float) and (
                {n for n, _ in ref[1]} <= {"ZeroDivisionError"}
                or _ill_conditioned(prog, env, v)):
            # an exact zero on one side, rounding noise on the other (a spliced sum is
            # added in another grouping): the signature of cancellation in inexact
            # arithmetic; with exact operands the same defect would still be reported
            res.label("ill-conditioned-float-environment")
            continue
        if ref[0] == "err":
            res.fail("tree-raises-where-plain-defined",
                     f"plain value {describe(v)}, tree {tree!r} raises "
                     f"{sorted(n for n, _ in ref[1])} at {small}")
            break
        if not agree(ref[1], v) and (
                (isinstance(v, float) and _ill_conditioned(prog, env, v))
                or (isinstance(v, (bool, int)) and plain.saw_float and plain.near_jump)):
            # (a truth value / integer computed through inexact floats - a comparison, a
            # truth test, a floor - is decided by rounding noise once the operands cancel;
            # an irrational power makes even the rational shadow run inexact)
            # the plain float computation is itself far from the exact value of the
            # program (cancellation followed by a division ...): nothing to compare with
            res.label("ill-conditioned-float-environment")
            continue
        if not agree(ref[1], v):
            res.fail("value-mismatch",
                     f"plain value {describe(v)}, tree {tree!r} evaluates to "
                     f"{describe(ref[1])} at {small}")
            break
        if exact_mode and isinstance(v, int) and not isinstance(v, bool) \
                and isinstance(ref[1], (float, np.floating)) and ref[1] != v:
            # the tolerance above is for floats that take part in the plain computation;
            # an exact plain result that comes back inexact is a different computation
            res.fail("value-inexact",
                     f"plain value is the exact {describe(v)}, tree {tree!r} evaluates to "
                     f"{describe(ref[1])} at {small}")
            break
    return n_def


BASE = dict(S.BASE_ENV)


def env_list(prog, mode):
    names = sorted(_vars(prog))
    if mode == "mat":
        mats = [["Mat", [[1, 2], [3, 4]]], ["Mat", [[0, 1], [1, 1]]],
                ["Mat", [[2, 0], [1, -1]]], ["Mat", [[1, 1], [0, 1]]]]
        out = []
        for combo in itertools.permutations(mats, min(len(names), 3)):
            e = dict(BASE)
            e.update(zip(names, combo))
            out.append(e)
        return out[:12]
    if mode == "int":
        vals = envs.BOX_INT
    else:
        vals = (["Frac", -3, 2], ["Frac", -1, 1], ["Frac", 0, 1], ["Frac", 1, 2],
                ["Frac", 1, 1], ["Frac", 2, 1], ["Frac", 7, 4])
    out = []
    for combo in itertools.product(vals, repeat=len(names)):
        e = dict(BASE)
        e.update(zip(names, combo))
        out.append(e)
    return out


def _vars(pr, out=None):
    out = set() if out is None else out
    if isinstance(pr, list) and pr:
        if pr[0] == "v":
            out.add(pr[1])
        else:
            for c in pr[1:]:
                if isinstance(c, list):
                    _vars(c, out)
    return out


def _retype_prog(s, how):
    if isinstance(s, list):
        if len(s) == 3 and s[0] == "n":
            if how == "i2f" and s[1] == "int" and abs(s[2]) < 2 ** 50:
                return ["n", "float", float(s[2])]
            if how == "f2i" and s[1] == "float" and s[2] == s[2] \
                    and abs(s[2]) < 2 ** 50 and s[2] == int(s[2]):
                return ["n", "int", int(s[2])]
            return s
        return [_retype_prog(c, how) for c in s]
    return s


def check_program(spec):
    """spec: {"prog":..., "mode": "int"|"frac"|"mat"}"""
    res = Result()
    prog, mode = spec["prog"], spec["mode"]
    ops = prog_ops(prog)
    if mode != "int" and ops & INT_ONLY:
        mode = "int"
    if mode == "int" and "/" in ops:
        # true division of ints gives floats: compare over Fractions instead,
        # unless integer-only operators are present too (then stay on ints)
        if not ops & INT_ONLY:
            mode = "frac"
    how = twin_how(prog)
    if how:
        # the same program with its numbers retyped (4 -> 4.0 / 2.0 -> 2) is run through
        # the operators first: nothing of it may stick to this program's tree
        twin = _retype_prog(prog, how)
        if twin != prog:
            res.label("twin-first")
            try:
                Interp(True).run(twin)
            except RecursionError:
                raise
            except BaseException as exc_:
                if isinstance(exc_, (KeyboardInterrupt, SystemExit)) or \
                        type(exc_).__name__ == "CaseTimeout":
                    raise
    tree, it = symbolic_tree(res, prog)
    exc = getattr(it, "construction_error", None)
    if exc is not None:
        # a violation only if the plain computation is defined somewhere
        for env_spec in env_list(prog, mode):
            env = envs.build_env(env_spec)
            env.setdefault("abs", abs)
            try:
                v = Interp(False, env).run(prog)
            except Exception:
                continue
            small = {k: v_ for k, v_ in env_spec.items() if k in "xyzkw"}
            return res.fail("construction-raised:" + exc_site(exc),
                            f"building the tree raised {type(exc).__name__}: {exc}; "
                            f"plain value {describe(v)} at {small}")
        return res.skip("plain-computation-undefined-everywhere")
    if tree is None:
        return res
    tree = _pythonize(tree)
    tree_ops = walk.n_operator_nodes(tree) if isinstance(tree, p.Expression) else 0
    if tree_ops < it.n_ops:
        res.label("shortcut-taken")
    if it.reflected:
        res.label("reflected")
    res.label("mode:" + mode)
    if mode == "mat":
        res.label("mat")
    n_def = compare_envs(res, prog, tree, env_list(prog, mode), exact_mode=mode == "int")
    if n_def == 0:
        return res.skip("plain-computation-undefined-everywhere")
    res.nontrivial = it.n_ops >= 2 and (tree_ops < it.n_ops or it.reflected)
    res.sample = {"program": prog, "tree": repr(tree), "mode": mode,
                  "environments_defined": n_def}
    return res


def check_order(spec):
    """Ordering comparisons between an expression and anything raise TypeError."""
    res = Result()
    a, _ = symbolic_tree(res, spec["a"])
    b, _ = symbolic_tree(res, spec["b"])
    if a is None or b is None:
        return res
    if not (isinstance(a, p.Expression) or isinstance(b, p.Expression)):
        return res.skip("no-expression-operand")
    for name, fn in (("<", operator.lt), ("<=", operator.le),
                     (">", operator.gt), (">=", operator.ge)):
        res.compared()
        try:
            r = fn(a, b)
        except TypeError:
            continue
        except Exception as exc:
            res.fail("order-comparison-wrong-exception",
                     f"{a!r} {name} {b!r} raised {type(exc).__name__}")
            continue
        res.fail("order-comparison-returned",
                 f"{a!r} {name} {b!r} returned {r!r} instead of raising TypeError")
    res.nontrivial = True
    res.sample = {"a": repr(a), "b": repr(b)}
    return res


SHRINK = {
    "is_node": lambda x: isinstance(x, list) and len(x) >= 2 and x[0] in (
        "v", "n", "bin", "un", "abs", "call", "idx", "attr", "meth", "fsum",
        "fprod", "lincomb", "quot"),
    "is_atom": lambda v: v[0] in ("v", "n"),
    "leaves": (["n", "int", 0], ["n", "int", 1], ["n", "int", 2], ["v", "x"]),
}

CHECKS = {"program": check_program, "cell": check_program, "order": check_order}

# {{{ exhaustive (operator, left kind, right kind) cells

V = lambda n: ["v", n]  # noqa: E731
N = lambda t, v: ["n", t, v]  # noqa: E731

KINDS = {
    "Variable": V("x"),
    "Sum": ["bin", "+", V("y"), V("z")],
    "Product": ["bin", "*", V("y"), V("z")],
    "Quotient": ["bin", "/", V("y"), V("z")],
    "FloorDiv": ["bin", "//", V("y"), V("z")],
    "Remainder": ["bin", "%", V("y"), V("z")],
    "Power": ["bin", "**", V("y"), N("int", 2)],
    "Call": ["call", "f1", [V("y")], []],
    "Subscript": ["idx", "A", N("int", 1)],
    "Neg": ["un", "-", V("y")],
    "0": N("int", 0), "1": N("int", 1), "-1": N("int", -1), "2": N("int", 2),
    "0.0": N("float", 0.0), "1.0": N("float", 1.0), "-0.0": N("float", -0.0),
    "True": N("bool", True), "False": N("bool", False),
    "np.int64(1)": N("np.int64", 1), "np.int64(0)": N("np.int64", 0),
    "np.int64(3)": N("np.int64", 3),
    "0.5": N("float", 0.5), "2.0": N("float", 2.0), "-2": N("int", -2),
    "Power3": ["bin", "**", V("y"), N("int", 3)],
    "PowerVar": ["bin", "**", V("y"), V("z")],
}
KINDS_R = dict(KINDS)
KINDS_R.update({"Variable": V("w"), "Sum": ["bin", "+", V("w"), V("x")],
                "Product": ["bin", "*", V("w"), V("x")]})


def all_cells():
    cells = []
    for op in BIN:
        for lk, lp in KINDS.items():
            for rk, rp in KINDS_R.items():
                if lp[0] == "n" and rp[0] == "n":
                    continue  # no pymbolic involvement
                kinds_ops = prog_ops(lp) | prog_ops(rp) | {op}
                if "/" in kinds_ops and kinds_ops & INT_ONLY:
                    continue  # no exact common domain (see ASSUMPTIONS)
                cells.append({"prog": ["bin", op, lp, rp],
                              "mode": "int" if kinds_ops & INT_ONLY else "frac",
                              "cell": [op, lk, rk]})
    for op in UN:
        for lk, lp in KINDS.items():
            if lp[0] != "n":
                cells.append({"prog": ["un", op, lp], "mode": "int", "cell": [op, lk]})
    # constructor methods applied to results of constructor methods: every ordered pair of
    # the logical ones, on either side, plus a comparison below a logical method
    logical = ("and_", "or_")
    for m1 in logical + ("not_",):
        inner = ["meth", m1, V("x"), None if m1 == "not_" else V("y")]
        for m2 in logical:
            cells.append({"prog": ["meth", m2, inner, V("z")], "mode": "int",
                          "cell": [m2, m1, "receiver"]})
            cells.append({"prog": ["meth", m2, V("z"), inner], "mode": "int",
                          "cell": [m2, m1, "argument"]})
        cells.append({"prog": ["meth", "not_", inner, None], "mode": "int",
                      "cell": ["not_", m1]})
    for cmp_ in ("eq", "lt", "ge"):
        inner = ["meth", cmp_, V("x"), V("y")]
        for m2 in logical:
            cells.append({"prog": ["meth", m2, inner, ["meth", cmp_, V("y"), V("z")]],
                          "mode": "int", "cell": [m2, cmp_]})
    return cells

# }}}


# {{{ random programs

NUMS = [N("int", v) for v in (0, 1, -1, 2, 3, -2, 5)] + [
    N("float", v) for v in (0.0, 1.0, -0.0, 2.0, 0.5)] + [
    N("bool", True), N("bool", False), N("np.int64", 1), N("np.int64", 4)]


@st.composite
def program(draw, depth=4, ops=tuple(BIN), mat=False):
    d = draw

    def rec(depth):
        if depth <= 0 or d(st.integers(0, 4 + depth)) == 0:
            if d(st.integers(0, 2)) == 0:
                if mat:
                    return N("int", d(st.sampled_from((0, 1, -1, 2, 3))))
                return d(st.sampled_from(NUMS))
            return V(d(st.sampled_from(("x", "y", "z"))))
        c = d(st.integers(0, 19))
        if mat:
            if c <= 1:
                return ["un", d(st.sampled_from(("-", "+"))), rec(depth - 1)]
            if c == 2:
                return ["bin", "**", rec(depth - 1), N("int", d(st.integers(0, 3)))]
            if c == 3:
                return ["fprod", [rec(depth - 1) for _ in range(d(st.integers(1, 3)))]]
            if c == 4:
                return ["fsum", [rec(depth - 1) for _ in range(d(st.integers(1, 3)))]]
            return ["bin", d(st.sampled_from(("+", "-", "*", "*", "*"))),
                    rec(depth - 1), rec(depth - 1)]
        if c <= 11:
            op = d(st.sampled_from(ops))
            if op == "**":
                ex = d(st.sampled_from([N("int", 0), N("int", 1), N("int", 2),
                                        N("int", 3), N("int", -1), V("k"),
                                        N("bool", True), N("float", 1.0),
                                        N("float", 0.5), N("float", 2.0), N("float", 1.5),
                                        N("float", -0.5)]))
                if d(st.integers(0, 3)) == 0:   # power of a power
                    inner = ["bin", "**", rec(depth - 1), d(st.sampled_from(
                        [N("int", 2), N("int", 3), N("float", 2.0), N("int", -2), V("k")]))]
                    return ["bin", "**", inner, ex]
                if d(st.integers(0, 5)) == 0:
                    return ["bin", "**", d(st.sampled_from(NUMS)), rec(depth - 1)]
                return ["bin", "**", rec(depth - 1), ex]
            if op in ("<<", ">>"):
                if d(st.integers(0, 4)) == 0:
                    return ["bin", op, d(st.sampled_from(NUMS[:7])), V("k")]
                return ["bin", op, rec(depth - 1),
                        d(st.sampled_from([N("int", 0), N("int", 1), N("int", 3), V("k")]))]
            return ["bin", op, rec(depth - 1), rec(depth - 1)]
        if c == 12:
            return ["un", d(st.sampled_from(tuple(u for u in UN
                                                  if u != "~" or "&" in ops))),
                    rec(depth - 1)]
        if c == 13:
            return ["abs", rec(depth - 1)]
        if c == 14:
            f = d(st.sampled_from(("f1", "f2", "g", "h")))
            lo, hi = envs.FUNC_ARITY[f]
            kws = []
            if f in envs.FUNC_KW and d(st.booleans()):
                kws = [[k, rec(depth - 1)] for k in d(st.lists(
                    st.sampled_from(envs.FUNC_KW[f]), unique=True, max_size=2))]
            return ["call", f, [rec(depth - 1) for _ in range(d(st.integers(lo, hi)))], kws]
        if c == 15:
            return ["idx", "A", N("int", d(st.integers(-4, 3)))] if d(st.booleans()) \
                else ["attr", "O", d(st.sampled_from(("a", "b", "b_", "a_", "n_it_", "n_it")))]
        if c == 16:
            m = d(st.sampled_from(tuple(CMP) + ("and_", "or_", "not_")))
            rc = d(st.integers(0, 3))
            if rc == 0:
                recv = ["bin", "+", V(d(st.sampled_from(("x", "y")))), rec(depth - 1)]
            elif rc == 1:
                # a constructor method applied to the result of another one
                inner = d(st.sampled_from(("not_", "not_", "eq", "and_", "lt")))
                recv = ["meth", inner, V(d(st.sampled_from(("x", "y", "z")))),
                        None if inner == "not_" else rec(depth - 1)]
            else:
                recv = V(d(st.sampled_from(("x", "y", "z"))))
            return ["meth", m, recv, None if m == "not_" else rec(depth - 1)]
        if c == 17:
            return [d(st.sampled_from(("fsum", "fprod"))),
                    [rec(depth - 1) for _ in range(d(st.integers(0, 4)))]]
        if c == 18:
            n = d(st.integers(0, 3))
            return ["lincomb", [d(st.sampled_from(NUMS[:7])) for _ in range(n)],
                    [rec(depth - 1) for _ in range(n)]]
        return ["quot", rec(depth - 1), rec(depth - 1)]
    return rec(depth)


@st.composite
def program_case(draw):
    c = draw(st.integers(0, 9))
    if c == 0:
        return {"prog": draw(program(draw(st.integers(2, 4)), mat=True)), "mode": "mat"}
    if c <= 4:
        ops = ("+", "-", "*", "/", "**")
        return {"prog": draw(program(draw(st.integers(1, 5)), ops=ops)), "mode": "frac"}
    ops = ("+", "-", "*", "//", "%", "**", "<<", ">>", "&", "|", "^")
    return {"prog": draw(program(draw(st.integers(1, 5)), ops=ops)), "mode": "int"}


def _no_slash(pr):
    return "/" not in prog_ops(pr) and not _has_tag(pr, "quot")


def _has_tag(pr, tag):
    if isinstance(pr, list) and pr:
        if pr[0] == tag:
            return True
        return any(_has_tag(c, tag) for c in pr[1:] if isinstance(c, list))
    return False

# }}}


def generate(ctx):
    cells = all_cells()
    n = 0
    for i, c in enumerate(cells):
        if ctx.mine(i):
            ctx.judge("cell", c)
            n += 1
    ctx.exhaustive["(operator, left kind, right kind) cells"] = n
    order_operands = [KINDS[k] for k in ("Variable", "Sum", "Product", "Call", "0",
                                         "1", "0.0", "True", "np.int64(1)")]
    k = 0
    for i, (a, b) in enumerate(itertools.product(order_operands, repeat=2)):
        if a[0] == "n" and b[0] == "n":
            continue
        if ctx.mine(i):
            ctx.judge("order", {"a": a, "b": b})
            k += 1
    ctx.exhaustive["order-comparison operand pairs"] = k
    ctx.run_given(program_case(), lambda s: ctx.judge("program", s), ctx.n(12000, 400000))


MANIFEST = {
    "text": ("Differential check of operator-built trees against the same computation on "
             "plain numbers: exhaustive over every (operator, left kind, right kind) cell "
             "including the special operands 0, 1, -1, 0.0, -0.0, True, numpy scalars and "
             "operands that are already sums/products/quotients, over a full small box of "
             "environments; random deeper programs; 2x2 matrix values expose any "
             "reordering of non-commuting operands; ordering comparisons must raise."),
    "note": ("Trusted: the tiny program interpreter and pbt/refsem.py. Integer-only "
             "operators are compared over integers, '/' over Fractions."),
    "technique": "exhaustive cell enumeration + property-based differential testing against plain Python arithmetic",
    "design_ref": "DESIGN.md section 4, C03",
}
