"""C11 - algebraic rewrites preserve value and reach their normal forms.

Rewrites under test: pymbolic.flatten (FlattenMapper), ConstantFoldingMapper,
CommutativeConstantFoldingMapper, TermCollector, pymbolic.expand / distribute
(DistributeMapper) and the helpers flattened_sum / flattened_product.

Sub-checks
  flatten  value + no exception + shape (no Sum in Sum, no Product in Product, no 0 in a Sum,
           no 1 in a Product) on RATIONAL trees and on trees over every evaluable node type
  fold     ConstantFoldingMapper: value + no exception + at most one number in each Sum
  cfold    CommutativeConstantFoldingMapper: the same, and each Product
  collect  TermCollector (with and without parameters) on flat sums of multiplicative terms
  expand   expand / distribute(parameters) / distribute(commutative=False) on RATIONAL trees;
           on POLY trees additionally the expansion normal form
  pairs    two POLY trees equal as functions by construction expand to equal term multisets
  helpers  flattened_sum / flattened_product on operand lists (value, shape, operand order)

Genuine defects found on the unchanged tree are listed in findings/C11.json (F23a, F23b,
F-C11-powpow, F-C11-dist-leading, F-C11-quotient-term, F-C11-fold-arith) with the predicates
in KNOWN below; findings/C11.fix.diff repairs all of them (the check is then quiet without any
predicate).

Value oracle: pbt.polynf (exact rational-function normal form, decided per instance) for
RATIONAL trees; an exact-arithmetic reference interpreter over a box of environments for all
trees (also finds a pole introduced where the input evaluates).
"""
from __future__ import annotations

import itertools
import math
from collections import Counter
from fractions import Fraction

import numpy as np
from hypothesis import strategies as st

import pymbolic
import pymbolic.primitives as p
from pymbolic.mapper.collector import TermCollector
from pymbolic.mapper.constant_folder import (
    CommutativeConstantFoldingMapper,
    ConstantFoldingMapper,
)

from pbt import c11_gen as G, strategies as S, walk
from pbt.envs import build_env
from pbt.polynf import Converter as _BaseConverter, NotRational
from pbt.refsem import (MAX_EXP, RefError, RefEvaluator, RefSkip, _apply, describe, exc_site,
                        values_agree, values_close)
from pbt.runner import Result
from pbt.spec import HarnessError, build, is_node_spec, subspecs

PROP = "C11"
LEVEL = "exploration"
RULE = ("Generated trees per rewrite: RATIONAL (variables, constants of mixed type incl. the "
        "neutral elements 0/1/0.0/1.0/True/False, sums, products, quotients, integer powers of "
        "any sign) and all evaluable node types for flatten and both constant folders, with "
        "nested same-type operands, neutral elements and extra numeric operands planted; flat "
        "sums of multiplicative terms with engineered like terms (and parameters) for "
        "TermCollector; RATIONAL and POLY (non-negative exponents, no quotients) for "
        "expand/distribute; POLY pairs equal as functions by construction (commutation, "
        "re-association, partial distribution, power unrolling, Horner and canonical forms, "
        "cancelling terms) for the expansion normal form; operand lists for "
        "flattened_sum/flattened_product. Non-trivial = input with a nested same-type n-ary "
        "node or a neutral element (flatten, helpers); >=2 constant operands in one n-ary node "
        "(fold, cfold); >=2 like terms (collect); >=2 like terms after expansion or a product/"
        "power of sums (expand); structurally different sides with >=2 terms (pairs). Distinct "
        "by sha1 of the case spec.")
ASSUMPTIONS = [
    "pbt/polynf.py decides equality of rational functions exactly (Fraction arithmetic); "
    "opaque leaves (calls, subscripts, symbolic powers) are indeterminates",
    "the exact-arithmetic reference interpreter in this module (pbt/refsem.py with float "
    "constants read as exact rationals and int/int division exact) states the value 'over exact "
    "commutative arithmetic'; environments where it raises for the input are not judged",
    "the library folds constants with Python numbers: a result that differs from the input only "
    "by binary floating-point rounding of such constants (relative 1e-9, only accepted when a "
    "float occurs in input or output) is not a violation; generators make constant arithmetic "
    "exact by construction (constant denominators are powers of two), the share of cases "
    "accepted by tolerance is reported as label 'float-rounding'",
    "a rewrite that raises an ArithmeticError on an input that is undefined in every environment "
    "looked at (1/0 or 0**-1 outside any conditional) is not judged (label "
    "'undefined-input:rewrite-raises'); where the input evaluates somewhere it is a failure",
    "generated expansions are kept small (pbt/c11_gen.py tame(): degree <= 10 and <= 400 terms "
    "per power); cases that exceed CASE_TIMEOUT_S are skipped and counted",
    "a 'constant operand' of a folded sum/product is a number (non-Expression) operand",
    "terms of an expansion are the operands of its top-level sum(s); a term's coefficient and "
    "monomial are read off its exact polynomial value",
]
HEALTH = {"flatten:nontrivial": 0.06, "fold:two-constants": 0.06, "collect:like-terms": 0.02,
          "expand:nontrivial": 0.04, "pairs:nontrivial": 0.015, "dom:evaluable": 0.08,
          "mixed-type-constants": 0.08}
CASE_TIMEOUT_S = 10
TIMEOUT_IS_FAIL = False

NUMBER = (int, float, complex, np.number, np.bool_, Fraction)
MAX_POW = 64


class Converter(_BaseConverter):
    """pbt.polynf.Converter reads integer powers up to 12 and takes larger ones as opaque;
    expansions multiply exponents out ((x**5)**3 -> x**15), so read them up to 64."""

    def __call__(self, e):
        if type(e) is p.Power:
            ex = e.exponent
            if isinstance(ex, (int, np.integer)) and not isinstance(ex, bool) \
                    and 12 < abs(int(ex)) <= MAX_POW:
                return self(e.base) ** int(ex)
        return super().__call__(e)


def _is_num(x):
    return isinstance(x, NUMBER) and not isinstance(x, p.Expression)


# {{{ exact-arithmetic reference interpreter

def _exactify(v):
    if isinstance(v, (np.bool_,)):
        return bool(v)
    if isinstance(v, np.integer):
        return int(v)
    if isinstance(v, (float, np.floating)):
        f = float(v)
        if math.isfinite(f):
            fr = Fraction(f)
            return int(fr) if fr.denominator == 1 else fr
        return f
    return v


def _exact_div(a, b):
    a, b = _exactify(a), _exactify(b)
    if isinstance(a, (int, Fraction)) and isinstance(b, (int, Fraction)):
        if b == 0:
            raise ZeroDivisionError
        r = Fraction(a) / Fraction(b)
        return int(r) if r.denominator == 1 else r
    return a / b


def _exact_pow(a, b):
    a, b = _exactify(a), _exactify(b)
    if isinstance(b, (int, Fraction)) and not isinstance(b, bool) and abs(b) > MAX_EXP:
        raise RefSkip("exponent too large")
    if isinstance(a, (int, Fraction)) and isinstance(b, int):
        if b < 0:
            if a == 0:
                raise ZeroDivisionError
            r = Fraction(a) ** b
            return int(r) if r.denominator == 1 else r
        return a ** b
    return a ** b


class ExactRef(RefEvaluator):
    def ev(self, e):
        if not isinstance(e, p.Expression):
            if isinstance(e, (float, np.generic)):
                return _exactify(e)
            return super().ev(e)
        t = type(e).__name__
        if t == "Quotient":
            a, b = self.strict([e.numerator, e.denominator])
            return _apply(_exact_div, a, b)
        if t == "Power":
            a, b = self.strict([e.base, e.exponent])
            return _apply(_exact_pow, a, b)
        return super().ev(e)


def exact_eval(e, env):
    try:
        return ("val", ExactRef(env).ev(e))
    except RefError as err:
        return ("err", err.errs)

# }}}


# {{{ tree classification

RAT_TYPES = {"Sum", "Product", "Quotient", "Power", "Variable"}


def _is_rational_tree(e):
    """Sum/Product/Quotient/Power with integer-constant exponent over variables, numbers and
    opaque leaves that contain no rewritable arithmetic."""
    if not isinstance(e, p.Expression):
        return _is_num(e) and not isinstance(e, (complex, np.complexfloating)) \
            and (not isinstance(e, (float, np.floating)) or math.isfinite(float(e)))
    t = type(e).__name__
    if t == "Variable":
        return True
    if t in ("Sum", "Product"):
        return all(_is_rational_tree(c) for c in e.children)
    if t == "Quotient":
        return _is_rational_tree(e.numerator) and _is_rational_tree(e.denominator)
    if t == "Power":
        ex = e.exponent
        if isinstance(ex, int) and not isinstance(ex, bool) and abs(ex) <= MAX_POW:
            return _is_rational_tree(e.base)
        # symbolic exponents: the collector adds them up (x*x**k -> x**(1+k)), so such a
        # power is no indeterminate; judged by the reference interpreter only
        return False
    return _opaque_ok(e)


def _opaque_ok(e):
    if type(e).__name__ not in ("Call", "Subscript", "Lookup"):
        return False
    return not (walk.node_types(e) & {"Sum", "Product", "Quotient", "CommonSubexpression"})


def _has_float(*trees):
    for t in trees:
        for _, n in walk.occurrences(t):
            if isinstance(n, (float, np.floating)):
                return True
    return False


BOX_VALUES = (0, 1, -1, 2, ["Frac", 1, 2], 3, -2)
FIXED_ENV = {"k": 2, "m": 0, "r": ["Frac", 1, 2], "s": ["Frac", -3, 4], "p": True, "q": False,
             "x": 1, "y": -2, "z": 3, "a": 2, "b": -3}
MAX_ENVS = 125


def _box(e):
    names = sorted(walk.variables(e) & set(G.VARS + G.PARAMS + ("k", "m", "p", "q", "r", "s")))
    names = [n for n in names if n in G.VARS + G.PARAMS][:3]
    vals = BOX_VALUES[:5] if len(names) >= 3 else BOX_VALUES
    combos = list(itertools.product(vals, repeat=len(names)))
    step = max(1, len(combos) // MAX_ENVS)
    base = dict(S.BASE_ENV)
    base.update(FIXED_ENV)
    out = []
    for combo in combos[::step]:
        env = dict(base)
        env.update(zip(names, combo))
        out.append((dict(zip(names, combo)), build_env(env)))
    return out


POINTS = (
    {"x": Fraction(3, 7), "y": Fraction(-5, 11), "z": Fraction(13, 5), "a": Fraction(7, 3),
     "b": Fraction(-2, 9)},
    {"x": Fraction(-8, 3), "y": Fraction(9, 4), "z": Fraction(-1, 6), "a": Fraction(5, 8),
     "b": Fraction(11, 2)},
    {"x": Fraction(17, 2), "y": Fraction(2, 13), "z": Fraction(-7, 9), "a": Fraction(-4, 5),
     "b": Fraction(3, 10)},
)


def _numerically_close(a, b, conv):
    """Two RatFuncs agree to 1e-9 (relative) at the sample points."""
    hit = 0
    for i, pt in enumerate(POINTS):
        env = dict(pt)
        for j, nm in enumerate(sorted(conv.opaque_names.values())):
            env[nm] = Fraction(2 * j + 3 + i, 7 + j)
        for nm in (a.n.variables() | a.d.variables() | b.n.variables() | b.d.variables()):
            env.setdefault(nm, Fraction(5, 3))
        try:
            va, vb = a.eval(env), b.eval(env)
        except ZeroDivisionError:
            continue
        hit += 1
        if abs(va - vb) > Fraction(1, 10**9) * max(1, abs(va), abs(vb)):
            return False
    return hit > 0

# }}}


# {{{ value preservation

def _defined_somewhere(e):
    """The input has a value in at least one environment we look at (rational trees: as a
    rational function, i.e. at a generic point)."""
    if _is_rational_tree(e):
        try:
            Converter()(e)
        except ZeroDivisionError:
            return False
        except NotRational:
            pass
        else:
            return True
    for _, env in _box(e):
        try:
            if exact_eval(e, env)[0] == "val":
                return True
        except RefSkip:
            continue
    return False


def _call(res, name, thunk, what, e=None):
    try:
        return True, thunk()
    except RecursionError:
        raise
    except Exception as exc:
        if isinstance(exc, ArithmeticError) and e is not None and not _defined_somewhere(e):
            # the plain computation is undefined everywhere we look (1/0, 0**-1 outside any
            # conditional): raising its arithmetic error early is not judged
            res.label("undefined-input:rewrite-raises")
            return False, None
        res.fail(f"{name}:raised:{exc_site(exc)}",
                 f"{name}({what}) raised {type(exc).__name__}: {exc}")
        return False, None


def check_value(res, name, e, out):
    """The two value oracles; returns 'undefined' if the input evaluates nowhere we look."""
    floaty = None
    defined = False
    if _is_rational_tree(e):
        conv = Converter()
        a = None
        try:
            a = conv(e)
        except ZeroDivisionError:
            res.label("input-identically-undefined")
        except NotRational as exc:
            raise HarnessError(f"rational tree without normal form: {exc}") from None
        if a is not None:
            defined = True
            res.compared()
            try:
                b = conv(out)
            except ZeroDivisionError:
                res.fail(f"{name}:result-divides-by-zero-identically",
                         f"{name}({e!r}) = {out!r}")
                b = None
            except NotRational as exc:
                res.fail(f"{name}:result-not-rational",
                         f"{name}({e!r}) = {out!r}: {exc}")
                b = None
            if b is not None and not (a == b):
                floaty = _has_float(e, out)
                if floaty and _numerically_close(a, b, conv):
                    res.label("float-rounding")
                else:
                    res.fail(f"{name}:value-changed",
                             f"{name}({e!r}) = {out!r}: normal forms {a!r} vs {b!r}")
    # box of environments (also for rational trees: poles must not be introduced)
    for shown, env in _box(e):
        try:
            ref = exact_eval(e, env)
            if ref[0] == "err":
                continue
            defined = True
            got = exact_eval(out, env)
        except RefSkip:
            continue
        res.compared()
        if got[0] == "err":
            res.fail(f"{name}:undefined-where-input-defined",
                     f"{name}({e!r}) = {out!r} at {shown}: input evaluates to "
                     f"{describe(ref[1])}, result raises {sorted(n for n, _ in got[1])}")
            break
        if not values_agree(got[1], ref[1]):
            if floaty is None:
                floaty = _has_float(e, out)
            if floaty and values_close(_fl(got[1]), _fl(ref[1]), 1e-9):
                res.label("float-rounding")
                continue
            res.fail(f"{name}:value-differs-at-point",
                     f"{name}({e!r}) = {out!r} at {shown}: {describe(got[1])} vs input "
                     f"{describe(ref[1])}")
            break
    return defined


def _fl(v):
    if isinstance(v, Fraction):
        return float(v)
    return v

# }}}


# {{{ shapes

def shape_flatten(res, name, out):
    for _, n in walk.occurrences(out):
        if type(n) is p.Sum:
            for c in n.children:
                if isinstance(c, p.Sum):
                    res.fail(f"{name}:shape:Sum-child-of-Sum", f"{out!r}")
                elif _is_num(c) and c == 0:
                    res.fail(f"{name}:shape:zero-in-Sum", f"{out!r}")
        elif type(n) is p.Product:
            for c in n.children:
                if isinstance(c, p.Product):
                    res.fail(f"{name}:shape:Product-child-of-Product", f"{out!r}")
                elif _is_num(c) and c == 1:
                    res.fail(f"{name}:shape:one-in-Product", f"{out!r}")


def shape_fold(res, name, out, products):
    for _, n in walk.occurrences(out):
        if type(n) is p.Sum or (products and type(n) is p.Product):
            k = sum(1 for c in n.children if _is_num(c))
            if k > 1:
                res.fail(f"{name}:shape:{k if k < 3 else 'many'}-numbers-in-{type(n).__name__}",
                         f"{n!r} in {out!r}")


def _const_operand_groups(e):
    """For every Sum / Product of the input: number of constant-only operands after splicing
    same-type children (what a folder can merge)."""
    out = []
    for _, n in walk.occurrences(e):
        if type(n) in (p.Sum, p.Product):
            ops = []

            def add(x, tp=type(n)):
                if type(x) is tp:
                    for c in x.children:
                        add(c)
                else:
                    ops.append(x)
            add(n)
            out.append((type(n).__name__,
                        sum(1 for c in ops if not walk.variables(c)
                            and not (walk.node_types(c) & {"Call", "Subscript", "Lookup"}))))
    return out

# }}}


# {{{ flatten / fold / cfold

def _mixed_label(res, spec):
    for s in subspecs(spec):
        if s[0] == "Const" and s[1] != "int":
            res.label("mixed-type-constants")
            return


def _flatten_nontrivial(e):
    for _, n in walk.occurrences(e):
        if type(n) is p.Sum:
            if any(isinstance(c, p.Sum) or (_is_num(c) and c == 0) for c in n.children):
                return True
        elif type(n) is p.Product:
            if any(isinstance(c, p.Product) or (_is_num(c) and c == 1) for c in n.children):
                return True
    return False


def _expr_of(spec):
    if not isinstance(spec, dict) or "expr" not in spec:
        raise HarnessError("spec must be {'expr': ...}")
    try:
        return build(spec["expr"])
    except HarnessError:
        raise
    except Exception as exc:      # a shrunk spec the constructors refuse
        raise HarnessError(f"cannot build spec: {exc!r}") from None


def _common(res, spec, e):
    _mixed_label(res, spec["expr"])
    res.label("dom:rational" if _is_rational_tree(e) else "dom:evaluable")


def check_flatten(spec):
    res = Result()
    e = _expr_of(spec)
    _common(res, spec, e)
    ok, out = _call(res, "flatten", lambda: pymbolic.flatten(e), repr(e)[:300], e)
    if ok:
        defined = check_value(res, "flatten", e, out)
        shape_flatten(res, "flatten", out)
        if _flatten_nontrivial(e):
            res.label("flatten:nontrivial")
            res.nontrivial = defined
        res.sample = {"input": repr(e)[:300], "flatten": repr(out)[:300]}
    return res


def _check_folder(spec, name, cls, products):
    res = Result()
    e = _expr_of(spec)
    _common(res, spec, e)
    ok, out = _call(res, name, lambda: cls()(e), repr(e)[:300], e)
    if ok:
        defined = check_value(res, name, e, out)
        shape_fold(res, name, out, products)
        groups = _const_operand_groups(e)
        if any(k >= 2 for t, k in groups if products or t == "Sum"):
            res.label("fold:two-constants")
            res.nontrivial = defined
        res.sample = {"input": repr(e)[:300], name: repr(out)[:300]}
    return res


def check_fold(spec):
    return _check_folder(spec, "fold", ConstantFoldingMapper, False)


def check_cfold(spec):
    return _check_folder(spec, "cfold", CommutativeConstantFoldingMapper, True)

# }}}


# {{{ terms of an expansion

def _top_terms(out):
    if type(out) is p.Sum:
        ts = []
        for c in out.children:
            ts.extend(_top_terms(c))
        return ts
    return [out]


def _term_table(res, name, out, conv=None):
    """list of (coefficient, monomial) of the top-level terms, None if a term is not a
    monomial (reported)."""
    conv = conv or Converter()
    table = []
    for t in _top_terms(out):
        try:
            rf = conv(t)
            poly = rf.as_poly()
        except (ZeroDivisionError, NotRational):
            return None
        if len(poly.t) > 1:
            return None
        if not poly.t:
            table.append((Fraction(0), ()))
        else:
            (m, c), = poly.t.items()
            table.append((c, m))
    return table


def shape_expanded(res, name, out):
    """POLY normal form: no Sum below a Product or an integer Power; terms have pairwise
    different monomials; no zero terms (the zero polynomial is the number 0)."""
    for _, n in walk.occurrences(out):
        if type(n) is p.Product or (type(n) is p.Power and isinstance(n.exponent, int)):
            below = [c for _, c in walk.occurrences(n)][1:]
            if any(isinstance(c, p.Sum) for c in below):
                res.fail(f"{name}:shape:Sum-below-{type(n).__name__}", f"{n!r} in {out!r}")
    table = _term_table(res, name, out)
    if table is None:
        res.fail(f"{name}:shape:term-is-not-a-monomial", f"{out!r}")
        return None
    seen = Counter(m for _, m in table)
    dup = [m for m, k in seen.items() if k > 1]
    if dup:
        res.fail(f"{name}:shape:like-terms-not-merged",
                 f"{out!r}: {seen[dup[0]]} terms with monomial {dup[0]}")
    if len(table) > 1 and any(c == 0 for c, _ in table):
        res.fail(f"{name}:shape:zero-term-kept", f"{out!r}")
    return table

# }}}


# {{{ collect

def _laurent_only(e):
    """terms are products of numbers, variables and integer powers of variables"""
    for _, n in walk.occurrences(e):
        if isinstance(n, p.Expression) and type(n).__name__ not in (
                "Sum", "Product", "Power", "Variable"):
            return False
        if type(n) is p.Power and not (
                isinstance(n.base, p.Variable) and isinstance(n.exponent, int)):
            return False
    return True


def _laurent_key(conv, t, params):
    """(exponent vector over non-parameter variables) of a multiplicative term, or None"""
    try:
        rf = conv(t)
    except (ZeroDivisionError, NotRational):
        return None
    if len(rf.n.t) != 1 or len(rf.d.t) != 1:
        return None
    (mn, _), = rf.n.t.items()
    (md, _), = rf.d.t.items()
    d = Counter()
    for v, k in mn:
        d[v] += k
    for v, k in md:
        d[v] -= k
    return tuple(sorted((v, k) for v, k in d.items() if k and v not in params))


def check_collect(spec):
    res = Result()
    e = _expr_of(spec)
    params = spec.get("params") or []
    if not isinstance(params, list) or not all(isinstance(s, str) for s in params):
        raise HarnessError("params must be a list of names")
    _mixed_label(res, spec["expr"])
    pset = {p.Variable(n) for n in params}
    name = "collect"
    ok, out = _call(res, name,
                    lambda: TermCollector(pset)(e) if params else TermCollector()(e),
                    f"{e!r}, parameters={params}", e)
    if not ok:
        return res
    defined = check_value(res, name, e, out)
    # like terms merged (top-level flat sum over Laurent monomials only)
    if type(e) is p.Sum and _laurent_only(e):
        conv = Converter()
        keys_in = [_laurent_key(conv, t, params) for t in e.children]
        if None not in keys_in:
            if len(set(keys_in)) < len(keys_in):
                res.label("collect:like-terms")
                res.nontrivial = defined
            keys_out = [_laurent_key(conv, t, params) for t in _top_terms(out)]
            if None not in keys_out:
                res.compared()
                # the coefficient of the empty monomial is a sum of constants/parameters that
                # the collector does not fold: its operands all have key ()
                dup = [k for k, c in Counter(keys_out).items() if c > 1 and k]
                if dup:
                    res.fail("collect:like-terms-not-merged",
                             f"TermCollector({params})({e!r}) = {out!r}: monomial {dup[0]} "
                             "occurs in more than one term")
    elif type(e) is p.Sum:
        # symbolic factors: like terms by structural equality of the factor multiset
        ks = Counter(walk.ac_key(p.Product(tuple(
            c for c in (t.children if type(t) is p.Product else (t,)) if not _is_num(c))))
            for t in e.children)
        if any(c > 1 for c in ks.values()):
            res.label("collect:like-terms")
            res.nontrivial = defined
    if params:
        res.label("collect:parameters")
    res.sample = {"input": repr(e)[:300], "parameters": params, "collect": repr(out)[:300]}
    return res

# }}}


# {{{ expand

def _is_poly_tree(e):
    if not isinstance(e, p.Expression):
        return isinstance(e, (int, bool)) or (
            isinstance(e, float) and math.isfinite(e))
    t = type(e).__name__
    if t == "Variable":
        return True
    if t in ("Sum", "Product"):
        return all(_is_poly_tree(c) for c in e.children)
    if t == "Power":
        return isinstance(e.exponent, int) and not isinstance(e.exponent, bool) \
            and 0 <= e.exponent <= MAX_POW and _is_poly_tree(e.base)
    return False


def _product_of_sums(e):
    for _, n in walk.occurrences(e):
        if type(n) is p.Product and any(isinstance(c, p.Sum) for c in n.children):
            return True
        if type(n) is p.Power and isinstance(n.base, p.Sum) and isinstance(n.exponent, int) \
                and n.exponent >= 2:
            return True
    return False


MODES = ("expand", "distribute", "params", "noncommutative")


def _expander(mode, params):
    if mode == "expand":
        return "expand", pymbolic.expand
    if mode == "distribute":
        return "expand", pymbolic.distribute
    if mode == "params":
        ps = frozenset(p.Variable(n) for n in params)
        return "distribute-params", lambda e: pymbolic.distribute(e, parameters=ps)
    if mode == "noncommutative":
        return "distribute-noncommutative", lambda e: pymbolic.distribute(e, commutative=False)
    raise HarnessError(f"unknown mode {mode!r}")


def check_expand(spec):
    res = Result()
    e = _expr_of(spec)
    mode = spec.get("mode", "expand")
    params = spec.get("params") or []
    if not isinstance(params, list) or not all(isinstance(s, str) for s in params):
        raise HarnessError("params must be a list of names")
    name, fn = _expander(mode, params)
    _mixed_label(res, spec["expr"])
    ok, out = _call(res, name, lambda: fn(e), repr(e)[:300], e)
    if not ok:
        return res
    defined = check_value(res, name, e, out)
    poly = _is_poly_tree(e)
    res.label("expand:poly" if poly else "expand:rational")
    nt = _product_of_sums(e)
    if poly and name == "expand":
        table = shape_expanded(res, name, out)
        conv = Converter()
        try:
            n_terms = len(conv(e).as_poly().t)
        except (ZeroDivisionError, NotRational):
            n_terms = 0
        if table is not None and n_terms >= 2:
            # like terms had to be merged if the input's own top-level spelling has more
            # terms than the polynomial
            nt = nt or len(_top_terms(e)) > n_terms
    if nt:
        res.label("expand:nontrivial")
        res.nontrivial = defined
    res.sample = {"input": repr(e)[:300], "mode": mode, name: repr(out)[:300]}
    return res

# }}}


# {{{ pairs

def _apply_ops(spec, ops):
    cur = spec
    for op in ops:
        if not (isinstance(op, list) and len(op) == 2 and isinstance(op[0], str)):
            raise HarnessError(f"bad op {op!r}")
        nm, arg = op
        if nm in ("commute", "reassoc", "distribute", "unroll"):
            if not isinstance(arg, int) or isinstance(arg, bool) or arg < 0:
                raise HarnessError(f"bad op argument {op!r}")
            cur = {"commute": G.t_commute, "reassoc": G.t_reassoc,
                   "distribute": G.t_distribute_one, "unroll": G.t_unroll}[nm](cur, arg)
        elif nm in ("horner", "canonical"):
            try:
                poly = Converter(opaque=False)(build(cur)).as_poly()
            except (ZeroDivisionError, NotRational) as exc:
                raise HarnessError(f"pair base is not a polynomial: {exc}") from None
            terms = G.int_terms(poly)
            if nm == "horner":
                if arg not in G.VARS:
                    raise HarnessError(f"bad op argument {op!r}")
                cur = G.horner_spec(terms, arg)
            else:
                cur = G.poly_to_spec(terms, reverse=bool(arg))
        elif nm == "cancel":
            if not is_node_spec(arg):
                raise HarnessError(f"bad op argument {op!r}")
            cur = ["Sum", [arg, cur, ["Product", [["Const", "int", -1], arg]]]]
        elif nm == "split":
            if not isinstance(arg, int) or isinstance(arg, bool) or not 0 <= arg <= 5:
                raise HarnessError(f"bad op argument {op!r}")
            cur = ["Sum", [["Product", [["Const", "int", arg + 1], cur]],
                           ["Product", [["Const", "int", -arg], cur]]]]
        else:
            raise HarnessError(f"unknown op {nm!r}")
    return cur


def check_pairs(spec):
    res = Result()
    if not isinstance(spec, dict) or "base" not in spec or not isinstance(
            spec.get("ops"), list):
        raise HarnessError("spec must be {'base':..., 'ops': [...]}")
    a_spec = spec["base"]
    b_spec = _apply_ops(a_spec, spec["ops"])
    try:
        a, b = build(a_spec), build(b_spec)
    except HarnessError:
        raise
    except Exception as exc:
        raise HarnessError(f"cannot build spec: {exc!r}") from None
    if not (_is_poly_tree(a) and _is_poly_tree(b)) or _has_float(a, b):
        return res.skip("pair-side-not-an-integer-POLY-tree")
    conv = Converter(opaque=False)
    try:
        pa, pb = conv(a).as_poly(), conv(b).as_poly()
    except (ZeroDivisionError, NotRational):
        return res.skip("pair-side-without-normal-form")
    if pa != pb:
        raise HarnessError(f"pair transformation changed the polynomial: {a!r} vs {b!r}")
    outs = []
    for side, t in (("a", a), ("b", b)):
        ok, out = _call(res, "expand", lambda t=t: pymbolic.expand(t), repr(t)[:300])
        if not ok:
            return res
        outs.append(out)
    tables = []
    for out in outs:
        tb = _term_table(res, "expand", out)
        if tb is None:
            res.fail("expand:shape:term-is-not-a-monomial", f"{out!r}")
            return res
        tables.append(Counter((c, m) for c, m in tb if not (c == 0 and len(tb) == 1)))
    res.compared()
    if tables[0] != tables[1]:
        only_a = tables[0] - tables[1]
        only_b = tables[1] - tables[0]
        want = Counter((c, m) for m, c in pa.t.items())
        kind = "expand:term-multisets-differ"
        if tables[0] != want and tables[1] != want:
            kind += ":both-not-normal"
        res.fail(kind,
                 f"expand({a!r}) = {outs[0]!r} but expand({b!r}) = {outs[1]!r}; terms only "
                 f"left {sorted(only_a.items())[:4]}, only right {sorted(only_b.items())[:4]}")
    if len(pa.t) >= 2 and walk.key(a, strict=False) != walk.key(b, strict=False):
        res.label("pairs:nontrivial")
        res.nontrivial = True
    for op in spec["ops"]:
        res.label("pairs:op:" + op[0])
    res.sample = {"a": repr(a)[:200], "b": repr(b)[:200], "expand(a)": repr(outs[0])[:200],
                  "expand(b)": repr(outs[1])[:200]}
    return res

# }}}


# {{{ helpers flattened_sum / flattened_product

def _leaves_in_order(terms, cls):
    out = []
    for t in terms:
        if type(t) is cls:
            out.extend(_leaves_in_order(t.children, cls))
        else:
            out.append(t)
    return out


def check_helpers(spec):
    res = Result()
    if not isinstance(spec, dict) or spec.get("op") not in ("sum", "product") \
            or not isinstance(spec.get("terms"), list):
        raise HarnessError("spec must be {'op': 'sum'|'product', 'terms': [...]}")
    try:
        terms = [build(t) for t in spec["terms"]]
    except HarnessError:
        raise
    except Exception as exc:
        raise HarnessError(f"cannot build spec: {exc!r}") from None
    is_sum = spec["op"] == "sum"
    name = "flattened_sum" if is_sum else "flattened_product"
    cls = p.Sum if is_sum else p.Product
    fn = pymbolic.flattened_sum if is_sum else pymbolic.flattened_product
    e = cls(tuple(terms))
    for t in spec["terms"]:
        _mixed_label(res, t)
    ok, out = _call(res, name, lambda: fn(list(terms)), repr(terms)[:300], e)
    if not ok:
        return res
    defined = check_value(res, name, e, out)
    neutral = 0 if is_sum else 1
    if isinstance(out, cls):
        for c in out.children:
            if isinstance(c, cls):
                res.fail(f"{name}:shape:{cls.__name__}-child-of-{cls.__name__}", f"{out!r}")
            elif _is_num(c) and c == neutral:
                res.fail(f"{name}:shape:neutral-element-kept", f"{out!r}")
        if len(out.children) < 2:
            res.fail(f"{name}:shape:fewer-than-two-operands", f"{terms!r} -> {out!r}")
    # operand order (flattened_product documents it; flattened_sum is only asked to keep the
    # multiset of operands)
    leaves = _leaves_in_order(terms, cls)
    expect = [walk.key(c, strict=False) for c in leaves if not (_is_num(c) and c == neutral)]
    zero_seen = (not is_sum) and any(
        (_is_num(c) and c == 0) or (isinstance(c, p.Expression) and not c) for c in leaves)
    dropped_exprs = is_sum and any(isinstance(c, p.Expression) and not c for c in leaves)
    if not zero_seen and not dropped_exprs:
        got = [walk.key(c, strict=False) for c in (
            out.children if isinstance(out, cls) else
            ([] if (_is_num(out) and out == neutral and not expect) else [out]))]
        res.compared()
        if Counter(got) != Counter(expect):
            res.fail(f"{name}:operands-lost-or-added", f"{terms!r} -> {out!r}")
        elif not is_sum and got != expect:
            res.fail(f"{name}:operand-order-changed", f"{terms!r} -> {out!r}")
    if _flatten_nontrivial(e):
        res.label("flatten:nontrivial")
        res.nontrivial = defined
    res.sample = {"terms": repr(terms)[:300], name: repr(out)[:300]}
    return res

# }}}


CHECKS = {"flatten": check_flatten, "fold": check_fold, "cfold": check_cfold,
          "collect": check_collect, "expand": check_expand, "pairs": check_pairs,
          "helpers": check_helpers}


# {{{ known findings

def _trees(sub, spec):
    """the expression specs a case hands to the rewrite"""
    try:
        if sub == "pairs":
            return [spec["base"], _apply_ops(spec["base"], spec["ops"])]
        if sub == "helpers":
            return list(spec["terms"])
        return [spec["expr"]]
    except (HarnessError, KeyError, TypeError):
        return []


def _powers(tree):
    return [s for s in subspecs(tree) if s[0] == "Power" and len(s) == 3
            and is_node_spec(s[1])]


def _exp_of(s):
    v = G.const_value(s[2])
    return v if isinstance(v, int) and not isinstance(v, bool) else None


def _n_terms(s):
    """number of terms of the polynomial a POLY spec denotes, None if it is none"""
    try:
        return len(Converter(opaque=False)(build(s)).as_poly().t)
    except Exception:
        return None


SHAPE_KINDS = ("expand:shape:like-terms-not-merged", "expand:term-multisets-differ",
               "expand:term-multisets-differ:both-not-normal")
DIST_KINDS = (*SHAPE_KINDS, "expand:shape:Sum-below-Product", "expand:shape:Sum-below-Power",
              "expand:shape:term-is-not-a-monomial")


def _known_f23a(sub, spec, fail):
    """DistributeMapper.map_power tests expr.base (not the expanded base) for Product and
    iterates the expression: TypeError for Product bases; a base that only *expands* to a
    product (y+y -> 2*y) keeps its power, so like terms stay apart"""
    if sub not in ("expand", "pairs"):
        return False
    trees = _trees(sub, spec)
    if fail.kind.endswith((":raised:TypeError@mapper/distributor.py:map_power",
                           ":raised:TypeError@primitives.py:__iter__")):
        return any(s[1][0] == "Product" for t in trees for s in _powers(t))
    if fail.kind in SHAPE_KINDS:
        return any(s[1][0] == "Sum" and _n_terms(s[1]) == 1 for t in trees for s in _powers(t))
    return False


def _known_f23b(sub, spec, fail):
    """integer exponent <= 0 on a base that expands to a Sum: map_product(1)"""
    if sub not in ("expand", "pairs"):
        return False
    if not fail.kind.endswith(":raised:AttributeError@mapper/__init__.py:map_sum"):
        return False
    return any(_exp_of(s) is not None and _exp_of(s) <= 0 and s[1][0] in ("Sum", "Power")
               for t in _trees(sub, spec) for s in _powers(t))


def _known_powpow(sub, spec, fail):
    """a power of a power keeps both exponents: (x**2)**2 and x**4 are not like terms"""
    if sub not in ("expand", "pairs") or fail.kind not in SHAPE_KINDS:
        return False
    return any(s[1][0] == "Power" or (s[1][0] in ("Sum", "Product") and _n_terms(s[1]) == 1)
               for t in _trees(sub, spec) for s in _powers(t))


def _is_one(s):
    """the spec denotes the constant polynomial 1"""
    try:
        rf = Converter()(build(s))
        return rf.n == rf.d
    except Exception:
        return False


def _known_dist_leading(sub, spec, fail):
    """dist(): a factor in front of two or more sum factors is multiplied onto the already
    distributed rest instead of being distributed: a*(b+c)*(d+e) -> a*(...) + a*(...).
    A factor counts as a sum if its polynomial has >= 2 terms (0+y and x+x expand to one)."""
    if sub not in ("expand", "pairs") or fail.kind not in DIST_KINDS:
        return False
    for t in _trees(sub, spec):
        for s in subspecs(t):
            if s[0] != "Product" or len(s) != 2:
                continue
            nt = [_n_terms(c) for c in s[1]]
            sums = [i for i, k in enumerate(nt) if k is not None and k >= 2]
            # (factors behind the first sums are distributed by a recursive call on the rest)
            if len(sums) >= 2 and any(
                    i not in sums and not (G.const_value(c) is not None
                                           and G.const_value(c) == 1)
                    for i, c in enumerate(s[1][:sums[-2]])):
                return True
    return False


def _known_quotient_term(sub, spec, fail):
    """TermCollector.split_term refuses a Quotient as an operand of a sum; DistributeMapper
    hands it one: map_quotient returns 1/d unchanged and turns n/d into (1/d)*n, from which
    collection can leave 1/d alone ((1/x + x/z)**2: x**-1 * x * (1/z)); with parameters the
    collector itself builds (1/z + 1)*x"""
    if sub not in ("expand", "pairs"):
        return False
    if not fail.kind.endswith(":raised:RuntimeError@mapper/collector.py:split_term"):
        return False
    return any(s[0] == "Quotient" and len(s) == 3
               for t in _trees(sub, spec) for s in subspecs(t))


def _known_fold_arith(sub, spec, fail):
    """ConstantFoldingMapperBase.evaluate only expects ValueError from an un-evaluable constant
    sub-expression: 1/0, 0**-1, 1 % 0 (also when they only arise by folding, (0*x)**-1) make
    the folder - and expand(), which folds - raise"""
    if ":raised:ZeroDivisionError@mapper/evaluator.py:" not in fail.kind:
        return False
    return any(s[0] in ("Quotient", "Power", "FloorDiv", "Remainder")
               for t in _trees(sub, spec) for s in subspecs(t))


KNOWN = {"F23a": _known_f23a, "F23b": _known_f23b, "F-C11-powpow": _known_powpow,
         "F-C11-dist-leading": _known_dist_leading,
         "F-C11-quotient-term": _known_quotient_term, "F-C11-fold-arith": _known_fold_arith}

# }}}


# {{{ generation

EVAL_FRAG = S.EVALUABLE.but(big_consts=False, np_consts=False, degenerate_arity=True,
                            float_consts=(0.5, -1.5, 2.0, 0.25, -0.0, 1.0, 4.0, 0.0),
                            int_consts=(-3, -2, -1, 0, 1, 2, 3, 4, 5, 7),
                            exponents=(0, 1, 2, 3), shifts=(0, 1, 2, 3))


@st.composite
def tree_case(draw):
    """input of flatten / fold / cfold"""
    c = draw(st.integers(0, 9))
    if c <= 4:
        s = draw(G.rat_expr(draw(st.integers(2, 4)), degenerate=True,
                            opaque=draw(st.booleans())))
        s = draw(G.enrich(s, floats=True, np_consts=True))
    else:
        kind = draw(st.sampled_from(("NUM", "NUM", "INT", "BOOL")))
        frag = EVAL_FRAG.but(poison=True) if draw(st.integers(0, 4)) == 0 else EVAL_FRAG
        s = draw(S.expr(kind, draw(st.integers(2, 4)), frag))
        s = draw(G.enrich(s, floats=kind == "NUM", p_nest=1, p_neutral=1, p_const=2))
        s = G.sanitize(s, draw(st.integers(0, 6)))
        if draw(st.integers(0, 7)) == 0:
            # a denominator of 1 is neutral for / only: x // 1 and x % 1 are not x
            one = ["Const", "int", 1]
            s = draw(st.sampled_from((["FloorDiv", s, one], ["Remainder", s, one],
                                      ["Quotient", s, one],
                                      ["Sum", [["FloorDiv", ["Var", "r"], one], s]],
                                      ["Product", [["Remainder", ["Var", "r"], one], s]])))
    return {"expr": s}


@st.composite
def collect_case(draw):
    params = draw(st.sampled_from(([], [], ["a"], ["a", "b"])))
    s = draw(G.term_sum(params=G.PARAMS if params or draw(st.booleans()) else (),
                        symbolic=draw(st.integers(0, 2)) == 0))
    return {"expr": s, "params": params}


@st.composite
def expand_case(draw):
    c = draw(st.integers(0, 9))
    avoid = draw(st.integers(0, 9)) < 7
    if c <= 4:
        s = draw(G.poly_expr(draw(st.integers(2, 3)), max_exp=3, avoid_known=avoid,
                             powpow=not avoid or draw(st.booleans()),
                             degenerate=draw(st.integers(0, 5)) == 0))
        if draw(st.integers(0, 2)) == 0:
            s = draw(G.enrich(s, floats=False, p_const=5))
    else:
        s = draw(G.rat_expr(draw(st.integers(2, 3)), mixed=draw(st.integers(0, 3)) == 0,
                            np_consts=False, avoid_known=avoid, max_exp=3,
                            opaque=draw(st.integers(0, 4)) == 0))
    if draw(st.integers(0, 5)) == 0:
        # several integer powers of one and the same sum, in falling, rising or mixed
        # order, as terms or as factors (what a power cache inside the mapper would see)
        base = draw(G.poly_expr(1, max_exp=1, avoid_known=True, powpow=False))
        if base[0] != "Sum":
            base = ["Sum", [base, ["Var", draw(st.sampled_from(G.VARS))]]]
        ks = draw(st.lists(st.sampled_from((1, 2, 2, 3, 3, 4)), min_size=2, max_size=3))
        pws = [["Power", base, ["Const", "int", k]] for k in ks]
        s = [draw(st.sampled_from(("Sum", "Sum", "Product"))), pws + (
            [s] if draw(st.booleans()) else [])]
    elif draw(st.integers(0, 9)) == 0:
        # one higher power (odd and even exponents up to 9) of a short sum
        base = ["Sum", [["Var", draw(st.sampled_from(G.VARS))],
                        draw(st.sampled_from((["Const", "int", 1], ["Const", "int", -2],
                                               ["Var", draw(st.sampled_from(G.VARS))])))]]
        s = ["Power", base, ["Const", "int", draw(st.sampled_from((4, 5, 5, 6, 7, 8, 9)))]]
        if draw(st.booleans()):
            s = ["Sum", [s, ["Var", "x"]]]
    m = draw(st.integers(0, 9))
    mode = "expand" if m <= 5 else ("distribute", "params", "params", "noncommutative")[m - 6]
    out = {"expr": s, "mode": mode}
    if mode == "params":
        out["params"] = draw(st.sampled_from((["x"], ["y", "z"], ["a"])))
    return out


@st.composite
def pair_case(draw):
    avoid = draw(st.integers(0, 9)) < 8
    base = draw(G.poly_expr(draw(st.integers(1, 3)), max_exp=3, avoid_known=avoid,
                            powpow=not avoid))
    ops = []
    for _ in range(draw(st.integers(1, 3))):
        nm = draw(st.sampled_from(G.PAIR_OPS))
        if nm == "horner":
            arg = draw(st.sampled_from(G.VARS))
        elif nm == "cancel":
            arg = draw(st.one_of(
                st.sampled_from(G.VARS).map(lambda v: ["Var", v]),
                G.poly_expr(1, max_exp=2, avoid_known=True, powpow=False)))
        elif nm == "split":
            arg = draw(st.integers(0, 3))
        else:
            arg = draw(st.integers(0, 5))
        ops.append([nm, arg])
    return {"base": base, "ops": ops}


@st.composite
def helper_case(draw):
    op = draw(st.sampled_from(("sum", "product")))
    tag = "Sum" if op == "sum" else "Product"

    def operand(depth):
        c = draw(st.integers(0, 9))
        if depth > 0 and c <= 3:
            return [tag, [operand(depth - 1) for _ in range(draw(st.integers(0, 3)))]]
        if c <= 5:
            return draw(G.rat_expr(1, degenerate=True))
        if c <= 7:
            return list(draw(st.sampled_from(G.ZEROS + G.ONES)))
        return ["Var", draw(st.sampled_from(G.VARS))]
    return {"op": op, "terms": [operand(2) for _ in range(draw(st.integers(0, 4)))]}


def generate(ctx):
    ctx.run_given(tree_case(),
                  lambda s: (ctx.judge("flatten", s), ctx.judge("fold", s),
                             ctx.judge("cfold", s)),
                  ctx.n(2200, 70000))
    ctx.run_given(helper_case(), lambda s: ctx.judge("helpers", s), ctx.n(1200, 40000))
    ctx.run_given(collect_case(), lambda s: ctx.judge("collect", s), ctx.n(2200, 70000))
    ctx.run_given(expand_case(), lambda s: ctx.judge("expand", s), ctx.n(3000, 100000))
    ctx.run_given(pair_case(), lambda s: ctx.judge("pairs", s), ctx.n(2400, 80000))

# }}}


MANIFEST = {
    "text": ("Generated-input search with an exact oracle: every rewrite (flatten, both constant "
             "folders, TermCollector, expand/distribute, flattened_sum/flattened_product) is "
             "applied to generated trees of its fragment and the result is compared with the "
             "input as a rational function in exact Fraction arithmetic (per instance, not by "
             "sampling) and, for all evaluable node types, by an exact reference interpreter "
             "over a box of environments; the promised normal forms are checked structurally "
             "and, for expansion, on pairs of polynomials equal as functions by construction. "
             "Exploration, not proof."),
    "note": ("Trusted: pbt/polynf.py, the exact reference interpreter (pbt/refsem.py + exact "
             "division), the spec-level pair transformations in pbt/c11_gen.py (each pair is "
             "re-verified with polynf). Results differing only by float rounding of folded "
             "constants are accepted and counted."),
    "technique": "property-based testing (Hypothesis) vs exact rational-function normal form and reference interpreter; metamorphic pairs",
    "design_ref": "DESIGN.md section 4, C11",
}
