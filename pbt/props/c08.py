"""C08 - substitution commutes with evaluation.

Sub-checks
  struct   trees over all node types; keys given as names, Variables, constant-index
           Subscripts and Lookups (split between the dict and keyword arguments of
           substitute()); result compared with a reference substitution written over
           pbt.walk (outermost match first, inserted values not substituted again);
           plain, cached mapper and substitute() must agree; untouched subtrees must
           come back as the identical objects
  commute  evaluable trees with variable keys: refsem(substitute(e, s), env) ==
           refsem(e, env + {k: value of s[k] in env}) including error outcomes
"""
from __future__ import annotations

import numpy as np
from hypothesis import strategies as st

import pymbolic.primitives as p
from pymbolic.mapper.substitutor import (CachedSubstitutionMapper, SubstitutionMapper,
                                         make_subst_func, substitute)

from pbt import envs, strategies as S, walk
from pbt.refsem import RefError, RefSkip, exc_site, ref_eval, values_close
from pbt.runner import Result
from pbt.spec import build, build_shared, subspecs, twin_first, twin_how

PROP = "C08"
LEVEL = "exploration"
RULE = ("Generated trees over all node types with substitution maps whose keys are names, "
        "Variables, Subscripts and Lookups and whose values are arbitrary expressions "
        "(including swaps, cycles, values mentioning other keys, keys that do not occur); "
        "evaluable trees over a box of environments for the commutation law. Non-trivial = "
        ">=1 key occurs in the tree and (the map has a value mentioning a key, or a "
        "subscript/lookup key, or a key occurs under a keyword argument, slice or tuple "
        "index); distinct by sha1 of the case spec.")
ASSUMPTIONS = [
    "reference substitution: pbt/walk.py generic rebuild, keys matched with pymbolic == (numbers by value)",
    "Substitution/Derivative nodes take part in the structural checks only (no evaluator)",
    "identity of untouched subtrees is demanded of the memoizing mapper only when the input has no two distinct objects that compare equal",
]
HEALTH = {"key-occurs": 0.3, "value-mentions-key": 0.1, "composite-key": 0.08}


def _match(node, amap):
    """amap: list of (key object or name str, value). Lookup by expression, then
    (for variables) by name - the documented order."""
    if isinstance(node, (p.Variable, p.Subscript, p.Lookup)):
        nk = walk.key(node, strict=False)
        for k, v in amap:
            if not isinstance(k, str) and type(k) is type(node) \
                    and walk.key(k, strict=False) == nk:
                return (v,)
        if isinstance(node, p.Variable):
            for k, v in amap:
                if isinstance(k, str) and k == node.name:
                    return (v,)
    return None


def ref_substitute(e, amap):
    return walk.transform(e, lambda n: _match(n, amap))


def _merged(spec):
    """Effective assignment list: keyword assignments override dict entries."""
    out = []
    d = [(build(k) if isinstance(k, list) else k, build(v)) for k, v in spec["dict"]]
    kw = [(k, build(v)) for k, v in spec["kwargs"]]
    kwnames = {k for k, _ in kw}
    # later dict entries with an equal key overwrite earlier ones (dict semantics)
    eff = {}
    order = []
    for k, v in d:
        kk = k if isinstance(k, str) else ("e", walk.key(k, strict=False))
        if kk not in eff:
            order.append(kk)
        eff[kk] = (k, v)
    for kk in order:
        k, v = eff[kk]
        if isinstance(k, str) and k in kwnames:
            continue
        out.append((k, v))
    out.extend(kw)
    return out


def _contains_key(node, amap, memo):
    i = id(node)
    if i in memo:
        return memo[i]
    r = _match(node, amap) is not None or any(
        _contains_key(c, amap, memo) for _, c in walk.children(node))
    memo[i] = r
    return r


def _check_sharing(res, inp, out, amap, who):
    memo = {}

    def rec(a, b):
        if not isinstance(a, (p.Expression, tuple)):
            return
        if _match(a, amap) is not None:
            return
        if not _contains_key(a, amap, memo):
            res.compared()
            if b is not a:
                res.fail(f"{who}:untouched-subtree-rebuilt",
                         f"subtree {a!r} contains nothing to replace but came back as a "
                         f"different object")
            return
        ca, cb = walk.children(a), walk.children(b)
        if type(a) is not type(b) or len(ca) != len(cb):
            return
        for (_, x), (_, y) in zip(ca, cb):
            rec(x, y)
    rec(inp, out)


def _has_equal_distinct(e):
    """two distinct objects that compare equal (the memoizing mapper may return
    either for both): composite nodes, or constants such as 0.0 / -0.0"""
    seen = {}
    for _, n in walk.occurrences(e):
        if isinstance(n, (p.Expression, tuple)):
            k = walk.key(n, strict=False)
            if k in seen and seen[k] is not n:
                return True
            seen.setdefault(k, n)
        else:
            k = (type(n), walk.key(n, strict=False))
            sk = walk.key(n, strict=True)
            if k in seen and seen[k] != sk:
                return True
            seen.setdefault(k, sk)
    return False


def check_struct(spec):
    """spec: {"expr":..., "dict": [[key spec|name, value spec], ...], "kwargs": [[name, value spec], ...]}"""
    res = Result()
    e = build_shared(spec["expr"])
    amap = _merged(spec)
    want = ref_substitute(e, amap)
    wkey = walk.key(want, strict=False)
    d = {}
    for k, v in spec["dict"]:
        d[build(k) if isinstance(k, list) else k] = build(v)
    kw = {k: build(v) for k, v in spec["kwargs"]}
    full = dict(d)
    full.update(kw)
    if twin_first(spec["expr"], twin_how(spec["expr"]),
                  lambda t: substitute(t, dict(d), **kw),
                  lambda t: SubstitutionMapper(make_subst_func(full))(t)):
        res.label("twin-first")
    runs = (("SubstitutionMapper", lambda: SubstitutionMapper(make_subst_func(full))(e)),
            ("CachedSubstitutionMapper",
             lambda: CachedSubstitutionMapper(make_subst_func(full))(e)),
            ("substitute", lambda: substitute(e, d, **kw)),
            ("substitute[plain]", lambda: substitute(e, d, mapper_cls=SubstitutionMapper, **kw)))
    # substitute() must not leak keyword assignments into the caller's dict: a second
    # call with the same dict leaves names alone that the dict does not mention
    if kw:
        d_before = {(k if isinstance(k, str) else repr(walk.key(k, strict=False))):
                    repr(walk.key(v, strict=True)) for k, v in d.items()}
        try:
            substitute(e, d, **kw)
            probe = p.Sum(tuple(p.Variable(k) for k in kw))
            second = substitute(probe, d)
        except Exception as exc:
            res.fail("substitute:raised:" + exc_site(exc), f"{e!r}: {exc!r}")
        else:
            res.compared()
            # what the dict alone says (later duplicates of a key win, as in a dict)
            orig = {}
            for kk, vv in spec["dict"]:
                ko = build(kk) if isinstance(kk, list) else kk
                orig[ko if isinstance(ko, str) else ("e", repr(walk.key(ko, strict=False)))] = (
                    ko, build(vv))
            want2 = ref_substitute(probe, list(orig.values()))
            d_after = {(k if isinstance(k, str) else repr(walk.key(k, strict=False))):
                       repr(walk.key(v, strict=True)) for k, v in d.items()}
            if walk.key(second, strict=False) != walk.key(want2, strict=False) \
                    or d_after != d_before:
                res.fail("substitute:keyword-assignment-leaks-into-later-call",
                         f"after substitute(e, d, **{sorted(kw)}) a second call "
                         f"substitute({probe!r}, d) returned {second!r}; d now has keys "
                         f"{sorted(d_after)} (before: {sorted(d_before)})")
    results = {}
    for who, fn in runs:
        res.compared()
        try:
            got = fn()
        except Exception as exc:
            res.fail(f"{who}:raised:" + exc_site(exc),
                     f"{who} on {e!r} with {full!r}: {type(exc).__name__}: {exc}")
            continue
        results[who] = got
        if walk.key(got, strict=False) != wkey:
            d0 = walk.first_diff(want, got)
            where = f"{d0[0]}.{d0[1]}" if d0 else "?"
            res.fail(f"{who}:differs-from-reference@{where}",
                     f"{e!r} with {full!r}: got {got!r}, reference {want!r}")
    if "SubstitutionMapper" in results and not res.fails:
        _check_sharing(res, e, results["SubstitutionMapper"], amap, "SubstitutionMapper")
        if not _has_equal_distinct(e):
            _check_sharing(res, e, results["CachedSubstitutionMapper"], amap,
                           "CachedSubstitutionMapper")
    # classification
    memo = {}
    occurs = _contains_key(e, amap, memo)
    if occurs:
        res.label("key-occurs")
    keynames = {k if isinstance(k, str) else getattr(k, "name", None) for k, _ in amap}
    mentions = any(walk.variables(v) & keynames for _, v in amap
                   if isinstance(v, (p.Expression, tuple)))
    if mentions:
        res.label("value-mentions-key")
    comp = any(isinstance(k, (p.Subscript, p.Lookup)) for k, _ in amap)
    if comp:
        res.label("composite-key")
    txt = repr(spec["expr"])
    res.nontrivial = occurs and (mentions or comp or "CallWithKwargs" in txt
                                 or "'Slice'" in txt or "'Tuple'" in txt)
    res.sample = {"expr": repr(e)[:200], "map": repr(full)[:200], "result": repr(want)[:200]}
    return res


class _LazyEnv(dict):
    """env + {k: value of replacement in env}, replacement evaluated on demand"""

    def __init__(self, env, repl):
        dict.__init__(self, env)
        self.base = env
        self.repl = repl

    def __getitem__(self, k):
        if k in self.repl:
            from pbt.refsem import RefEvaluator
            return RefEvaluator(self.base).ev(self.repl[k])
        return dict.__getitem__(self, k)


def check_commute(spec):
    """spec: {"expr":..., "subst": [[name, value spec], ...], "env": env spec}"""
    res = Result()
    e = build(spec["expr"])
    repl = {k: build(v) for k, v in spec["subst"]}
    env = envs.build_env(spec["env"])
    if twin_first(spec["expr"], twin_how(spec["expr"]), lambda t: substitute(t, dict(repl))):
        res.label("twin-first")
    try:
        lhs_tree = substitute(e, dict(repl))
    except Exception as exc:
        return res.fail("substitute:raised:" + exc_site(exc), f"{e!r} {repl!r}: {exc!r}")
    try:
        rhs = ref_eval(e, _LazyEnv(env, repl))
        lhs = ref_eval(lhs_tree, env)
    except RefSkip as s:
        return res.skip(f"refskip:{s}")
    res.compared()
    same = (lhs[0] == rhs[0]) and (
        values_close(lhs[1], rhs[1]) if lhs[0] == "val"
        else bool({n for n, _ in lhs[1]} & {n for n, _ in rhs[1]}))
    if not same:
        res.fail("substitute-then-evaluate-differs",
                 f"{e!r} with {repl!r}: substituted tree {lhs_tree!r} gives {lhs}, "
                 f"evaluation in the extended environment gives {rhs}")
    occurs = bool(walk.variables(e) & set(repl))
    if occurs:
        res.label("key-occurs")
    mentions = any(walk.variables(v) & set(repl) for v in repl.values()
                   if isinstance(v, p.Expression))
    if mentions:
        res.label("value-mentions-key")
    res.nontrivial = occurs and mentions
    res.sample = {"expr": repr(e)[:200], "subst": repr(repl)[:200]}
    return res


CHECKS = {"struct": check_struct, "commute": check_commute}


@st.composite
def struct_case(draw):
    ex = draw(S.any_expr(draw(st.integers(1, 4)), deprecated_forms=False))
    if draw(st.integers(0, 7)) == 0:
        ex = draw(S.nested_containers(ex))
    names = sorted({s[1] for s in subspecs(ex) if s[0] == "Var"}) or ["x"]
    comps = [s for s in subspecs(ex) if s[0] in ("Subscript", "Lookup")]
    entries = []
    for _ in range(draw(st.integers(1, 4))):
        c = draw(st.integers(0, 9))
        if c <= 3:
            key = draw(st.sampled_from(names + ["unused_n"]))
        elif c <= 5:
            key = ["Var", draw(st.sampled_from(names + ["unused_v"]))]
        elif c <= 7 and comps:
            key = draw(st.sampled_from(comps))
        elif c == 8:
            key = ["Subscript", ["Var", draw(st.sampled_from(names))], ["Const", "int", 1]]
        else:
            key = ["Lookup", ["Var", draw(st.sampled_from(names))], "name"]
        vc = draw(st.integers(0, 5))
        if vc == 0:
            val = ["Var", draw(st.sampled_from(names))]                 # swap / cycle
        elif vc == 1:
            val = ["Sum", [["Var", draw(st.sampled_from(names))], ["Const", "int", 1]]]
        elif vc == 2:
            val = ["Const", draw(st.sampled_from(("int", "float"))), draw(st.integers(0, 3))]
        else:
            val = draw(S.any_expr(2))
        entries.append([key, val])
    if draw(st.integers(0, 4)) == 0:
        # a name key whose replacement turns another subscript / look-up into exactly a
        # whole-node key: substitution is simultaneous, the rebuilt node is not looked
        # up again  (a[i] + 10*a[j] with {i: j, a[j]: c} is a[j] + 10*c)
        arr, i, j = "arr_q", "idx_i", "idx_j"
        val = draw(st.sampled_from((["Var", "c_new"], ["Const", "int", 7],
                                    ["Sum", [["Var", "c_new"], ["Const", "int", 1]]])))
        if draw(st.booleans()):
            node = lambda ix: ["Subscript", ["Var", arr], ["Var", ix]]  # noqa: E731
            entries += [[i, ["Var", j]], [node(j), val]]
            ex = ["Sum", [ex, node(i), ["Product", [["Const", "int", 10], node(j)]]]]
        else:
            node = lambda ag: ["Lookup", ["Var", ag], "attr"]  # noqa: E731
            entries += [[["Var", i], ["Var", j]], [node(j), val]]
            ex = ["Sum", [node(i), ["Product", [["Const", "int", 10], node(j)]], ex]]
        entries = [e for e in entries if e[0] not in (arr, ["Var", arr])]
    kwargs = []
    d = []
    for k, v in entries:
        if isinstance(k, str) and draw(st.booleans()) and k not in [kk for kk, _ in kwargs]:
            kwargs.append([k, v])
        else:
            d.append([k, v])
    return {"expr": ex, "dict": d, "kwargs": kwargs}


@st.composite
def commute_case(draw):
    frag = S.EVALUABLE.but(poison=False, np_consts=False)
    ex = draw(S.expr(draw(st.sampled_from(("INT", "NUM", "BOOL"))), draw(st.integers(1, 4)),
                     frag))
    names = list(frag.int_vars + frag.rat_vars)
    subst = []
    for n in draw(st.lists(st.sampled_from(names), min_size=1, max_size=3, unique=True)):
        c = draw(st.integers(0, 3))
        if c == 0:
            v = ["Var", draw(st.sampled_from(names))]
        elif c == 1:
            v = ["Sum", [["Var", n], ["Const", "int", 1]]]
        else:
            v = draw(S.expr("NUM", 2, frag))
        subst.append([n, v])
    return {"expr": ex, "subst": subst, "env": draw(S.env_for(frag, unbound=False))}


def _known_cse_zero(sub, spec, fail):
    """F05: IdentityMapper.map_common_subexpression returns the constant 0 when the
    mapped child is falsy (CSE(0) -> 0), so the result is not the substituted tree."""
    if sub == "commute":
        if fail.kind != "substitute-then-evaluate-differs":
            return False
        pairs = spec["subst"]
        amap = [(k, build(v)) for k, v in pairs]
    else:
        if "differs-from-reference" not in fail.kind:
            return False
        pairs = spec["dict"] + spec["kwargs"]
        amap = _merged(spec)
    if "CommonSubexpression" not in repr(spec["expr"]) and not any(
            "CommonSubexpression" in repr(v) for _, v in pairs):
        return False
    e = build_shared(spec["expr"])
    want = ref_substitute(e, amap)
    return any(isinstance(n, p.CommonSubexpression) and p.is_zero(_strip_zero_cse(n.child))
               for _, n in walk.occurrences(want))


def _strip_zero_cse(e):
    """what the identity mapper makes of e, as far as falsiness is concerned"""
    def f(n):
        if isinstance(n, p.CommonSubexpression):
            c = _strip_zero_cse(n.child)
            try:
                if p.is_zero(c):
                    return (0,)
            except Exception:
                pass
            return None
        return None
    try:
        return walk.transform(e, f)
    except Exception:
        return e


KNOWN = {"F05b": _known_cse_zero}


def generate(ctx):
    ctx.run_given(struct_case(), lambda s: ctx.judge("struct", s), ctx.n(5000, 150000))
    ctx.run_given(commute_case(), lambda s: ctx.judge("commute", s), ctx.n(3000, 90000))


MANIFEST = {
    "text": ("Generated trees over every node type and generated substitution maps are "
             "checked against a reference substitution (simultaneous, outermost match, no "
             "re-substitution) for the plain mapper, the memoizing mapper and the "
             "substitute() entry point with dict/keyword merging; identity of untouched "
             "subtrees is checked object by object; on the evaluable fragment the "
             "commutation law with evaluation is checked over generated environments."),
    "note": "Trusted: pbt/walk.py (generic rebuild and keys), pbt/refsem.py.",
    "technique": "property-based testing vs reference substitution; metamorphic relation substitute/evaluate",
    "design_ref": "DESIGN.md section 4, C08",
}
