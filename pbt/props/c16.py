"""C16 - pattern matching results are sound.

Code under test
  pymbolic.mapper.unifier.UnidirectionalUnifier            (sub-checks unify, rename)
  pymbolic.interop.matchpy  To/From conversion             (roundtrip)
                            match, match_anywhere          (match, anywhere)
                            make_replacement_rule/replace_all (replace)

Oracle: instantiate-and-compare.  The pattern is instantiated with the reported
bindings by a reference substitution written over pbt.walk (never the
library's substitute) and compared with the target/subject through a key that
identifies trees up to the documented slack only:

  unifier  flatten + sort Sum/Product operands, single-operand Sum/Product =
           operand, neutral operands dropped (0 in sums, 1 in products: the
           unifier builds multi-operand bindings with flattened_sum/_product,
           which drop them), a Subscript index and the 1-tuple of it identified
           (map_subscript documents unpacking 1-tuples "to avoid ambiguity"),
           numbers compared by value (map_constant uses ==);
  bridge   flatten + sort operands of the operators the bridge declares
           commutative+associative (Sum, Product, LogicalOr/And,
           BitwiseOr/And/Xor), every Subscript index as a tuple, numbers by
           value (matchpy compares Scalar atoms with ==).  Nothing dropped,
           nothing collapsed.
"""
from __future__ import annotations

import traceback
from collections.abc import Mapping

from hypothesis import strategies as st

import pymbolic.primitives as p

from pbt import walk
from pbt.runner import Result
from pbt.spec import (K_EXPR, K_EXPRS, K_KWMAP, NODE_TABLE, HarnessError, build,
                      is_node_spec, subspecs)

PROP = "C16"
LEVEL = "exploration"
RULE = (
    "Hypothesis-generated (pattern, target) pairs over Sum, Product, Quotient, Power, "
    "Call, Subscript, Comparison, If (+ Lookup; arity <= 4, depth <= 3) for "
    "UnidirectionalUnifier with lhs_mapping_candidates always given (as list, tuple, "
    "set or frozenset) and a subset of the pattern's variables: targets are (a) the "
    "pattern instantiated with random bindings, then sums/products commuted, "
    "flattened or regrouped, (a') instantiated inconsistently (one occurrence gets "
    "another value) or off by one detail (leaf, comparison operator, lookup name, one "
    "operand more/fewer), (b) the pattern under an injective renaming of its "
    "candidate variables (completeness clause: >= 1 record; optionally with commuted "
    "operands, reported under a separate kind), (c) independent trees. Bridge: "
    "expressions over the same nodes (+ FloorDiv, Remainder, shifts, bitwise and "
    "logical operators for the round trip), patterns with DotWildcard leaves and "
    "StarWildcards in commutative (Sum/Product/LogicalAnd) and sequence (Call "
    "parameters, Subscript indices) positions; subjects are instances of the pattern "
    "(shaken, optionally embedded in a context) or independent. Every reported "
    "record / substitution / (substitution, sub-term) pair / replace_all result is "
    "judged by instantiating the pattern with a reference substitution and comparing "
    "modulo AC. Non-trivial = unifier: pattern with >= 2 candidate variables of which "
    "one occurs twice or two are operands of one Sum/Product, and >= 1 record was "
    "judged or the renaming clause applied; bridge: pattern with >= 2 wildcard "
    "occurrences (or a star wildcard) and >= 1 reported match/replacement, round "
    "trip: >= 3 operator nodes including a commutative one; distinct by sha1 of the "
    "JSON case spec.")
ASSUMPTIONS = [
    "reference substitution and AC keys (this file, over pbt/walk.py field tables) "
    "state the intended instantiation law",
    "unifier records are read through UnificationRecord.equations (lmap/rmap are "
    "documented as internal early-rejection aids)",
    "unifier interpretation of 'equal up to reordering and regrouping': additionally "
    "up to the simplifications of flattened_sum/flattened_product with which the "
    "unifier builds multi-operand bindings (structurally zero operands dropped from "
    "sums, constant 1 dropped from products, a product with a structurally zero "
    "operand is 0), a single-operand Sum/Product equals its operand, a Subscript "
    "index equals its 1-tuple (map_subscript unpacks them), numbers compare by value",
    "the unifier has no work limit: cases whose static work bound (records from free "
    "operands, duplicate records from identical sibling operands) exceeds 20000 are "
    "skipped and counted",
    "an injective renaming maps candidate variables to distinct names that are "
    "either candidates or fresh, so that it stays injective on all pattern variables; "
    "the clause is demanded literally (same operand order, kind "
    "no-record-for-injective-renaming) and, as the AC reading of the same clause, "
    "with commuted operands (kind no-record-for-commuted-renaming, see F28)",
    "bridge patterns are rooted at an operator node (a bare wildcard pattern makes "
    "match_anywhere visit the encoding's Id/ComparisonOp/TupleOp nodes), star "
    "wildcards occur only in variadic positions, wildcard names are unique per kind",
    "replace_all is run with a replacement that rebuilds the matched term with the "
    "pattern's own variables renamed (suffix __m), which makes rewriting terminate; "
    "the result with the suffix removed must be the subject modulo AC",
    "matchpy itself (matching algorithm) is trusted only as far as the instantiation "
    "law checks it; no completeness is demanded from the bridge",
]
HEALTH = {"u:has-records": 0.15, "u:repeated-cand": 0.08, "u:multi-free-in-ac": 0.08,
          "u:free-next-to-fixed": 0.03, "u:several-records": 0.015,
          "u:origin:rename": 0.05, "u:origin:rename+commute": 0.02,
          "u:origin:near": 0.015, "u:origin:incons": 0.02,
          "b:star-commutative": 0.03, "b:star-sequence": 0.025, "b:has-match": 0.08,
          "b:replaced": 0.03, "b:roundtrip-nested": 0.015}

CASE_TIMEOUT_S = 5      # record explosions of the unifier are skipped, see tame()
TIMEOUT_IS_FAIL = False
MAX_RECORDS = 300

AC_UNIFIER = (p.Sum, p.Product)
AC_BRIDGE = (p.Sum, p.Product, p.LogicalOr, p.LogicalAnd,
             p.BitwiseOr, p.BitwiseAnd, p.BitwiseXor)


# {{{ keys

def zero_like(e):
    """Structurally zero as pymbolic's own truthiness defines it (what
    flattened_sum drops and what makes flattened_product return 0)."""
    if isinstance(e, p.Expression):
        if type(e) is p.Sum:
            return len(e.children) == 1 and zero_like(e.children[0])
        if type(e) is p.Product:
            return any(zero_like(c) for c in e.children)
        if type(e) in (p.Quotient, p.FloorDiv, p.Remainder):
            return zero_like(e.numerator)
        return False
    if isinstance(e, (tuple, list, str)) or e is None:
        return False
    try:
        return bool(e == 0)
    except Exception:
        return False


def mkey(e, ac=AC_UNIFIER, lax=False):
    """Key modulo associativity/commutativity of the node types in *ac*,
    Subscript indices as tuples, numbers by value.  lax=True additionally
    drops neutral operands of Sum/Product and identifies a single-operand
    Sum/Product with its operand (unifier interpretation, see module doc)."""
    t = type(e)
    if t in ac:
        items = []
        if lax and t is p.Product and zero_like(e):
            return ("c", 0)

        def add(x):
            if type(x) is t:
                for c in x.children:
                    add(c)
            elif lax and t is p.Sum and zero_like(x):
                pass
            else:
                items.append(mkey(x, ac, lax))
        add(e)
        if lax:
            if t is p.Product:
                items = [k for k in items if k != ("c", 1)]
            if not items:
                return ("c", 0 if t is p.Sum else 1)
            if len(items) == 1:
                return items[0]
        return (t.__name__, tuple(sorted(items, key=repr)))
    if t is p.Subscript:
        idx = e.index if isinstance(e.index, tuple) else (e.index,)
        return ("Subscript", mkey(e.aggregate, ac, lax),
                ("tuple", tuple(mkey(c, ac, lax) for c in idx)))
    if isinstance(e, p.Expression):
        parts = [t.__name__]
        for fname, kind in walk.field_kinds(e):
            v = getattr(e, fname)
            if kind == K_EXPR:
                parts.append(mkey(v, ac, lax))
            elif kind == K_EXPRS:
                parts.append(tuple(mkey(c, ac, lax) for c in v))
            elif kind == K_KWMAP:
                parts.append(tuple(sorted((k, mkey(c, ac, lax)) for k, c in v.items())))
            else:
                parts.append(walk._const_key(v, False))
        return tuple(parts)
    if isinstance(e, (tuple, list)):
        return ("tuple", tuple(mkey(c, ac, lax) for c in e))
    return walk._const_key(e, False)


def okey(e):
    """Exact key up to operand order of the bridge's commutative operators and
    tuple form of subscript indices: no flattening, type-tagged constants."""
    t = type(e)
    if t in AC_BRIDGE:
        return (t.__name__, tuple(sorted((okey(c) for c in e.children), key=repr)))
    if t is p.Subscript:
        idx = e.index if isinstance(e.index, tuple) else (e.index,)
        return ("Subscript", okey(e.aggregate), ("tuple", tuple(okey(c) for c in idx)))
    if isinstance(e, p.Expression):
        parts = [t.__name__]
        for fname, kind in walk.field_kinds(e):
            v = getattr(e, fname)
            if kind == K_EXPR:
                parts.append(okey(v))
            elif kind == K_EXPRS:
                parts.append(tuple(okey(c) for c in v))
            elif kind == K_KWMAP:
                parts.append(tuple(sorted((k, okey(c)) for k, c in v.items())))
            else:
                parts.append(walk._const_key(v, True))
        return tuple(parts)
    if isinstance(e, (tuple, list)):
        return ("tuple", tuple(okey(c) for c in e))
    return walk._const_key(e, True)


def flatten_bridge(e):
    """Splice X-in-X for the bridge's associative operators; nothing else."""
    if type(e) in AC_BRIDGE:
        out = []
        for c in e.children:
            fc = flatten_bridge(c)
            if type(fc) is type(e):
                out.extend(fc.children)
            else:
                out.append(fc)
        return type(e)(tuple(out))
    return walk.rebuild(e, flatten_bridge)


def is_flat(e):
    for _, n in walk.occurrences(e):
        if type(n) in AC_BRIDGE and any(type(c) is type(n) for c in n.children):
            return False
    return True


def subterm_keys(e, acc=None):
    """Keys of every sub-term of the flattened tree (tuples themselves are not
    terms, their elements are)."""
    if acc is None:
        acc = set()
    if isinstance(e, (tuple, list)):
        for c in e:
            subterm_keys(c, acc)
        return acc
    acc.add(mkey(e, AC_BRIDGE))
    if type(e) in AC_BRIDGE:
        def ops(x):
            for c in x.children:
                if type(c) is type(e):
                    ops(c)
                else:
                    subterm_keys(c, acc)
        ops(e)
    else:
        for _, c in walk.children(e):
            subterm_keys(c, acc)
    return acc

# }}}


def _site(exc):
    site = None
    for fs in traceback.extract_tb(exc.__traceback__):
        if "/pymbolic/" in fs.filename and "/verif/" not in fs.filename:
            site = fs.filename.split("/pymbolic/", 1)[1] + ":" + fs.name
    return site


def _raises_kind(exc):
    return f"raises:{type(exc).__name__}@{_site(exc)}"


def _tb(exc):
    return "".join(traceback.format_exception(exc))[-900:]


# {{{ unifier

def _cand_container(names, how):
    if how == "set":
        return set(names)
    if how == "frozenset":
        return frozenset(names)
    if how == "tuple":
        return tuple(names)
    if how == "list":
        return list(names)
    raise HarnessError(f"candidate container {how!r}")


def _var_counts(e):
    cnt = {}
    for _, n in walk.occurrences(e):
        if isinstance(n, p.Variable):
            cnt[n.name] = cnt.get(n.name, 0) + 1
    return cnt


def _classify_pattern(res, pattern, cands):
    cnt = _var_counts(pattern)
    present = [c for c in cands if c in cnt]
    repeated = any(cnt[c] >= 2 for c in present)
    multi_free = fixed_next_to_free = False
    for _, n in walk.occurrences(pattern):
        if type(n) in AC_UNIFIER:
            free = [c for c in n.children
                    if isinstance(c, p.Variable) and c.name in cands]
            if len(free) >= 2:
                multi_free = True
                if len(free) < len(n.children):
                    fixed_next_to_free = True
    if repeated:
        res.label("u:repeated-cand")
    if multi_free:
        res.label("u:multi-free-in-ac")
    if fixed_next_to_free:
        res.label("u:free-next-to-fixed")
    return len(present) >= 2 and (repeated or multi_free)


def _judge_records(res, pattern, target, cands, recs):
    """Soundness of every record (shared by unify and rename)."""
    tkey = mkey(target, AC_UNIFIER, lax=True)
    for rec in recs[:MAX_RECORDS]:
        binds = {}
        ok = True
        for lhs, rhs in rec.equations:
            res.compared()
            if type(lhs) is not p.Variable:
                res.fail("equation-lhs-not-a-variable",
                         f"{lhs!r} = {rhs!r} in {rec!r}")
                ok = False
                continue
            if lhs.name not in cands:
                res.fail("binds-undeclared-name",
                         f"{lhs.name!r} not in candidates {sorted(cands)}: {rec!r}")
                ok = False
            binds.setdefault(lhs.name, {})[walk.key(rhs, strict=False)] = rhs
        for name, vals in binds.items():
            res.compared()
            if len(vals) != 1:
                res.fail("name-bound-to-several-values",
                         f"{name!r} -> {list(vals.values())!r} in {rec!r}")
                ok = False
        if not ok:
            continue
        one = {name: next(iter(vals.values())) for name, vals in binds.items()}

        def sub(e, one=one):
            if type(e) is p.Variable and e.name in one:
                return (one[e.name],)
            return None
        inst = walk.transform(pattern, sub)
        res.compared()
        if mkey(inst, AC_UNIFIER, lax=True) != tkey:
            res.fail("instance-differs-from-target",
                     f"pattern {pattern!r}\nrecord {rec!r}\ninstance {inst!r}\n"
                     f"target {target!r}")
    if len(recs) > MAX_RECORDS:
        res.label("u:records-capped")


WORK_LIMIT = 20000


def _explosive(pattern, target, cands):
    """Static bound on the unifier's work (it has no work limit of its own).

    legit: a Sum/Product with k free operands and n fixed ones yields up to
    k**(M-n) records against a target node of M operands; the numbers of
    different nodes multiply.  dup: identical sibling operands (pattern or
    target) give identical records; every Sum/Product with n fixed operands
    that is processed later combines them in dup**n ways, and so on."""
    import math
    m_target = 1
    dup = 1

    def mult(children):
        seen = {}
        for c in children:
            k = walk.key(c, strict=False)
            seen[k] = seen.get(k, 0) + 1
        r = 1
        for v in seen.values():
            r *= math.factorial(v)
        return r
    for _, n in walk.occurrences(target):
        if type(n) in AC_UNIFIER:
            m_target = max(m_target, len(n.children))
            dup *= mult(n.children)
    legit = 1
    expo = 1
    for _, n in walk.occurrences(pattern):
        if type(n) in AC_UNIFIER:
            k = sum(1 for c in n.children
                    if type(c) is p.Variable and c.name in cands)
            fixed = len(n.children) - k
            dup *= mult(n.children)
            if k >= 2:
                legit *= k ** max(1, m_target - fixed)
            expo *= max(1, fixed)
    if legit > WORK_LIMIT:
        return "unifier-work-bound:records"
    if dup > 1 and (expo > 12 or dup ** expo > WORK_LIMIT):
        return "unifier-work-bound:identical-operands"
    return None


def _unify(pattern, target, cands):
    from pymbolic.mapper.unifier import UnidirectionalUnifier
    recs = UnidirectionalUnifier(cands)(pattern, target)
    return list(recs)


def check_unify(spec):
    """spec: {"pattern", "target", "cands": [names], "as": container, "origin"}"""
    res = Result()
    pattern = build(spec["pattern"])
    target = build(spec["target"])
    names = list(spec["cands"])
    if not all(isinstance(n, str) for n in names):
        raise HarnessError("candidate names must be strings")
    cands = _cand_container(names, spec.get("as", "set"))
    if not isinstance(pattern, p.Expression):
        raise HarnessError("pattern must be an expression node")
    why = _explosive(pattern, target, set(names))
    if why:
        return res.skip(why)
    recs = _unify(pattern, target, cands)
    interesting = _classify_pattern(res, pattern, set(names))
    res.label("u:origin:" + str(spec.get("origin", "?")))
    if recs:
        res.label("u:has-records")
        if len(recs) > 1:
            res.label("u:several-records")
    _judge_records(res, pattern, target, set(names), recs)
    res.nontrivial = bool(interesting and recs)
    res.sample = {"pattern": str(pattern), "target": str(target),
                  "candidates": sorted(names), "records": [repr(r) for r in recs[:3]],
                  "n_records": len(recs)}
    return res


def _commute(e, keys):
    """Permute the operands of every Sum/Product (preorder); the i-th such
    node uses the (keys[i % len] mod n!)-th permutation of its n operands."""
    import itertools
    import math
    counter = [0]

    def rec(x):
        if type(x) in AC_UNIFIER:
            k = keys[counter[0] % len(keys)]
            counter[0] += 1
            n = len(x.children)
            perm = next(itertools.islice(itertools.permutations(range(n)),
                                         k % math.factorial(n), None)) if n else ()
            return type(x)(tuple(rec(x.children[i]) for i in perm))
        return walk.rebuild(x, rec)
    return rec(e)


def check_rename(spec):
    """spec: {"pattern", "cands": [names], "as", "renaming": [[old, new], ...],
    "shuffle": [ints]}.  The target is the pattern under the renaming
    (reference substitution); a non-empty "shuffle" also commutes operands."""
    res = Result()
    pattern = build(spec["pattern"])
    if not isinstance(pattern, p.Expression):
        raise HarnessError("pattern must be an expression node")
    names = list(spec["cands"])
    ren = {}
    for pair in spec["renaming"]:
        if (not isinstance(pair, list) or len(pair) != 2
                or not all(isinstance(x, str) for x in pair)):
            raise HarnessError("renaming entries are [old, new]")
        ren[pair[0]] = pair[1]
    pvars = walk.variables(pattern)
    if not set(names) <= pvars:
        raise HarnessError("candidates must be pattern variables")
    if not set(ren) <= set(names):
        raise HarnessError("only candidates are renamed")
    full = {v: ren.get(v, v) for v in pvars}
    if len(set(full.values())) != len(full):
        raise HarnessError("renaming not injective on the pattern's variables")
    cands = _cand_container(names, spec.get("as", "set"))

    def sub(e):
        if type(e) is p.Variable and e.name in ren:
            return (p.Variable(ren[e.name]),)
        return None
    target = walk.transform(pattern, sub)
    shuffle = [k for k in spec.get("shuffle", []) if isinstance(k, int) and k >= 0]
    commuted = False
    if shuffle:
        # also commute the operands of the target's sums/products: not covered
        # by the letter of the completeness clause (see F28), separate kind
        before = walk.key(target)
        target = _commute(target, shuffle)
        commuted = walk.key(target) != before
    why = _explosive(pattern, target, set(names))
    if why:
        return res.skip(why)
    recs = _unify(pattern, target, cands)
    interesting = _classify_pattern(res, pattern, set(names))
    res.label("u:origin:rename+commute" if commuted else "u:origin:rename")
    if recs:
        res.label("u:has-records")
    _judge_records(res, pattern, target, set(names), recs)
    res.compared()
    if not recs:
        res.fail("no-record-for-commuted-renaming" if commuted
                 else "no-record-for-injective-renaming",
                 f"pattern {pattern!r}\ncandidates {sorted(names)}\n"
                 f"renaming {ren}\ntarget {target!r}")
    res.nontrivial = bool(interesting)
    res.sample = {"pattern": str(pattern), "target": str(target),
                  "candidates": sorted(names), "renaming": ren,
                  "n_records": len(recs)}
    return res

# }}}


# {{{ bridge

def _wildcards(e):
    dots, stars = [], []
    for _, n in walk.occurrences(e):
        if isinstance(n, p.DotWildcard):
            dots.append(n.name)
        elif isinstance(n, p.StarWildcard):
            stars.append(n.name)
    return dots, stars


def _star_positions(e, out=None):
    """Labels 'commutative' / 'sequence' / 'fixed' for every StarWildcard."""
    if out is None:
        out = []
    if isinstance(e, (tuple, list)):
        for c in e:
            if isinstance(c, p.StarWildcard):
                out.append("sequence")
            else:
                _star_positions(c, out)
        return out
    if not isinstance(e, p.Expression):
        return out
    if isinstance(e, p.StarWildcard):
        out.append("fixed")
        return out
    for fname, kind in walk.field_kinds(e):
        v = getattr(e, fname)
        if kind == K_EXPRS:
            for c in v:
                if isinstance(c, p.StarWildcard):
                    out.append("commutative" if type(e) in AC_BRIDGE else
                               "sequence" if type(e) is p.Call else "fixed")
                else:
                    _star_positions(c, out)
        elif kind == K_EXPR and v is not None:
            if isinstance(v, p.StarWildcard):
                out.append("fixed")
            else:
                _star_positions(v, out)
    return out


class _BadBinding(Exception):
    pass


def _star_items(v):
    if isinstance(v, Mapping):        # multiset.Multiset: element -> count
        items = []
        for el, cnt in v.items():
            items.extend([el] * cnt)
        return sorted(items, key=lambda x: repr(walk.key(x, strict=False)))
    if isinstance(v, (tuple, list)):
        return list(v)
    raise _BadBinding(f"star wildcard bound to {type(v).__name__}")


def binst(e, subst):
    """Reference instantiation of a pattern: dot wildcard -> bound value, star
    wildcard -> its bound elements spliced into the enclosing operand list."""
    def seq(items):
        out = []
        for c in items:
            if isinstance(c, p.StarWildcard):
                if c.name in subst:
                    out.extend(_star_items(subst[c.name]))
                else:
                    out.append(c)
            else:
                out.append(binst(c, subst))
        return tuple(out)

    if isinstance(e, p.DotWildcard):
        if e.name in subst:
            v = subst[e.name]
            if isinstance(v, (Mapping, tuple, list)):
                raise _BadBinding(f"dot wildcard bound to {type(v).__name__}")
            return v
        return e
    if isinstance(e, p.StarWildcard):
        raise HarnessError("star wildcard in a non-variadic position")
    if isinstance(e, tuple):
        return seq(e)
    if isinstance(e, p.Expression):
        args = []
        for fname, kind in walk.field_kinds(e):
            v = getattr(e, fname)
            if kind == K_EXPR:
                args.append(None if v is None else binst(v, subst))
            elif kind == K_EXPRS:
                args.append(seq(v))
            elif kind == K_KWMAP:
                raise HarnessError("keyword calls are outside the bridge")
            else:
                args.append(v)
        return type(e)(*args)
    return e


def _bridge_pattern(spec_pattern):
    pattern = build(spec_pattern)
    if not isinstance(pattern, p.Expression) or isinstance(
            pattern, (p.DotWildcard, p.StarWildcard, p.Variable)):
        raise HarnessError("bridge patterns are rooted at an operator node")
    pos = _star_positions(pattern)
    if "fixed" in pos:
        raise HarnessError("star wildcard in a non-variadic position")
    dots, stars = _wildcards(pattern)
    if set(dots) & set(stars):
        raise HarnessError("a name used for a dot and a star wildcard")
    if len(set(stars)) != len(stars):
        raise HarnessError("star wildcard names are unique")
    return pattern, dots, stars, pos


def _label_pattern(res, dots, stars, pos):
    if "commutative" in pos:
        res.label("b:star-commutative")
    if "sequence" in pos:
        res.label("b:star-sequence")
    if len(set(dots)) < len(dots):
        res.label("b:repeated-dot")
    return len(dots) + len(stars) >= 2 or bool(stars)


def _judge_subst(res, pattern, dots, stars, subst, against, what):
    """One reported substitution against the term it is said to match."""
    res.compared()
    names = set(dots) | set(stars)
    if not set(subst) <= names:
        res.fail("binds-unknown-name", f"{sorted(set(subst) - names)} in {subst!r}")
        return
    if set(subst) != names:
        res.fail("wildcard-left-unbound", f"{sorted(names - set(subst))} in {subst!r}")
        return
    try:
        inst = binst(pattern, subst)
    except _BadBinding as exc:
        res.fail("binding-of-wrong-shape", f"{exc}: {subst!r}")
        return
    if mkey(inst, AC_BRIDGE) != mkey(against, AC_BRIDGE):
        res.fail("instance-differs-from-" + what,
                 f"pattern {pattern!r}\nsubstitution {subst!r}\ninstance {inst!r}\n"
                 f"{what} {against!r}")


def check_roundtrip(spec):
    """spec: {"expr"}  (wildcard-free)"""
    import pymbolic.interop.matchpy  # noqa: F401
    from pymbolic.interop.matchpy.tofrom import (
        FromMatchpyExpressionMapper, ToMatchpyExpressionMapper)
    res = Result()
    e = build(spec["expr"])
    dots, stars = _wildcards(e)
    if dots or stars:
        raise HarnessError("round trip is for wildcard-free expressions")
    back = FromMatchpyExpressionMapper()(ToMatchpyExpressionMapper()(e))
    res.compared(2)
    if mkey(back, AC_BRIDGE) != mkey(e, AC_BRIDGE):
        res.fail("roundtrip-differs-modulo-ac", f"{e!r}\n-> {back!r}")
    elif okey(back) != okey(flatten_bridge(e)):
        res.fail("roundtrip-loses-detail",
                 f"{e!r}\n-> {back!r}\n(expected the flattened input up to operand "
                 "order and subscript tuple form, constants with their types)")
    types = walk.node_types(e)
    flat = is_flat(e)
    res.label("b:roundtrip-flat" if flat else "b:roundtrip-nested")
    for t in types:
        if t in NODE_TABLE:
            res.label("b:rt:" + t)
    res.nontrivial = walk.n_operator_nodes(e) >= 3 and any(
        type(n) in AC_BRIDGE for _, n in walk.occurrences(e))
    res.sample = {"expr": repr(e)[:300], "back": repr(back)[:300]}
    return res


def check_match(spec):
    """spec: {"pattern", "subject", "origin"}"""
    import pymbolic.interop.matchpy as m
    res = Result()
    pattern, dots, stars, pos = _bridge_pattern(spec["pattern"])
    subject = build(spec["subject"])
    if _wildcards(subject) != ([], []):
        raise HarnessError("subject contains wildcards")
    interesting = _label_pattern(res, dots, stars, pos)
    res.label("b:origin:" + str(spec.get("origin", "?")))
    try:
        results = []
        for subst in m.match(subject, pattern):
            results.append(subst)
            if len(results) >= MAX_RECORDS:
                break
    except Exception as exc:
        res.fail(_raises_kind(exc), _tb(exc))
        return res
    if results:
        res.label("b:has-match")
    for subst in results:
        _judge_subst(res, pattern, dots, stars, subst, subject, "subject")
    res.nontrivial = bool(interesting and results)
    res.sample = {"pattern": repr(pattern)[:300], "subject": repr(subject)[:300],
                  "matches": [repr(s)[:200] for s in results[:3]]}
    return res


def check_anywhere(spec):
    """spec: {"pattern", "subject", "origin"}"""
    import pymbolic.interop.matchpy as m
    res = Result()
    pattern, dots, stars, pos = _bridge_pattern(spec["pattern"])
    subject = build(spec["subject"])
    if _wildcards(subject) != ([], []):
        raise HarnessError("subject contains wildcards")
    interesting = _label_pattern(res, dots, stars, pos)
    res.label("b:origin:" + str(spec.get("origin", "?")))
    try:
        results = []
        for item in m.match_anywhere(subject, pattern):
            results.append(item)
            if len(results) >= MAX_RECORDS:
                break
    except Exception as exc:
        res.fail(_raises_kind(exc), _tb(exc))
        return res
    if results:
        res.label("b:has-match")
    skeys = subterm_keys(subject)
    for item in results:
        res.compared()
        if not (isinstance(item, tuple) and len(item) == 2
                and isinstance(item[0], Mapping)):
            res.fail("result-not-a-pair", repr(item)[:300])
            continue
        subst, term = item
        if mkey(term, AC_BRIDGE) not in skeys:
            res.fail("reported-term-not-in-subject",
                     f"{term!r} is no sub-term of {subject!r}")
        _judge_subst(res, pattern, dots, stars, subst, term, "reported-term")
    res.nontrivial = bool(interesting and results)
    res.sample = {"pattern": repr(pattern)[:300], "subject": repr(subject)[:300],
                  "matches": [repr(s)[:200] for s in results[:3]]}
    return res


MARK = "__m"
MAX_REPLACEMENTS = 60


class _TooManyReplacements(Exception):
    pass


def check_replace(spec):
    """spec: {"pattern", "subject", "origin"}"""
    import pymbolic.interop.matchpy as m
    res = Result()
    pattern, dots, stars, pos = _bridge_pattern(spec["pattern"])
    subject = build(spec["subject"])
    if _wildcards(subject) != ([], []):
        raise HarnessError("subject contains wildcards")
    anchors = walk.variables(pattern)
    if not anchors:
        return res.skip("pattern without a fixed variable (rewriting would not end)")
    if any(v.endswith(MARK) for v in anchors | walk.variables(subject)):
        raise HarnessError("marker suffix in the input")
    interesting = _label_pattern(res, dots, stars, pos)
    res.label("b:origin:" + str(spec.get("origin", "?")))

    def mark(e):
        if type(e) is p.Variable:
            return (p.Variable(e.name + MARK),)
        return None
    marked = walk.transform(pattern, mark)
    names = set(dots) | set(stars)
    calls = []
    problems = []

    def replacement(**kw):
        calls.append(kw)
        if len(calls) > MAX_REPLACEMENTS:
            raise _TooManyReplacements()
        if set(kw) != names:
            problems.append(("replacement-called-with-wrong-names",
                             f"{sorted(kw)} instead of {sorted(names)}"))
        try:
            return binst(marked, kw)
        except _BadBinding as exc:
            problems.append(("binding-of-wrong-shape", f"{exc}: {kw!r}"))
            raise

    try:
        rule = m.make_replacement_rule(pattern, replacement)
        out = m.replace_all(subject, [rule])
    except _TooManyReplacements:
        res.fail("replace-does-not-terminate",
                 f"more than {MAX_REPLACEMENTS} replacements although every one "
                 f"renames a variable of the pattern\npattern {pattern!r}\n"
                 f"subject {subject!r}")
        return res
    except _BadBinding:
        for k, d in problems:
            res.fail(k, d)
        return res
    except Exception as exc:
        res.fail(_raises_kind(exc), _tb(exc))
        return res
    for k, d in problems:
        res.fail(k, d)
    if calls:
        res.label("b:replaced", "b:has-match")

    def unmark(e):
        if type(e) is p.Variable and e.name.endswith(MARK):
            return (p.Variable(e.name[:-len(MARK)]),)
        return None
    res.compared()
    if isinstance(out, tuple):
        res.fail("replace-returns-a-sequence", repr(out)[:300])
        return res
    restored = walk.transform(out, unmark)
    if mkey(restored, AC_BRIDGE) != mkey(subject, AC_BRIDGE):
        res.fail("rebuilding-replacement-is-not-identity",
                 f"pattern {pattern!r}\nsubject {subject!r}\nresult {out!r}")
    res.nontrivial = bool(interesting and calls)
    res.sample = {"pattern": repr(pattern)[:300], "subject": repr(subject)[:300],
                  "result": repr(out)[:300], "replacements": len(calls)}
    return res

# }}}


CHECKS = {"unify": check_unify, "rename": check_rename, "roundtrip": check_roundtrip,
          "match": check_match, "anywhere": check_anywhere, "replace": check_replace}


# {{{ known findings

def _pattern_has_star(spec):
    return any(s[0] == "StarWildcard" for s in subspecs(spec.get("pattern")))


def _known_f19(sub, spec, fail):
    """match()/match_anywhere() hand matchpy's tuple / Multiset bindings of
    star wildcards to FromMatchpyExpressionMapper."""
    return (sub in ("match", "anywhere")
            and fail.kind in ("raises:AttributeError@interop/matchpy/mapper.py:rec",
                              "raises:TypeError@interop/matchpy/mapper.py:rec")
            and ("unhashable type: 'Multiset'" in fail.detail
                 or "'tuple' object has no attribute '_mapper_method'" in fail.detail)
            and _pattern_has_star(spec))


def _known_f28(sub, spec, fail):
    """Completeness: a Sum/Product of the pattern holds >= 2 free (candidate)
    variables next to a fixed operand, and one of those variables occurs again
    (so that the first consistent leftover partition can be the wrong one)."""
    if sub != "rename" or fail.kind != "no-record-for-commuted-renaming":
        return False
    cands = set(spec["cands"])
    counts = {}
    for s in subspecs(spec["pattern"]):
        if s[0] == "Var":
            counts[s[1]] = counts.get(s[1], 0) + 1
    for s in subspecs(spec["pattern"]):
        if s[0] in ("Sum", "Product"):
            free = [c[1] for c in s[1] if c[0] == "Var" and c[1] in cands]
            if (len(free) >= 2 and len(free) < len(s[1])
                    and any(counts.get(v, 0) >= 2 for v in free)):
                return True
    return False


def _inside_tuple_operand(spec):
    """An operator node sits (at any depth) inside call parameters or
    subscript indices of the subject."""
    def has_op(s):
        return any(x[0] not in ("Var", "Const") for x in subspecs(s))
    for s in subspecs(spec.get("subject")):
        if s[0] == "Call" and any(has_op(a) for a in s[2]):
            return True
        if s[0] == "Subscript" and has_op(s[2]):
            return True
    return False


def _known_tupleop(sub, spec, fail):
    """replace_all below call parameters / subscript indices: matchpy rebuilds
    TupleOp as TupleOp(*operands, variable_name=...), which its dataclass
    __init__(_operands, variable_name) cannot take."""
    return (sub == "replace"
            and ((fail.kind == "raises:TypeError@interop/matchpy/__init__.py:replace_all"
                  and "TupleOp.__init__() got multiple values" in fail.detail)
                 or (fail.kind == "raises:AttributeError@interop/matchpy/mapper.py:rec"
                     and ("map_tuple_op" in fail.detail
                          or "object has no attribute '_mapper_method'" in fail.detail))
                 or fail.kind == "rebuilding-replacement-is-not-identity")
            and _inside_tuple_operand(spec))


KNOWN = {"F19": _known_f19, "F28": _known_f28, "F19b": _known_tupleop}

# }}}


# {{{ generators (specs only)

def V(n):
    return ["Var", n]


def C(i):
    return ["Const", "int", i]


CANDS = ("a", "b", "c", "d")
FIXED = ("x", "y", "z")
FUNCS = ("f", "g")
AGGS = ("A", "B")
VALNAMES = ("u", "v", "w", "x", "y")
FRESH = ("r0", "r1", "r2", "r3")
CMP_OPS = ("==", "!=", "<", "<=", ">", ">=")


def _const(draw, ctx):
    if ctx == "Product":
        return C(draw(st.sampled_from((2, 3, 5, 1, -1))))
    if ctx == "Sum":
        return C(draw(st.sampled_from((1, 2, 3, 0, -2))))
    k = draw(st.integers(0, 9))
    if k == 0:
        return ["Const", "float", draw(st.sampled_from((1.5, 2.0, 0.5)))]
    if k == 1:
        return ["Const", "bool", draw(st.booleans())]
    return C(draw(st.integers(-2, 5)))


@st.composite
def u_tree(draw, depth, free, fixed, ctx=None, root=False, p_free=55):
    """Pattern-shaped tree: *free* names are favoured and repeated, several of
    them are put into one Sum/Product."""
    def leaf():
        k = draw(st.integers(0, 99))
        if free and k < p_free:
            return V(draw(st.sampled_from(free)))
        if k < 80 or not fixed:
            return V(draw(st.sampled_from(fixed or free)))
        return _const(draw, ctx)

    if not root and (depth <= 0 or draw(st.integers(0, 9)) < 3):
        return leaf()
    tag = draw(st.sampled_from(
        ("Sum", "Sum", "Sum", "Product", "Product", "Product", "Quotient", "Power",
         "Call", "Call", "Subscript", "Comparison", "Comparison", "If", "Lookup")))

    def rec(c=None):
        return draw(u_tree(depth - 1, free, fixed, c, False, p_free))

    if tag in ("Sum", "Product"):
        n = draw(st.sampled_from((2, 2, 3, 3, 3, 4)))
        ch = []
        for _ in range(n):
            if free and draw(st.integers(0, 9)) < 5:
                ch.append(V(draw(st.sampled_from(free))))
            else:
                ch.append(rec(tag))
        return [tag, ch]
    if tag == "Quotient":
        # the three division-like nodes share one handler in the unifier
        tag = draw(st.sampled_from(("Quotient", "Quotient", "FloorDiv", "Remainder")))
        return [tag, rec(), rec()]
    if tag == "Power":
        k = draw(st.integers(0, 3))
        return [tag, rec(), C(2) if k == 0 else C(3) if k == 1 else rec()]
    if tag == "Call":
        fn = V(draw(st.sampled_from(FUNCS + tuple(free[:1]))))
        return [tag, fn, [rec() for _ in range(draw(st.integers(0, 3)))]]
    if tag == "Subscript":
        agg = V(draw(st.sampled_from(AGGS + tuple(free[:1]))))
        k = draw(st.integers(0, 3))
        if k == 0:
            idx = rec()
        else:
            idx = ["Tuple", [rec() for _ in range(k if k < 3 else 1)]]
        return [tag, agg, idx]
    if tag == "Comparison":
        return [tag, rec(), draw(st.sampled_from(CMP_OPS)), rec()]
    if tag == "Lookup":
        # not in the property's node list, but map_lookup is part of the same
        # structural descent and the instantiation law applies unchanged
        return [tag, rec(), draw(st.sampled_from(("real", "imag", "n")))]
    return ["If", ["Comparison", rec(), draw(st.sampled_from(CMP_OPS)), rec()],
            rec(), rec()]


@st.composite
def u_value(draw, depth, ctx=None):
    """Binding value: small tree over VALNAMES; Sum/Product favoured so that
    it merges with the enclosing node."""
    if depth <= 0 or draw(st.integers(0, 9)) < 5:
        k = draw(st.integers(0, 9))
        if k < 7:
            return V(draw(st.sampled_from(VALNAMES)))
        return _const(draw, ctx)
    tag = draw(st.sampled_from(("Sum", "Product", "Sum", "Product", "Call", "Power",
                                "Quotient", "Subscript")))
    if tag in ("Sum", "Product"):
        return [tag, [draw(u_value(depth - 1, tag))
                      for _ in range(draw(st.integers(2, 3)))]]
    if tag == "Call":
        return [tag, V(draw(st.sampled_from(FUNCS))),
                [draw(u_value(depth - 1)) for _ in range(draw(st.integers(1, 2)))]]
    if tag == "Power":
        return [tag, draw(u_value(depth - 1)), C(2)]
    if tag == "Quotient":
        return [tag, draw(u_value(depth - 1)), draw(u_value(depth - 1))]
    return [tag, V("A"), draw(u_value(depth - 1))]


def spec_subst(s, f):
    """Spec-level top-down substitution: f(node_spec) -> replacement list of
    specs (spliced into list fields) or None."""
    if is_node_spec(s):
        r = f(s)
        if r is not None:
            if len(r) != 1:
                raise HarnessError("sequence replacement outside an operand list")
            return r[0]
        out = [s[0]]
        for fld in s[1:]:
            if is_node_spec(fld):
                out.append(spec_subst(fld, f))
            elif isinstance(fld, list):
                lst = []
                for c in fld:
                    if is_node_spec(c):
                        r = f(c)
                        if r is not None:
                            lst.extend(r)
                        else:
                            lst.append(spec_subst(c, f))
                    else:
                        lst.append(c)
                out.append(lst)
            else:
                out.append(fld)
        return out
    return s


MAX_TARGET_ARITY = 5


@st.composite
def shaken(draw, s, ac=("Sum", "Product"), regroup=True):
    """Commute / flatten / regroup the commutative nodes of a spec."""
    if not is_node_spec(s):
        return s
    if s[0] in ("Var", "Const"):
        return s
    out = [s[0]]
    for fld in s[1:]:
        if is_node_spec(fld):
            out.append(draw(shaken(fld, ac, regroup)))
        elif isinstance(fld, list):
            out.append([draw(shaken(c, ac, regroup)) if is_node_spec(c) else c
                        for c in fld])
        else:
            out.append(fld)
    if out[0] in ac:
        ch = out[1]
        if draw(st.integers(0, 9)) < 6:
            flat = []
            for c in ch:
                if c[0] == out[0]:
                    flat.extend(c[1])
                else:
                    flat.append(c)
            if len(flat) <= MAX_TARGET_ARITY:
                ch = flat
        if len(ch) > 1 and draw(st.integers(0, 9)) < 7:
            ch = list(draw(st.permutations(ch)))
        if regroup and len(ch) >= 3 and draw(st.integers(0, 9)) < 2:
            k = draw(st.integers(2, len(ch) - 1))
            ch = [[out[0], ch[:k]], *ch[k:]]
        out[1] = ch
    return out


RECORD_ESTIMATE_LIMIT = 300


def tame(draw, pattern, free, fixed):
    """Keep the unifier's (legitimate) record count small: the number of
    records is about the product over Sum/Product nodes of k! for k free
    operands, and *identical* sibling operands give duplicate records which
    every later Sum/Product with n fixed operands raises to the n-th power.
    Mostly remove identical siblings; cap the product of factorials."""
    dedupe = draw(st.integers(0, 9)) < 8
    budget = [RECORD_ESTIMATE_LIMIT]
    spare = [n for n in fixed] + ["p", "q", "t"]
    fact = {0: 1, 1: 1, 2: 2, 3: 6, 4: 24}

    def fix(s):
        if not is_node_spec(s) or s[0] in ("Var", "Const"):
            return s
        out = [s[0]]
        for fld in s[1:]:
            if is_node_spec(fld):
                out.append(fix(fld))
            elif isinstance(fld, list):
                out.append([fix(c) if is_node_spec(c) else c for c in fld])
            else:
                out.append(fld)
        if out[0] in ("Sum", "Product"):
            ch = out[1]
            if dedupe:
                seen = []
                new = []
                for c in ch:
                    if c in seen:
                        alt = [V(n) for n in list(free) + spare if V(n) not in seen
                               and V(n) not in ch]
                        c = alt[0] if alt else C(7 + len(seen))
                    seen.append(c)
                    new.append(c)
                ch = new
            k = sum(1 for c in ch if c[0] == "Var" and c[1] in free)
            while k >= 2 and budget[0] // fact[min(k, 4)] < 1:
                # turn one free operand into a fixed one
                for i, c in enumerate(ch):
                    if c[0] == "Var" and c[1] in free:
                        alt = [V(n) for n in spare if V(n) not in ch]
                        ch = ch[:i] + [alt[0] if alt else C(11 + i)] + ch[i + 1:]
                        break
                k -= 1
            budget[0] = max(1, budget[0] // fact[min(k, 4)])
            out[1] = ch
        return out
    return fix(pattern)


DIVKINDS = ("Quotient", "FloorDiv", "Remainder")


@st.composite
def perturbed(draw, target):
    """An instance that is off by one detail: a leaf, a comparison operator
    or a lookup name."""
    cmps = [x for x in subspecs(target) if x[0] == "Comparison"]
    lks = [x for x in subspecs(target) if x[0] == "Lookup"]
    acs = [x for x in subspecs(target) if x[0] in ("Sum", "Product")]
    divs = [x for x in subspecs(target) if x[0] in DIVKINDS]
    kinds = ["leaf", "leaf"] + (["cmp", "cmp"] if cmps else []) + (
        ["lookup", "lookup"] if lks else []) + (["grow", "grow", "drop"] if acs else []) + (
        ["divkind"] * 3 if divs else [])
    kind = draw(st.sampled_from(kinds))
    if kind == "divkind":
        # the same operands under another of / // %
        k = draw(st.integers(0, len(divs) - 1))
        cnt = [0]

        def g3(node):
            if node[0] in DIVKINDS:
                i = cnt[0]
                cnt[0] += 1
                new_tag = draw(st.sampled_from([t for t in DIVKINDS if t != node[0]])) \
                    if i == k else node[0]
                return [[new_tag, spec_subst(node[1], g3), spec_subst(node[2], g3)]]
            return None
        return spec_subst(target, g3)
    if kind in ("grow", "drop"):
        # one operand more / fewer in one sum or product
        k = draw(st.integers(0, len(acs) - 1))
        new = draw(u_value(0))
        cnt = [0]

        def g2(node):
            if node[0] in ("Sum", "Product"):
                i = cnt[0]
                cnt[0] += 1
                ch = [spec_subst(c, g2) for c in node[1]]
                if i == k:
                    j = draw(st.integers(0, len(ch) - (0 if kind == "grow" else 1)))
                    if kind == "grow":
                        ch = ch[:j] + [new] + ch[j:]
                    elif len(ch) > 1:
                        ch = ch[:j] + ch[j + 1:]
                return [[node[0], ch]]
            return None
        return spec_subst(target, g2)
    if kind == "leaf":
        leaves = [x for x in subspecs(target) if x[0] in ("Var", "Const")]
        if not leaves:
            return target
        k = draw(st.integers(0, len(leaves) - 1))
        new = draw(u_value(0))
        tags = ("Var", "Const")
    elif kind == "cmp":
        k = draw(st.integers(0, len(cmps) - 1))
        tags = ("Comparison",)
    else:
        k = draw(st.integers(0, len(lks) - 1))
        tags = ("Lookup",)
    cnt = [0]

    def g(node):
        if node[0] in tags:
            i = cnt[0]
            cnt[0] += 1
            if i == k:
                if kind == "leaf":
                    return [new]
                if kind == "cmp":
                    op = draw(st.sampled_from([o for o in CMP_OPS if o != node[2]]))
                    return [[node[0], spec_subst(node[1], g), op,
                             spec_subst(node[3], g)]]
                return [[node[0], spec_subst(node[1], g), node[2] + "2"]]
        return None
    return spec_subst(target, g)


def _pattern_vars(s):
    return [x[1] for x in subspecs(s) if x[0] == "Var"]


@st.composite
def unify_case(draw):
    ncand = draw(st.sampled_from((1, 2, 2, 3, 3, 4)))
    free = list(CANDS[:ncand])
    depth = draw(st.sampled_from((1, 2, 2, 3)))
    pattern = tame(draw, draw(u_tree(depth, free, list(FIXED), root=True)), free,
                   list(FIXED))
    present = sorted(set(_pattern_vars(pattern)) & set(free))
    # candidates: mostly all free names present, sometimes a strict subset
    if present and draw(st.integers(0, 9)) < 2:
        cands = [n for n in present if draw(st.booleans())]
    else:
        cands = present
    how = draw(st.sampled_from(("set", "list", "tuple", "frozenset")))
    origin = draw(st.sampled_from(("inst", "inst", "inst", "inst", "incons", "incons",
                                   "indep", "near", "near")))
    if origin in ("inst", "incons", "near"):
        binds = {}
        pool = []
        for n in cands:
            if pool and draw(st.integers(0, 9)) < 2:
                binds[n] = draw(st.sampled_from(pool))
            else:
                binds[n] = draw(u_value(draw(st.sampled_from((0, 0, 1, 1, 2)))))
                pool.append(binds[n])
        if origin == "incons" and cands:
            # one occurrence (chosen by index) gets another value
            occ = [i for i, n in enumerate(_pattern_vars(pattern)) if n in binds]
            hit = draw(st.sampled_from(occ)) if occ else -1
            other = draw(u_value(1))
            if occ and draw(st.integers(0, 2)) == 0:
                # ... one that differs only in -1 / -2 (equal hashes in CPython, and so
                # for every node built around them)
                nm = _pattern_vars(pattern)[hit]
                v0 = draw(u_value(0))
                mk = draw(st.sampled_from((
                    lambda c: c, lambda c: ["Product", [c, v0]], lambda c: ["Power", v0, c],
                    lambda c: ["Sum", [v0, ["Product", [c, V("w")]]]],
                    lambda c: ["Call", V("f"), [c]])))
                binds[nm] = mk(C(-1))
                other = mk(C(-2))
            counter = [0]

            def f(node):
                if node[0] == "Var":
                    i = counter[0]
                    counter[0] += 1
                    if node[1] in binds:
                        return [other if i == hit else binds[node[1]]]
                return None
        else:
            def f(node):
                if node[0] == "Var" and node[1] in binds:
                    return [binds[node[1]]]
                return None
        target = spec_subst(pattern, f)
        if origin == "near":
            target = draw(perturbed(target))
        target = draw(shaken(target))
    else:
        target = draw(u_tree(depth, list(VALNAMES[:3]), list(FIXED), root=True,
                             p_free=40))
        if draw(st.booleans()):
            # same skeleton as the pattern with other leaves
            names = list(VALNAMES)

            def h(node):
                if node[0] == "Var" and node[1] in free:
                    return [V(names[(ord(node[1]) + len(names)) % len(names)])]
                return None
            target = draw(shaken(spec_subst(pattern, h)))
    return {"pattern": pattern, "target": target, "cands": cands, "as": how,
            "origin": origin}


@st.composite
def rename_case(draw):
    ncand = draw(st.sampled_from((2, 2, 3, 3, 4)))
    free = list(CANDS[:ncand])
    depth = draw(st.sampled_from((1, 2, 2, 3)))
    pattern = tame(draw, draw(u_tree(depth, free, list(FIXED), root=True)), free,
                   list(FIXED))
    present = sorted(set(_pattern_vars(pattern)) & set(free))
    if present and draw(st.integers(0, 9)) < 2:
        cands = [n for n in present if draw(st.booleans())]
    else:
        cands = present
    others = set(_pattern_vars(pattern)) - set(cands)
    images = [n for n in list(CANDS) + list(FRESH) if n not in others]
    perm = draw(st.permutations(images))
    # images of non-renamed candidates must stay free: rename all candidates
    renaming = [[c, perm[i]] for i, c in enumerate(cands)]
    how = draw(st.sampled_from(("set", "list", "tuple", "frozenset")))
    shuffle = []
    if draw(st.integers(0, 9)) < 7:
        shuffle = [draw(st.integers(0, 23)) for _ in range(draw(st.integers(1, 4)))]
    return {"pattern": pattern, "cands": cands, "as": how, "renaming": renaming,
            "shuffle": shuffle}


# -- bridge ----------------------------------------------------------------

B_VARS = ("a", "b", "c", "d", "e")
B_AC = ("Sum", "Product", "LogicalAnd", "LogicalOr", "BitwiseOr", "BitwiseAnd",
        "BitwiseXor")
B_CORE = ("Sum", "Sum", "Product", "Product", "Quotient", "Power", "Call", "Call",
          "Subscript", "Comparison", "If")
B_EXT = ("FloorDiv", "Remainder", "LeftShift", "RightShift", "BitwiseNot",
         "BitwiseOr", "BitwiseAnd", "BitwiseXor", "LogicalNot", "LogicalOr",
         "LogicalAnd")


def _b_const(draw):
    k = draw(st.integers(0, 11))
    if k == 0:
        return ["Const", "float", draw(st.sampled_from((1.5, 2.0, 0.0, -0.5)))]
    if k == 1:
        return ["Const", "bool", draw(st.booleans())]
    if k == 2:
        return ["Const", "np.int64", draw(st.integers(0, 3))]
    if k == 3:
        return ["Const", "complex", [0.0, float(draw(st.integers(1, 2)))]]
    if k == 4:
        return ["Const", "np.float64", 2.5]
    return C(draw(st.integers(-1, 4)))


@st.composite
def b_tree(draw, depth, wild=None, ext=False, root=False, tags=None):
    """wild: None or dict(dots=[names], stars=[unused names], p_dot, p_star)."""
    def leaf():
        k = draw(st.integers(0, 99))
        if wild is not None and k < wild["p_dot"]:
            return ["DotWildcard", draw(st.sampled_from(wild["dots"]))]
        if k < 75:
            return V(draw(st.sampled_from(B_VARS)))
        return _b_const(draw)

    if not root and (depth <= 0 or draw(st.integers(0, 9)) < 3):
        return leaf()
    tag = draw(st.sampled_from(tags or (B_CORE + (B_EXT if ext else ()))))

    def rec():
        return draw(b_tree(depth - 1, wild, ext, False, tags))

    def maybe_star(ch, lo, commutative=False):
        # star wildcards only in variadic operand lists; two in one list only
        # for sequences (matchpy's commutative matching of two sequence
        # wildcards against a long operand list takes seconds)
        if wild is not None and wild["stars"] and draw(st.integers(0, 99)) < wild["p_star"]:
            name = wild["stars"].pop(0)
            ch.insert(draw(st.integers(lo, len(ch))), ["StarWildcard", name])
            if wild["stars"] and not commutative and draw(st.integers(0, 9)) < 2:
                name = wild["stars"].pop(0)
                ch.insert(draw(st.integers(lo, len(ch))), ["StarWildcard", name])
        return ch

    if tag in B_AC:
        n = draw(st.sampled_from((2, 2, 3, 3, 4) if wild is None else (1, 2, 2, 3)))
        ch = [rec() for _ in range(n)]
        if tag in ("Sum", "Product", "LogicalAnd"):
            ch = maybe_star(ch, 0, True)
        if len(ch) < 2 and not any(c[0] == "StarWildcard" for c in ch):
            ch.append(rec())
        return [tag, ch]
    if tag in ("Quotient", "FloorDiv", "Remainder", "Power", "LeftShift",
               "RightShift"):
        return [tag, rec(), rec()]
    if tag in ("BitwiseNot", "LogicalNot"):
        return [tag, rec()]
    if tag == "Call":
        fn = V(draw(st.sampled_from(FUNCS))) if draw(st.integers(0, 9)) < 8 else rec()
        ch = maybe_star([rec() for _ in range(draw(st.integers(0, 3)))], 0)
        return [tag, fn, ch]
    if tag == "Subscript":
        agg = V(draw(st.sampled_from(AGGS)))
        k = draw(st.integers(0, 3))
        if k == 0:
            return [tag, agg, rec()]
        ch = maybe_star([rec() for _ in range(k if k < 3 else 1)], 0)
        return [tag, agg, ["Tuple", ch]]
    if tag == "Comparison":
        return [tag, rec(), draw(st.sampled_from(CMP_OPS)), rec()]
    return ["If", ["Comparison", rec(), draw(st.sampled_from(CMP_OPS)), rec()],
            rec(), rec()]


@st.composite
def roundtrip_case(draw):
    depth = draw(st.sampled_from((1, 2, 3, 3, 4)))
    e = draw(b_tree(depth, None, ext=draw(st.booleans()), root=True))
    k = draw(st.integers(0, 9))
    if k < 2:
        # degenerate arities the bridge accepts
        inner = draw(b_tree(1, None))
        tag = draw(st.sampled_from(("Sum", "Product")))
        e = [tag, [[tag, [inner]], e]] if k == 0 else ["Power", [tag, [inner]], e]
    return {"expr": e}


@st.composite
def b_pattern(draw):
    wild = {"dots": ["d0_", "d1_", "d2_"][:draw(st.integers(1, 3))],
            "stars": ["s0_", "s1_"], "p_dot": draw(st.sampled_from((25, 40, 55))),
            "p_star": draw(st.sampled_from((0, 35, 60)))}
    depth = draw(st.sampled_from((1, 2, 2, 3)))
    tags = B_CORE + (("LogicalAnd",) if draw(st.integers(0, 9)) == 0 else ())
    return draw(b_tree(depth, wild, False, True, tags))


@st.composite
def b_instance(draw, pattern, faithful=True):
    binds = {}
    pool = []

    def val():
        if pool and draw(st.integers(0, 9)) < 3:
            return draw(st.sampled_from(pool))
        v = draw(b_tree(draw(st.sampled_from((0, 0, 1, 1, 2))), None, False, False,
                        B_CORE))
        pool.append(v)
        return v

    for s in subspecs(pattern):
        if s[0] == "DotWildcard" and s[1] not in binds:
            binds[s[1]] = [val()]
        elif s[0] == "StarWildcard" and s[1] not in binds:
            binds[s[1]] = [val() for _ in range(draw(st.sampled_from((0, 1, 1, 2, 2))))]

    def f(node):
        if node[0] in ("DotWildcard", "StarWildcard"):
            return binds[node[1]]
        return None
    inst = spec_subst(pattern, f)
    if not faithful:
        leaves = [x for x in subspecs(inst) if x[0] in ("Var", "Const")]
        if leaves:
            k = draw(st.integers(0, len(leaves) - 1))
            cnt = [0]
            new = V(draw(st.sampled_from(B_VARS)))

            def g(node):
                if node[0] in ("Var", "Const"):
                    i = cnt[0]
                    cnt[0] += 1
                    if i == k:
                        return [new]
                return None
            inst = spec_subst(inst, g)
    return draw(shaken(inst, B_AC, regroup=True))


@st.composite
def b_context(draw, inst, deep_ok=True):
    """Embed an instance into a larger subject."""
    k = draw(st.integers(0, 9))
    other = draw(b_tree(1, None, False, False, B_CORE))
    if k == 0:
        return ["Sum", [inst, other]]
    if k == 1:
        return ["Product", [other, inst]]
    if k == 2:
        return ["Power", inst, C(2)]
    if k == 3:
        return ["Quotient", other, inst]
    if k == 4:
        return ["If", ["Comparison", inst, "<", other], other, inst]
    if k == 5:
        return ["Comparison", other, ">=", inst]
    if k == 6 and deep_ok:
        return ["Call", V("h"), [other, inst]]
    if k == 7 and deep_ok:
        return ["Subscript", V("A"), inst]
    if k == 8:
        return ["Sum", [["Power", inst, C(3)], ["Product", [other, inst]]]]
    return ["Quotient", inst, inst]


@st.composite
def match_case(draw, sub):
    pattern = draw(b_pattern())
    origin = draw(st.sampled_from(("inst", "inst", "inst", "near", "indep")))
    if origin == "indep":
        subject = draw(b_tree(draw(st.integers(1, 3)), None, False, True, B_CORE))
    else:
        subject = draw(b_instance(pattern, faithful=(origin == "inst")))
    if sub == "replace" and not any(x[0] == "Var" for x in subspecs(pattern)):
        # the rewriting run needs a variable of the pattern to mark
        pattern = (["Call", V(draw(st.sampled_from(FUNCS))), [pattern]]
                   if draw(st.booleans()) else
                   ["Sum", [pattern, V(draw(st.sampled_from(B_VARS)))]])
        if origin != "indep":
            subject = draw(b_instance(pattern, faithful=(origin == "inst")))
    if sub != "match" and draw(st.integers(0, 9)) < 6:
        subject = draw(b_context(subject))
        if draw(st.integers(0, 9)) < 2:
            subject = draw(b_context(subject))
        origin += "+ctx"
    return {"pattern": pattern, "subject": subject, "origin": origin}

# }}}


def generate(ctx):
    ctx.run_given(unify_case(), lambda s: ctx.judge("unify", s), ctx.n(5000, 200000))
    ctx.run_given(rename_case(), lambda s: ctx.judge("rename", s), ctx.n(2500, 100000))
    ctx.run_given(roundtrip_case(), lambda s: ctx.judge("roundtrip", s),
                  ctx.n(1500, 50000))
    ctx.run_given(match_case("match"), lambda s: ctx.judge("match", s),
                  ctx.n(1500, 60000))
    ctx.run_given(match_case("anywhere"), lambda s: ctx.judge("anywhere", s),
                  ctx.n(1200, 50000))
    ctx.run_given(match_case("replace"), lambda s: ctx.judge("replace", s),
                  ctx.n(1300, 50000))


MANIFEST = {
    "text": ("Generated-input search with an instantiate-and-compare oracle: every "
             "UnificationRecord of UnidirectionalUnifier must bind only declared "
             "candidates, one value per name, and reproduce the target modulo AC of "
             "sums/products when substituted by a reference substitution; injective "
             "renamings must yield a record. The matchpy bridge is checked by round "
             "trip (To then From), and every substitution reported by match / "
             "match_anywhere and every replace_all run with a rebuilding replacement "
             "is judged by the same instantiation law, with dot and star wildcards in "
             "commutative and sequence positions. Exploration, not proof."),
    "note": ("Trusted: the reference substitution and AC keys in pbt/props/c16.py "
             "(over pbt/walk.py), Hypothesis generation. No completeness is demanded "
             "from the bridge; the unifier's completeness only for injective renamings."),
    "technique": "property-based testing (Hypothesis), metamorphic instantiate-and-compare oracle, round trip",
    "design_ref": "DESIGN.md section 4, C16",
}
