"""C15 - linear-form extraction and affine solving are exact.

Code under test
  pymbolic.mapper.coefficient.CoefficientCollector
  pymbolic.algorithm.gaussian_elimination / solve_affine_equations_for

Oracle: pbt.polynf (exact rational functions over Fraction; subscripts, calls,
lookups and non-literal powers are opaque indeterminates keyed structurally)
plus exact Fraction row reduction written here.

Sub-checks
  collect  one (expression, target names) pair through CoefficientCollector
  solve    one small integer affine system through solve_affine_equations_for
  gauss    one small integer augmented matrix through gaussian_elimination
"""
from __future__ import annotations

from fractions import Fraction
from math import gcd

import numpy as np
from hypothesis import strategies as st

import pymbolic.primitives as p
from pymbolic.algorithm import gaussian_elimination, solve_affine_equations_for
from pymbolic.mapper.coefficient import CoefficientCollector

from pbt import walk
from pbt.polynf import Converter, NotRational, Poly, RatFunc
from pbt.refsem import exc_site
from pbt.runner import Result
from pbt.spec import HarnessError, build

PROP = "C15"
LEVEL = "exploration"
RULE = (
    "collect: trees built to be syntactically affine in a chosen target set (every "
    "product has at most one target-bearing factor, placed at a random position; "
    "quotients only by target-free terms; powers target-free; target-free sub-terms "
    "arbitrary over sums, products, quotients, powers, constants, variables, "
    "subscripts, calls, lookups) with target_names None / the construction set / "
    "supersets / other subsets, and counterparts with one planted violation (second "
    "target-bearing factor, target in a denominator, base or exponent), which count "
    "as non-affine only when the exact normal form certifies degree >= 2 in the "
    "targets or a non-vanishing second difference. solve: unimodular integer "
    "matrices times unknowns plus affine integer parameter terms, rows and unknown "
    "order permuted, terms distributed over lhs and rhs, plus scaled, non-integral, "
    "singular, under-/over-determined and inconsistent variants, classified by exact "
    "Fraction elimination. gauss: small integer augmented matrices. Non-trivial = "
    "collect case that is affine by construction with a product whose "
    "target-bearing factor is not the first factor or with a quotient of a "
    "target-bearing numerator, or a certified non-affine case; solve case with >= 2 "
    "unknowns and >= 1 parameter; gauss case with >= 2 rows and rank >= 2. "
    "Distinct by sha1 of the JSON case spec.")
ASSUMPTIONS = [
    "pbt/polynf.py decides identity of rational functions exactly; subscripts, calls, "
    "lookups and powers with non-literal exponents are independent indeterminates",
    "a collector result is judged as: keys are target leaves of the input, every "
    "coefficient (and the constant term) mentions no target, sum(c_i*v_i)+c_1 equals "
    "the input as a rational function; RuntimeError is the documented refusal",
    "syntactically non-affine inputs whose non-affinity cancels semantically are only "
    "required to be answered correctly if answered at all",
    "with target names given, a subscript/call/lookup that mentions a target name may "
    "be reported as a key or refused; one that mentions none must be a constant",
    "solver domain: distinct unknown names, equations affine with integer coefficients "
    "in unknowns and parameter leaves; anything else is skipped and counted",
    "the solver is not required to accept a uniquely and integrally solvable system "
    "(refusals of such systems are counted under label refused-well-posed, not failed)",
    "gaussian_elimination has no docstring: demanded is what its only caller relies on "
    "(row equivalence over Q, integer entries, pivot columns cleared, primitive rows)",
    "empty Sum()/Product() nodes are outside the generated domain",
]
HEALTH = {
    "cls:affine": 0.15, "cls:nonaffine-certified": 0.05, "targets:none": 0.04,
    "tb-factor-not-first": 0.05, "quotient-of-target": 0.02,
    "sys:unique-integral": 0.06, "sys:accepted-and-verified": 0.03,
    "sys:rank-deficient": 0.02, "sys:inconsistent": 0.01, "sys:nonintegral": 0.02,
    "sys:one-sided": 0.08,
}
TIMEOUT_IS_FAIL = True      # all sizes are bounded by construction
CASE_TIMEOUT_S = 20

COMPOSITE = (p.Subscript, p.Call, p.Lookup)


# {{{ reference side: atoms, syntactic classification, certification

def _is_atom(e):
    return type(e) is p.Variable or type(e) in COMPOSITE


def _atom_is_target(e, tset):
    if tset is None:
        return True
    if type(e) is p.Variable:
        return e.name in tset
    return bool(walk.variables(e) & tset)


def _bears_target(e, tset):
    if tset is None:
        return any(_is_atom(n) for _, n in walk.occurrences(e))
    return bool(walk.variables(e) & tset)


FREE, AFF, NON = "free", "affine", "nonaffine-syntax"


def syn(e, tset):
    """Syntactic class of *e* w.r.t. the targets (independent statement of the
    documented rule: products of at most one target-bearing factor, target-free
    denominators, target-free powers)."""
    if not isinstance(e, p.Expression):
        if isinstance(e, (tuple, list, np.ndarray, str)) or e is None:
            raise HarnessError("container in expression position")
        return FREE
    if _is_atom(e):
        return AFF if _atom_is_target(e, tset) else FREE
    t = type(e)
    if t is p.Sum or t is p.Product:
        if not e.children:
            raise HarnessError("empty Sum/Product is outside the generated domain")
        cs = [syn(c, tset) for c in e.children]
        if NON in cs:
            return NON
        k = cs.count(AFF)
        if t is p.Sum:
            return AFF if k else FREE
        return NON if k >= 2 else (AFF if k else FREE)
    if t is p.Quotient:
        a, b = syn(e.numerator, tset), syn(e.denominator, tset)
        return NON if (a == NON or b != FREE) else a
    if t is p.Power:
        a, b = syn(e.base, tset), syn(e.exponent, tset)
        return FREE if (a == FREE and b == FREE) else NON
    raise HarnessError(f"node type {t.__name__} is outside the collector's node set")


class Conv(Converter):
    """polynf converter remembering which expression each opaque name stands for."""

    def __init__(self):
        super().__init__()
        self.exprs = {}

    def _opaque(self, e):
        r = super()._opaque(e)
        self.exprs[self.opaque_names[walk.key(e, strict=True)]] = e
        return r


def _target_atoms(names, conv, tset):
    """(target atom names, undecidable) among polynf indeterminates *names*."""
    tat, odd = set(), []
    for a in names:
        ex = conv.exprs.get(a)
        if ex is None:
            if tset is None or a in tset:
                tat.add(a)
        elif type(ex) in COMPOSITE:
            if _atom_is_target(ex, tset):
                tat.add(a)
        elif _bears_target(ex, tset):
            odd.append(ex)
    return tat, odd


def _genuinely_nonaffine_power(ex, tset):
    """An opaque power b**t whose exponent really depends on a target and whose
    base is an integer of magnitude >= 2 or a leaf is not affine in the targets."""
    if type(ex) is not p.Power:
        return False
    b = ex.base
    if not (_is_atom(b) or (isinstance(b, int) and not isinstance(b, bool)
                            and abs(b) >= 2)):
        return False
    conv = Conv()
    try:
        r = conv(ex.exponent)
    except (NotRational, ZeroDivisionError):
        return False
    tat, odd = _target_atoms(r.n.variables() | r.d.variables(), conv, tset)
    if odd or (r.d.variables() & tat):
        return False
    return r.n.degree_in(tat) >= 1


_PRIMES = (2, 3, 5, 7, 11, 13, 17, 19, 23, 29, 31, 37, 41, 43, 47, 53, 59, 61)


def certify_nonaffine(r, conv, tset):
    """True: certainly not affine in the targets; False: certainly affine;
    None: undecided (no demand is derived)."""
    names = r.n.variables() | r.d.variables()
    tat, odd = _target_atoms(names, conv, tset)
    if odd:
        # one transcendental power b**t: not affine as soon as the rational
        # function really depends on it (two values at one exact point differ)
        if len(odd) == 1 and _genuinely_nonaffine_power(odd[0], tset):
            pname = conv.opaque_names[walk.key(odd[0], strict=True)]
            for trial in range(3):
                pt = {a: Fraction(_PRIMES[(3 * i + trial) % len(_PRIMES)], 1 + trial)
                      for i, a in enumerate(sorted(names))}
                try:
                    v1 = r.eval({**pt, pname: Fraction(5, 3)})
                    v2 = r.eval({**pt, pname: Fraction(-7, 2)})
                except ZeroDivisionError:
                    continue
                if v1 != v2:
                    return True
        return None
    if not (r.d.variables() & tat):
        return r.n.degree_in(tat) >= 2
    # target-bearing denominator: a non-zero second difference at one exact
    # rational point proves that the function is not affine along that line
    order = sorted(names)
    for trial in range(5):
        pt = {a: Fraction(_PRIMES[(3 * i + trial) % len(_PRIMES)], 1 + trial)
              for i, a in enumerate(order)}
        step = {a: (Fraction(_PRIMES[(2 * i + 1 + trial) % len(_PRIMES)], 2)
                    if a in tat else Fraction(0)) for i, a in enumerate(order)}
        try:
            f = [r.eval({a: pt[a] + k * step[a] for a in order}) for k in (0, 1, 2)]
        except ZeroDivisionError:
            continue
        if f[0] - 2 * f[1] + f[2] != 0:
            return True
    return None

# }}}


# {{{ collect

def _fold_bits(e):
    """(has float, has numpy integer, bits): bits bounds the size of any +/*
    folding of e's constant leaves (each used once): such a value is an integer
    over 2**K, K the sum of the leaves' binary denominators, of magnitude below
    prod(|c|+2).  Python ints fold exactly; floats round beyond 53 bits and
    numpy integers wrap beyond 63."""
    bits = 0
    has_float = has_np = False
    for _, n in walk.occurrences(e):
        if isinstance(n, (bool, np.bool_)) or isinstance(n, p.Expression):
            continue
        if isinstance(n, (float, np.floating)):
            has_float = True
            f = Fraction(float(n)) if n == n and abs(n) != float("inf") else Fraction(0)
            bits += (abs(f.numerator) // f.denominator + 2).bit_length() \
                + f.denominator.bit_length() - 1
        elif isinstance(n, (int, np.integer)):
            has_np = has_np or isinstance(n, np.integer)
            bits += (abs(int(n)) + 2).bit_length()
    return has_float, has_np, bits


_CONTAINERS = {"list": list, "tuple": tuple, "set": set, "frozenset": frozenset}


def _shape_labels(e, tset, res):
    """Non-triviality witnesses on a tree that is affine by construction."""
    nt = False
    for _, n in walk.occurrences(e):
        if type(n) is p.Product:
            cs = [syn(c, tset) for c in n.children]
            if AFF in cs and cs.index(AFF) > 0:
                res.label("tb-factor-not-first")
                nt = True
        elif type(n) is p.Quotient and syn(n.numerator, tset) == AFF:
            res.label("quotient-of-target")
            nt = True
    return nt


def check_collect(spec):
    """spec: {"expr": <spec>, "targets": null | [names], "container": "list"...}"""
    res = Result()
    e = build(spec["expr"])
    targets = spec.get("targets")
    if targets is not None and not (
            isinstance(targets, list) and all(isinstance(t, str) for t in targets)):
        raise HarnessError("targets must be null or a list of names")
    tset = None if targets is None else set(targets)
    cls = syn(e, tset)
    has_float, has_np, bits = _fold_bits(e)
    if (has_float and bits > 52) or (has_np and bits > 62):
        return res.skip("float/numpy constants whose folding may round or wrap")
    if has_float:
        res.label("has-float")
    if has_np:
        res.label("has-np-int")
    conv = Conv()
    try:
        r = conv(e)
    except ZeroDivisionError:
        return res.skip("reference undefined: zero denominator")
    except NotRational as exc:
        return res.skip(f"reference undefined: {exc}")

    if cls == NON:
        cert = certify_nonaffine(r, conv, tset)
        cls = {True: "nonaffine-certified", False: "ambiguous", None: "ambiguous"}[cert]
    res.label("cls:" + cls)
    res.label("targets:none" if tset is None else "targets:names")
    evars = walk.variables(e)
    if tset is not None:
        if tset - evars:
            res.label("targets:superset")
        if evars - tset:
            res.label("targets:subset")
    has_comp = any(type(n) in COMPOSITE for _, n in walk.occurrences(e))
    if has_comp:
        res.label("has-composite-leaf")
    if spec.get("plant"):
        res.label("plant:" + str(spec["plant"]))

    arg = None if targets is None else _CONTAINERS.get(
        spec.get("container", "list"), list)(targets)
    out = refused = None
    try:
        out = CoefficientCollector(arg)(e)
    except RuntimeError as exc:
        refused = exc
    except Exception as exc:
        res.fail("crash:" + exc_site(exc), f"{type(exc).__name__}: {exc}")
        res.sample = {"expr": repr(e)[:300], "targets": targets}
        return res
    res.compared()
    res.label("outcome:refused" if refused is not None else "outcome:returned")
    res.sample = {"expr": repr(e)[:300], "targets": targets, "class": cls,
                  "result": repr(out)[:200] if refused is None else "RuntimeError"}

    if cls in (FREE, AFF):
        res.nontrivial = _shape_labels(e, tset, res)
    else:
        res.nontrivial = cls == "nonaffine-certified"

    if refused is not None:
        if cls in (FREE, AFF):
            # a composite leaf that mentions a target may be refused (see ASSUMPTIONS)
            comp_target = tset is not None and any(
                type(n) in COMPOSITE and _atom_is_target(n, tset)
                for _, n in walk.occurrences(e))
            if not comp_target:
                res.fail("refused-affine-input",
                         f"RuntimeError({refused}) for an input that is syntactically "
                         "affine in the targets")
        return res

    if cls == "nonaffine-certified":
        res.fail("accepted-nonaffine-input",
                 f"returned {out!r} for an input that is not affine in the targets")
        return res
    if not isinstance(out, dict):
        res.fail("result-not-a-dict", repr(out)[:200])
        return res

    # keys: target leaves of the input; coefficients: free of targets
    atoms_in_e = {walk.key(n, strict=False) for _, n in walk.occurrences(e)
                  if _is_atom(n)}
    total = RatFunc(Poly.const(0))
    try:
        for k, c in out.items():
            if not isinstance(k, p.Expression):
                if not (isinstance(k, int) and k == 1):
                    res.fail("key-not-a-leaf", f"key {k!r}")
                    continue
                term = conv(c)
            else:
                if not _is_atom(k):
                    res.fail("key-not-a-leaf", f"key {k!r}")
                elif walk.key(k, strict=False) not in atoms_in_e:
                    res.fail("key-not-in-input", f"key {k!r}")
                elif not _atom_is_target(k, tset):
                    res.fail("nontarget-key",
                             f"{k!r} is reported as a target for names {targets!r}")
                term = conv(c) * conv(k)
            if _bears_target(c, tset):
                res.fail("coefficient-mentions-target",
                         f"coefficient of {k!r} is {c!r}, targets {targets!r}")
            total = total + term
    except (NotRational, ZeroDivisionError) as exc:
        res.fail("coefficient-undefined", f"{type(exc).__name__}: {exc} in {out!r}")
        return res
    res.compared()
    if not (total == r):
        res.fail("linear-form-differs",
                 f"sum(c_i*v_i)+c_1 = {total!r} but the input is {r!r}; result {out!r}")
    return res

# }}}


# {{{ exact linear algebra (reference)

def _rref(rows, npiv):
    """Reduced row echelon form over Q, pivots searched in the first *npiv* columns."""
    m = [[Fraction(v) for v in row] for row in rows]
    piv = []
    r = 0
    for c in range(npiv):
        if r == len(m):
            break
        pr = next((i for i in range(r, len(m)) if m[i][c] != 0), None)
        if pr is None:
            continue
        m[r], m[pr] = m[pr], m[r]
        pv = m[r][c]
        m[r] = [v / pv for v in m[r]]
        for i in range(len(m)):
            if i != r and m[i][c] != 0:
                f = m[i][c]
                m[i] = [a - f * b for a, b in zip(m[i], m[r])]
        piv.append(c)
        r += 1
    return m, piv


def _rank(rows):
    if not rows:
        return 0
    return len(_rref(rows, len(rows[0]))[1])

# }}}


# {{{ solve

def _ref_keys(e):
    """Keys of the stride dictionary the documented collector rule gives for *e*
    (syntactic): leaves, and 1 if there is a leaf-free additive part."""
    if not isinstance(e, p.Expression):
        return {1}
    if _is_atom(e):
        return {walk.key(e, strict=False)}
    t = type(e)
    if t is p.Sum:
        out = set()
        for c in e.children:
            out |= _ref_keys(c)
        return out
    if t is p.Product:
        for c in e.children:
            ks = _ref_keys(c)
            if ks - {1}:
                return ks
        return {1}
    if t is p.Quotient:
        return _ref_keys(e.numerator)
    return {1}


def _two_sided(spec):
    try:
        for pair in spec["equations"]:
            if _ref_keys(build(pair[0])) & _ref_keys(build(pair[1])):
                return True
    except Exception:
        return False
    return False


def _system(spec):
    """-> (unknowns, [(lhs, rhs)], conv, A, B, param atom names) or a skip reason."""
    unknowns = spec.get("unknowns")
    if not (isinstance(unknowns, list) and all(isinstance(u, str) for u in unknowns)
            and len(set(unknowns)) == len(unknowns) and unknowns):
        raise HarnessError("unknowns must be a non-empty list of distinct names")
    eqs = []
    conv = Conv()
    polys = []
    for pair in spec.get("equations", ()):
        if not (isinstance(pair, list) and len(pair) == 2):
            raise HarnessError("an equation is a [lhs, rhs] pair")
        lhs, rhs = build(pair[0]), build(pair[1])
        for side in (lhs, rhs):
            if isinstance(side, (tuple, list, np.ndarray)):
                raise HarnessError("container as equation side")
        eqs.append((lhs, rhs))
        try:
            polys.append((conv(lhs) - conv(rhs)).as_poly())
        except (NotRational, ZeroDivisionError):
            return "out-of-domain: side is not polynomial"
    names = set()
    for pl in polys:
        for mono, c in pl.t.items():
            if sum(ex for _, ex in mono) > 1:
                return "out-of-domain: not affine"
            if c.denominator != 1:
                return "out-of-domain: non-integer coefficient"
            names |= {v for v, _ in mono}
    uset = set(unknowns)
    for a in names:
        ex = conv.exprs.get(a)
        if ex is not None and (type(ex) not in COMPOSITE
                               or walk.variables(ex) & uset):
            return "out-of-domain: unknown inside a parameter leaf or opaque term"
    params = sorted(names - uset)
    a_mat, b_mat = [], []
    for pl in polys:
        a_mat.append([pl.t.get(((u, 1),), Fraction(0)) for u in unknowns])
        b_mat.append([-pl.t.get(((q, 1),), Fraction(0)) for q in params]
                     + [-pl.t.get((), Fraction(0))])
    return unknowns, eqs, conv, a_mat, b_mat, params


def _classify(a_mat, b_mat, n):
    """-> (class, solution rows or None)."""
    if not a_mat:
        return ("rank-deficient" if n else "unique-integral"), []
    red, piv = _rref([ra + rb for ra, rb in zip(a_mat, b_mat)], n)
    if len(piv) < n:
        return "rank-deficient", None
    for row in red[n:]:
        if any(v != 0 for v in row):
            return "inconsistent", None
    sol = [row[n:] for row in red[:n]]
    if all(v.denominator == 1 for row in sol for v in row):
        return "unique-integral", sol
    return "nonintegral", sol


def check_solve(spec):
    """spec: {"unknowns": [names], "equations": [[lhs, rhs], ...]}"""
    res = Result()
    sysm = _system(spec)
    if isinstance(sysm, str):
        return res.skip(sysm)
    unknowns, eqs, conv, a_mat, b_mat, params = sysm
    n = len(unknowns)
    cls, sol = _classify(a_mat, b_mat, n)
    res.label("sys:" + cls)
    two = _two_sided(spec)
    res.label("sys:two-sided" if two else "sys:one-sided")
    res.label(f"unknowns:{min(n, 4)}", f"equations:{'<=>'[(len(eqs) > n) - (len(eqs) < n) + 1]}n")
    if params:
        res.label("has-params")
    if spec.get("variant"):
        res.label("variant:" + str(spec["variant"]))
    res.nontrivial = n >= 2 and len(params) >= 1

    got = refused = None
    try:
        got = solve_affine_equations_for(list(unknowns), list(eqs))
    except RuntimeError as exc:
        refused = exc
    except Exception as exc:
        res.fail("crash:" + exc_site(exc), f"{type(exc).__name__}: {exc}")
        return res
    res.compared()
    res.sample = {"unknowns": unknowns,
                  "equations": [f"{lhs} = {rhs}" for lhs, rhs in eqs][:5],
                  "class": cls,
                  "result": ("RuntimeError: " + str(refused)) if refused is not None
                  else {str(k): str(v) for k, v in got.items()}}
    if refused is not None:
        res.label("outcome:refused")
        if cls == "unique-integral":
            res.label("refused-well-posed")
            if not two:
                res.label("refused-well-posed-one-sided")
        return res
    res.label("outcome:accepted")

    if not isinstance(got, dict):
        res.fail("result-not-a-dict", repr(got)[:200])
        return res
    vals = {}
    for k, v in got.items():
        vals[k.name if type(k) is p.Variable else k] = v
    if set(vals) != set(unknowns):
        res.fail("solution-keys-differ-from-unknowns",
                 f"keys {sorted(map(str, vals))} for unknowns {unknowns}")
        return res
    uset = set(unknowns)
    rvals = {}
    try:
        for u, v in vals.items():
            if isinstance(v, p.Expression) and walk.variables(v) & uset:
                res.fail("assignment-mentions-unknown", f"{u} = {v}")
            rvals[u] = conv(v)
    except (NotRational, ZeroDivisionError) as exc:
        res.fail("assignment-undefined", f"{type(exc).__name__}: {exc}")
        return res
    bad = None
    for i, (ra, rb) in enumerate(zip(a_mat, b_mat)):
        resid = RatFunc(Poly.const(-rb[-1]))
        for q, c in zip(params, rb):
            resid = resid - RatFunc(Poly({((q, 1),): c}))
        for u, c in zip(unknowns, ra):
            if c != 0:
                resid = resid + RatFunc(Poly.const(c)) * rvals[u]
        res.compared()
        if not resid.is_zero():
            bad = (i, resid)
            break
    shown = {u: str(v) for u, v in vals.items()}
    if cls == "rank-deficient":
        res.fail("accepted-rank-deficient-system",
                 f"the equations do not determine the unknowns uniquely, returned {shown}"
                 + (f"; equation {bad[0]} is left with residual {bad[1]!r}" if bad else ""))
    elif cls == "inconsistent":
        res.fail("accepted-inconsistent-system",
                 f"the equations have no solution, returned {shown}")
    elif cls == "nonintegral":
        res.fail("accepted-nonintegral-system",
                 f"the unique solution {sol} is not integral, returned {shown}")
    elif bad is not None:
        res.fail("wrong-solution",
                 f"equation {bad[0]} ({eqs[bad[0]][0]} = {eqs[bad[0]][1]}) is left with "
                 f"residual {bad[1]!r} under {shown}")
    else:
        res.label("sys:accepted-and-verified")
    return res

# }}}


# {{{ gauss

def _int_matrix(x, what):
    if not (isinstance(x, list) and x and all(
            isinstance(r, list) and r and len(r) == len(x[0]) and all(
                isinstance(v, int) and not isinstance(v, bool) for v in r)
            for r in x)):
        raise HarnessError(f"{what} must be a non-empty rectangular list of ints")


def check_gauss(spec):
    """spec: {"mat": [[int]], "rhs": [[int]]} with equally many rows."""
    res = Result()
    _int_matrix(spec.get("mat"), "mat")
    _int_matrix(spec.get("rhs"), "rhs")
    mat0, rhs0 = spec["mat"], spec["rhs"]
    if len(mat0) != len(rhs0):
        raise HarnessError("mat and rhs need equally many rows")
    m, n = len(mat0), len(mat0[0])
    mat = np.empty((m, n), dtype=object)
    rhs = np.empty((m, len(rhs0[0])), dtype=object)
    for i in range(m):
        for j in range(n):
            mat[i, j] = mat0[i][j]
        for j in range(len(rhs0[0])):
            rhs[i, j] = rhs0[i][j]
    try:
        out = gaussian_elimination(mat, rhs)
    except Exception as exc:
        res.fail("crash:" + exc_site(exc), f"{type(exc).__name__}: {exc}")
        return res
    res.compared()
    try:
        mat1, rhs1 = out
        rows1 = [list(mat1[i]) + list(rhs1[i]) for i in range(m)]
        assert np.shape(mat1) == (m, n) and np.shape(rhs1) == np.shape(rhs)
    except Exception:
        res.fail("result-shape", repr(out)[:300])
        return res
    rows0 = [list(a) + list(b) for a, b in zip(mat0, rhs0)]
    rk = _rank(rows0)
    res.label(f"rank:{min(rk, 3)}", "gauss")
    res.nontrivial = m >= 2 and rk >= 2
    res.sample = {"mat": mat0, "rhs": rhs0, "result": [[int(v) if isinstance(
        v, (int, np.integer)) else repr(v) for v in r] for r in rows1]}
    if not all(isinstance(v, (int, np.integer)) and not isinstance(v, (bool, np.bool_))
               for r in rows1 for v in r):
        res.fail("non-integer-entry", repr(rows1)[:300])
        return res
    rows1 = [[int(v) for v in r] for r in rows1]
    res.compared()
    if not (_rank(rows1) == rk == _rank(rows0 + rows1)):
        res.fail("not-row-equivalent",
                 f"{rows0} -> {rows1}: row spaces over Q differ")
    for row in rows1:
        lead = next((j for j in range(n) if row[j] != 0), None)
        if lead is not None:
            if sum(1 for r2 in rows1 if r2[lead] != 0) != 1:
                res.fail("pivot-column-not-cleared",
                         f"{rows0} -> {rows1}: column {lead} of the row {row}")
        g = 0
        for v in row:
            g = gcd(g, v)
        if g > 1:
            res.fail("row-not-primitive", f"{rows0} -> {rows1}: row {row} has gcd {g}")
    return res

# }}}


CHECKS = {"collect": check_collect, "solve": check_solve, "gauss": check_gauss}


# {{{ known findings (see findings/C15.json)

def _f18d(sub, spec, fail):
    """Composite algebraic leaves under explicit target names: Subscript/Call have
    no .name (AttributeError); Lookup.name is the attribute, not a variable."""
    if sub != "collect" or spec.get("targets") is None:
        return False
    try:
        nodes = [n for _, n in walk.occurrences(build(spec.get("expr")))]
    except Exception:
        return False
    if fail.kind == "crash:AttributeError@mapper/coefficient.py:map_algebraic_leaf":
        return any(type(n) in COMPOSITE for n in nodes)
    if fail.kind in ("nontarget-key", "refused-affine-input"):
        return any(type(n) is p.Lookup and n.name in spec["targets"] for n in nodes)
    return False


KNOWN = {
    # matrix assembly overwrites instead of accumulating: a key (unknown,
    # parameter leaf or the constant) that occurs on both sides of an equation
    "F18a": lambda sub, spec, fail: sub == "solve" and _two_sided(spec),
    # uniqueness is tested per column, not per pivot row
    "F18b": lambda sub, spec, fail: (
        sub == "solve" and fail.kind == "accepted-rank-deficient-system"),
    # rows 0 = c are ignored (FIXME in the source)
    "F18c": lambda sub, spec, fail: (
        sub == "solve" and fail.kind == "accepted-inconsistent-system"),
    # map_algebraic_leaf reads .name of every algebraic leaf
    "F18d": _f18d,
}

# }}}


# {{{ generators (plain builders driven by a Hypothesis-seeded Random)

VARS = ("x", "y", "z", "u", "v")
EXTRA_NAMES = ("t9", "q7", "w")


def _ci(v):
    return ["Const", "int", v]


def _var(nm):
    return ["Var", nm]


class _ExprGen:
    def __init__(self, rng, targets, free_vars, none_mode, composites, floats=False,
                 npints=False):
        self.rng = rng
        self.floats = floats
        self.npints = npints
        self.t = list(targets)
        self.n = list(free_vars)
        self.none_mode = none_mode
        self.composites = composites

    # -- leaves -------------------------------------------------------------
    def const(self, nonzero=False):
        rng = self.rng
        r = rng.random()
        if r < 0.78:
            return _ci(rng.choice((-5, -3, -2, -1, 1, 2, 3, 4, 5, 7)))
        if r < 0.82 and not nonzero:
            return _ci(0)
        if r < 0.90:
            if self.floats:
                return ["Const", "float", rng.choice((0.5, -1.5, 2.0, 0.25, 4.0, -0.5))]
            if not self.npints:
                return _ci(rng.choice((10, -12, 100, 2**40 + 1, -(2**33))))
        if r < 0.95 and self.npints:
            return ["Const", "np.int64", rng.choice((1, 3, -2, 6))]
        return _ci(rng.choice((6, -4, 8, 9)))

    def index(self):
        rng = self.rng
        r = rng.random()
        one = lambda: (_ci(rng.randint(0, 3)) if not self.n or rng.random() < 0.6  # noqa: E731
                       else _var(rng.choice(self.n)))
        if r < 0.75:
            return one()
        return ["Tuple", [one(), one()]]

    def free_composite(self):
        rng = self.rng
        r = rng.random()
        if r < 0.6:
            return ["Subscript", _var(rng.choice(("a", "b"))), self.index()]
        if r < 0.8:
            return ["Call", _var(rng.choice(("f", "g"))),
                    [self.free(0) for _ in range(rng.randint(1, 2))]]
        return ["Lookup", _var("o"), rng.choice(("fld", "x", "y"))]

    def free_leaf(self):
        rng = self.rng
        if self.none_mode:
            return self.const()
        r = rng.random()
        if self.composites and r < 0.12:
            return self.free_composite()
        if self.n and r < 0.55:
            return _var(rng.choice(self.n))
        return self.const()

    def target_atom(self):
        rng = self.rng
        pool = self.t
        if self.composites and rng.random() < 0.2:
            r = rng.random()
            if self.none_mode:
                if r < 0.6:
                    return ["Subscript", _var(rng.choice(("a", "b"))),
                            rng.choice((_ci(1), _ci(2), _var("i"),
                                        ["Tuple", [_ci(0), _var("j")]]))]
                if r < 0.8:
                    return ["Call", _var("f"), [_var(rng.choice(VARS))]]
                return ["Lookup", _var("o"), rng.choice(("fld", "x"))]
            if r < 0.6:
                return ["Subscript", _var(rng.choice(pool)), self.index()]
            if r < 0.8:
                return ["Subscript", _var("a"), _var(rng.choice(pool))]
            return ["Call", _var("f"), [_var(rng.choice(pool))]]
        return _var(rng.choice(pool))

    # -- target-free terms --------------------------------------------------
    def free_den(self, d):
        rng = self.rng
        r = rng.random()
        if self.none_mode or not self.n or r < 0.5:
            c = self.const(nonzero=True)
            if rng.random() < 0.15:
                return ["Product", [c, self.const(nonzero=True)]]
            return c
        if r < 0.8:
            return _var(rng.choice(self.n))
        return ["Sum", [_var(rng.choice(self.n)), self.const(nonzero=True)]]

    def exponent(self):
        rng = self.rng
        r = rng.random()
        if r < 0.75:
            return _ci(rng.choice((0, 1, 2, 2, 3)))
        if r < 0.85 and self.n and not self.none_mode:
            return _var(rng.choice(self.n))
        if r < 0.93 and self.floats:
            return ["Const", "float", 0.5]
        return _ci(-1)

    def free(self, d):
        rng = self.rng
        r = rng.random()
        if d <= 0 or r < 0.3:
            return self.free_leaf()
        if r < 0.5:
            return ["Sum", [self.free(d - 1) for _ in range(rng.randint(2, 3))]]
        if r < 0.72:
            return ["Product", [self.free(d - 1) for _ in range(rng.randint(2, 3))]]
        if r < 0.86:
            return ["Quotient", self.free(d - 1), self.free_den(d - 1)]
        ex = self.exponent()
        if ex == _ci(-1):
            return ["Power", self.free_den(0), ex]
        return ["Power", self.free(d - 1), ex]

    # -- affine terms -------------------------------------------------------
    def affine(self, d, force=False):
        rng = self.rng
        r = rng.random()
        if d <= 0 or r < 0.15:
            if force or rng.random() < 0.8:
                return self.target_atom()
            return self.free_leaf()
        if r < 0.5:
            k = rng.randint(2, 4) if rng.random() < 0.93 else 1
            forced = rng.randrange(k)
            return ["Sum", [
                self.affine(d - 1, force and i == forced)
                if (i == forced or rng.random() < 0.6) else self.free(min(d - 1, 2))
                for i in range(k)]]
        if r < 0.85:
            k = rng.randint(2, 4) if rng.random() < 0.93 else 1
            pos = rng.randrange(k)
            return ["Product", [
                self.affine(d - 1, force) if i == pos
                else self.free(rng.choice((0, 0, 1, min(2, d - 1))))
                for i in range(k)]]
        return ["Quotient", self.affine(d - 1, force), self.free_den(d - 1)]

    # -- one planted violation ----------------------------------------------
    def violation(self, d):
        rng = self.rng
        kind = rng.choice(("two-factors", "two-factors", "denominator", "power-base",
                           "power-exponent"))
        self.plant = kind
        aff = lambda: self.affine(min(max(d - 1, 0), 1), force=True)  # noqa: E731
        if kind == "two-factors":
            ch = [aff(), aff()] + [self.free(rng.randint(0, 1))
                                   for _ in range(rng.randint(0, 2))]
            rng.shuffle(ch)
            return ["Product", ch]
        if kind == "denominator":
            num = aff() if rng.random() < 0.5 else self.free(1)
            return ["Quotient", num, aff()]
        if kind == "power-base":
            return ["Power", aff(), _ci(rng.choice((2, 2, 3, -1, -2)))]
        base = _ci(rng.choice((2, 3, 5)))
        if self.n and not self.none_mode and rng.random() < 0.4:
            base = _var(rng.choice(self.n))
        return ["Power", base, aff()]

    def nonaffine(self, d):
        rng = self.rng
        r = rng.random()
        if d <= 0 or r < 0.35:
            return self.violation(d)
        if r < 0.62:
            k = rng.randint(2, 3)
            pos = rng.randrange(k)
            return ["Sum", [self.nonaffine(d - 1) if i == pos else (
                self.affine(d - 1) if rng.random() < 0.5 else self.free(min(d - 1, 1)))
                for i in range(k)]]
        if r < 0.9:
            k = rng.randint(2, 3)
            pos = rng.randrange(k)
            return ["Product", [self.nonaffine(d - 1) if i == pos
                                else self.free(rng.randint(0, 1)) for i in range(k)]]
        return ["Quotient", self.nonaffine(d - 1), self.free_den(0)]


def collect_case(rng):
    none_mode = rng.random() < 0.3
    composites = rng.random() < (0.5 if none_mode else 0.2)
    if none_mode:
        tvars, fvars = list(VARS), []
    else:
        k = rng.choice((1, 1, 2, 2, 3))
        tvars = rng.sample(VARS, k)
        fvars = [v for v in VARS if v not in tvars]
    g = _ExprGen(rng, tvars, fvars, none_mode, composites, floats=rng.random() < 0.3,
                 npints=rng.random() < 0.25)
    g.plant = None
    d = rng.choice((1, 2, 2, 3, 3, 4))
    if rng.random() < 0.3:
        ex = g.nonaffine(min(d, 3))
    else:
        ex = g.affine(d, force=rng.random() < 0.9)
    spec = {"expr": ex, "targets": None, "container": "list"}
    if g.plant:
        spec["plant"] = g.plant
    if none_mode:
        return spec
    r = rng.random()
    names = list(tvars)
    if r < 0.6:
        pass
    elif r < 0.75:
        names += rng.sample(EXTRA_NAMES, rng.randint(1, 2))
    elif r < 0.9:
        names = rng.sample(VARS, rng.randint(0, 4))
    else:
        names += rng.sample(fvars, min(len(fvars), rng.randint(1, 2)))
    rng.shuffle(names)
    spec["targets"] = names
    spec["container"] = rng.choice(("list", "list", "tuple", "set", "frozenset"))
    return spec


# systems ------------------------------------------------------------------

UNKNOWN_NAMES = ("x", "y", "z", "w", "t")
PARAM_ATOMS = (
    _var("a"), _var("b"), _var("n"), _var("c"),
    ["Subscript", _var("p"), _ci(1)],
    ["Subscript", _var("p"), _var("i")],
    ["Call", _var("f"), [_var("a")]],
    ["Lookup", _var("o"), "fld"],
)


def _unimodular(rng, n):
    while True:
        a = [[int(i == j) for j in range(n)] for i in range(n)]
        for _ in range(rng.randint(0, 2 * n + 1)):
            op = rng.random()
            i = rng.randrange(n)
            j = rng.randrange(n)
            if op < 0.5 and i != j:
                k = rng.choice((-2, -1, 1, 2, 3))
                a[i] = [u + k * v for u, v in zip(a[i], a[j])]
            elif op < 0.7 and i != j:
                k = rng.choice((-2, -1, 1, 2))
                for row in a:
                    row[i] += k * row[j]
            elif op < 0.85:
                a[i], a[j] = a[j], a[i]
            else:
                a[i] = [-u for u in a[i]]
        if max(abs(v) for row in a for v in row) <= 40:
            return a


def _term(rng, c, atom):
    """Spec of c*atom (atom None: the constant c) in one of several spellings."""
    if atom is None:
        if rng.random() < 0.1 and c % 2 == 0 and c:
            return ["Product", [_ci(2), _ci(c // 2)]]
        return _ci(c)
    r = rng.random()
    if c == 1 and r < 0.8:
        return atom
    if c == 2 and r < 0.15:
        return ["Sum", [atom, atom]]
    if r < 0.55:
        return ["Product", [_ci(c), atom]]
    if r < 0.8:
        return ["Product", [atom, _ci(c)]]
    for f in (2, 3, -1):
        if c % f == 0 and c not in (0, f):
            inner = ["Product", [_ci(c // f), atom]] if rng.random() < 0.5 else \
                ["Product", [atom, _ci(c // f)]]
            return ["Product", [_ci(f), inner] if rng.random() < 0.5 else [inner, _ci(f)]]
    return ["Product", [_ci(c), atom]]


def _is_const_term(t):
    return t[0] == "Const" or (t[0] == "Product" and all(c[0] == "Const" for c in t[1]))


def _side(rng, terms):
    if not terms:
        return _ci(0)
    rng.shuffle(terms)
    if len(terms) == 1:
        return terms[0] if rng.random() < 0.9 else ["Sum", terms]
    if len(terms) >= 3 and rng.random() < 0.25:
        k = rng.randint(1, len(terms) - 1)
        return ["Sum", [["Sum", terms[:k]] if k > 1 else terms[0], *terms[k:]]]
    return ["Sum", terms]


def _equation(rng, coeffs, atoms, two_sided):
    """coeffs[i] belongs to atoms[i] (None = constant); the equation says
    sum(coeffs*atoms) = 0, distributed over both sides."""
    lhs, rhs = [], []
    for c, atom in zip(coeffs, atoms):
        if c == 0 and rng.random() < 0.85:
            continue
        parts = [c]
        if two_sided and rng.random() < 0.5:
            d = rng.choice((-3, -2, -1, 1, 2, 3))
            parts = [c + d, -d]          # c = (c+d) on one side, d moved across
            sides = [lhs, rhs] if rng.random() < 0.5 else [rhs, lhs]
            for part, side in zip(parts, sides):
                cc = part if side is lhs else -part
                if cc != 0 or rng.random() < 0.3:
                    side.append(_term(rng, cc, atom))
            continue
        side = lhs if rng.random() < (0.75 if atom is not None else 0.3) else rhs
        side.append(_term(rng, c if side is lhs else -c, atom))
    if not two_sided and (not lhs or not rhs):
        # an empty side is written as the constant 0: keep the constant term
        # of the equation on that side so that no key occurs on both sides
        full, empty = (lhs, rhs) if lhs else (rhs, lhs)
        full[:] = [t for t in full if not _is_const_term(t)]
        c0 = coeffs[-1] if empty is lhs else -coeffs[-1]
        if c0 != 0:
            empty.append(_term(rng, c0, None))
    le, re = _side(rng, lhs), _side(rng, rhs)
    if rng.random() < 0.12:
        # both sides times a common constant: k*(sum) / (sum)*k
        f = rng.choice((-1, 2, -2, 3))
        le = ["Product", [_ci(f), le]] if rng.random() < 0.5 else ["Product", [le, _ci(f)]]
        re = ["Product", [_ci(f), re]] if rng.random() < 0.5 else ["Product", [re, _ci(f)]]
    if rng.random() < 0.1:
        le, re = re, le
    return [le, re]


def system_case(rng):
    n = rng.choice((1, 2, 2, 2, 3, 3, 4))
    unknowns = rng.sample(UNKNOWN_NAMES, n)
    k = rng.choice((0, 1, 1, 1, 2, 2, 3))
    params = rng.sample(range(len(PARAM_ATOMS)), k)
    patoms = [PARAM_ATOMS[i] for i in params]
    a = _unimodular(rng, n)
    s = [[rng.randint(-4, 4) for _ in range(k + 1)] for _ in range(n)]

    def times(amat, smat):
        return [[sum(amat[i][l] * smat[l][j] for l in range(len(smat)))
                 for j in range(len(smat[0]))] for i in range(len(amat))]

    b = times(a, s)
    variant = rng.choice((
        "regular", "regular", "regular", "regular", "scaled-row", "scaled-row",
        "nonintegral", "nonintegral", "perturbed", "singular", "singular",
        "under-dropped-row", "under-extra-unknown", "unused-unknown",
        "over-consistent", "over-consistent", "over-inconsistent", "over-inconsistent"))
    if variant == "scaled-row":
        for _ in range(rng.randint(1, n)):
            i = rng.randrange(n)
            f = rng.choice((2, 3, -2, 4, 6))
            a[i] = [f * v for v in a[i]]
            b[i] = [f * v for v in b[i]]
    elif variant == "nonintegral":
        j = rng.randrange(n)
        f = rng.choice((2, 3, -2, 5))
        s[j][rng.randrange(k + 1)] = rng.choice((1, -1, f + 1))
        b = times(a, s)
        for row in a:
            row[j] *= f
    elif variant == "perturbed":
        i, j = rng.randrange(n), rng.randrange(n)
        a[i][j] += rng.choice((-2, -1, 1, 2))
        if rng.random() < 0.5:
            b[i][rng.randrange(k + 1)] += rng.choice((-1, 1))
    elif variant == "singular":
        i = rng.randrange(n)
        others = [r for r in range(n) if r != i]
        w = {r: rng.choice((-2, -1, 0, 1, 1, 2)) for r in others}
        a[i] = [sum(w[r] * a[r][c] for r in others) for c in range(n)]
        b[i] = [sum(w[r] * b[r][c] for r in others) for c in range(k + 1)]
        if rng.random() < 0.5:
            b[i][rng.randrange(k + 1)] += rng.choice((-1, 1, 2))
    elif variant == "under-dropped-row":
        i = rng.randrange(n)
        del a[i], b[i]
    elif variant in ("under-extra-unknown", "unused-unknown"):
        extra = next(u for u in UNKNOWN_NAMES + ("r",) if u not in unknowns)
        unknowns.append(extra)
        for row in a:
            row.append(rng.randint(-2, 2) if variant == "under-extra-unknown" else 0)
    elif variant in ("over-consistent", "over-inconsistent"):
        for _ in range(rng.randint(1, 2)):
            w = [rng.choice((-2, -1, 0, 1, 1, 2)) for _ in range(n)]
            a.append([sum(w[r] * a[r][c] for r in range(n)) for c in range(n)])
            b.append([sum(w[r] * b[r][c] for r in range(n)) for c in range(k + 1)])
        if variant == "over-inconsistent":
            i = rng.randrange(len(a))
            b[i][rng.randrange(k + 1)] += rng.choice((-2, -1, 1, 3))
    order = list(range(len(a)))
    rng.shuffle(order)
    two_sided = rng.random() < 0.3
    atoms = [_var(u) for u in unknowns] + patoms + [None]
    eqs = []
    for i in order:
        coeffs = list(a[i]) + [-v for v in b[i]]
        eqs.append(_equation(rng, coeffs, atoms, two_sided))
    ulist = list(unknowns)
    rng.shuffle(ulist)
    return {"unknowns": ulist, "equations": eqs, "variant": variant}


def gauss_case(rng):
    m = rng.randint(1, 4)
    n = rng.randint(1, 4)
    q = rng.randint(1, 3)
    r = rng.random()
    if r < 0.4 and m == n:
        a = _unimodular(rng, n)
        if rng.random() < 0.5:
            i = rng.randrange(n)
            f = rng.choice((2, 3, -2))
            a[i] = [f * v for v in a[i]]
    else:
        dens = rng.choice((0.4, 0.7, 1.0))
        a = [[rng.randint(-4, 4) if rng.random() < dens else 0 for _ in range(n)]
             for _ in range(m)]
        if m >= 2 and rng.random() < 0.3:
            a[rng.randrange(m)] = [2 * v for v in a[rng.randrange(m)]]
    b = [[rng.randint(-6, 6) if rng.random() < 0.8 else 0 for _ in range(q)]
         for _ in range(m)]
    return {"mat": a, "rhs": b}

# }}}


def generate(ctx):
    rnd = st.randoms(use_true_random=True)
    ctx.run_given(rnd, lambda rng: ctx.judge("collect", collect_case(rng)),
                  ctx.n(36000, 1440000))
    ctx.run_given(rnd, lambda rng: ctx.judge("solve", system_case(rng)),
                  ctx.n(20000, 800000))
    ctx.run_given(rnd, lambda rng: ctx.judge("gauss", gauss_case(rng)),
                  ctx.n(8000, 320000))


MANIFEST = {
    "text": ("Generated-input search against an exact normal form: trees affine in a "
             "chosen target set by construction (target-bearing factor at every "
             "position, quotients by target-free terms, subscripted leaves, target "
             "sets None/subsets/supersets) and counterparts with one planted, exactly "
             "certified non-affinity go through CoefficientCollector; small integer "
             "affine systems (unimodular, permuted, terms on both sides, with "
             "parameters; singular, inconsistent, under-/over-determined and "
             "non-integral variants) go through solve_affine_equations_for and are "
             "judged by substitution and by an exact Fraction classification of the "
             "system; gaussian_elimination is checked for row equivalence and reduced "
             "primitive rows. Exploration, not proof."),
    "note": ("Trusted: pbt/polynf.py, the Fraction row reduction and the syntactic "
             "affinity rule in pbt/props/c15.py. The solver is not required to accept "
             "every well-posed system. Open findings F18a-F18d are excluded by "
             "predicate (two-sided equations; rank-deficient and inconsistent systems "
             "that are accepted; composite leaves under explicit target names)."),
    "technique": "property-based testing (Hypothesis-seeded generators) vs exact rational-function normal form and exact linear algebra",
    "design_ref": "DESIGN.md section 4, C15",
}
