"""C07 - the parser reads the syntax it shares with Python the way Python does.

Oracle: CPython itself.  For a source string s of the shared grammar
  (1) for every environment of a box, refsem(parse(s)) == eval(s) (same value,
      or an exception of the same class),
  (2) the Python-AST importer applied to ast.parse(s) gives a tree with the
      same values and, after normalisation (flattening, folding -1*number),
      the same structure as parse(s),
  (3) strings that Python rejects after damage must raise the parser's
      ParseError (whole input consumed or error).
Sub-checks: skeleton (exhaustive parenthesis-free operator skeletons),
string (random mini-ASTs rendered with Python's precedence), negative.
"""
from __future__ import annotations

import ast
import itertools

from hypothesis import strategies as st

import pymbolic.primitives as p
from pymbolic import parse
from pymbolic.interop.ast import ASTToPymbolic
from pytools.lex import ParseError

from pbt import envs, pysyntax as PS, walk
from pbt.refsem import RefSkip, describe, exc_site, ref_eval, values_close
from pbt.runner import Result
from pbt.spec import HarnessError

PROP = "C07"
LEVEL = "exploration"
RULE = ("Source strings of the grammar shared with Python: exhaustively every "
        "parenthesis-free skeleton with two operators (and, per tier, three) over the 12 "
        "binary operators, comparisons, and/or, unary - ~ not, conditional expressions, "
        "plus call/subscript/attribute/tuple forms; random mini-ASTs rendered with "
        "Python's precedence table and random redundant parentheses/whitespace; damaged "
        "strings. Each string is evaluated by CPython and, through parse(), by the "
        "reference interpreter over a box of integer environments. Non-trivial = >=2 "
        "operators of different precedence classes not separated by parentheses; distinct "
        "by the source string.")
ASSUMPTIONS = [
    "CPython's compile()/eval() define the meaning of the shared syntax",
    "the parsed tree is evaluated by pbt/refsem.py; in the skeleton tier and/or return the deciding operand (Python's convention) so that parse structure is compared on arbitrary operands; in the random tier and/or get boolean-valued operands and pymbolic's bool-returning convention is used",
    "values with a float/complex part are compared to 1e-9",
    "Python-only spellings (hex/underscore literals, @, is, in, lambda) and pymbolic-only spellings are not generated; imaginary literals are not generated",
]
HEALTH = {"has-unary": 0.05, "has-ifexp": 0.02, "has-call": 0.01, "lex:respelled": 0.1,
          "lex:odd-whitespace": 0.05, "lex:odd-number": 0.01}

FUNCS = {"f1": envs.f1, "f2": envs.f2, "g": envs.g, "h": envs.h}
A_TUPLE = (3, -1, 4, 1)
D_DICT = {(i, j): 10 * i + j for i in range(3) for j in range(3)}
O_OBJ = envs.Obj({"a": 5, "b": -2})

BOX_VALUES = (-3, 1, 2)


def box(names, extra_zero=True):
    names = sorted(names)
    out = []
    for combo in itertools.product(BOX_VALUES, repeat=len(names)):
        out.append(dict(zip(names, combo)))
    if extra_zero:
        for i in range(len(names)):
            e = dict(zip(names, (2, -3, 1, 2, -3, 1)[:len(names)]))
            e[names[i]] = 0
            out.append(e)
    if len(out) > 300:
        out = out[::len(out) // 300 + 1]
    # floating-point values on which + and * are visibly not associative: the grouping
    # the parser assigns shows in the value ((a + b) + c = 1.0, a + (b + c) = 0.0 ...)
    for vals in FLOAT_ENVS:
        if len(names) >= 2:
            for rot in range(min(len(names), 3)):
                out.append({n: vals[(i + rot) % len(vals)] for i, n in enumerate(names)})
    return out


FLOAT_ENVS = ((1e16, -1e16, 1.0, 3.0, 0.5), (1e200, 1e200, 1e-200, -1e200, 2.0))


EXTRA_NAMES = {"not_ready": 5, "or_mask": 6, "if_": 7, "else_0": 9, "True_": 11,
               "False_positive": 13, "and_": 3, "notx": 4, "in_": 2, "is_": 8}


def full_env(e):
    env = dict(EXTRA_NAMES)
    env.update(e)
    env.update(FUNCS)
    env.update({"A": A_TUPLE, "D": D_DICT, "O": O_OBJ})
    return env


# {{{ normalisation for structural comparison of parser vs importer

def norm(e):
    if isinstance(e, (p.Sum, p.Product)):
        e = walk.flatten(e)
        kids = [norm(c) for c in e.children]
        if isinstance(e, p.Product) and kids and all(
                not isinstance(c, (p.Expression, tuple)) for c in kids):
            r = 1
            for c in kids:
                r = r * c
            return r
        out = []
        for c in kids:  # flatten again: normalisation may expose nesting
            if type(c) is type(e):
                out.extend(c.children)
            else:
                out.append(c)
        return type(e)(tuple(out))
    if isinstance(e, p.Expression) or isinstance(e, (tuple, list)):
        return walk.rebuild(e, norm)
    return e

# }}}


UNSUPPORTED_BY_IMPORTER = {"BoolOp", "UAdd", "Slice", "List", "multi-op Compare"}


def _ast_kinds(tree):
    kinds = set()
    for n in ast.walk(tree):
        if isinstance(n, ast.BoolOp):
            kinds.add("BoolOp")
        if isinstance(n, ast.UnaryOp) and isinstance(n.op, ast.UAdd):
            kinds.add("UAdd")
        if isinstance(n, ast.Compare) and len(n.ops) > 1:
            kinds.add("multi-op Compare")
        if isinstance(n, ast.Slice):
            kinds.add("Slice")
        if isinstance(n, ast.List):
            kinds.add("List")
    return kinds


def check_source(res, s, names, py_logic, check_importer=True):
    try:
        code = compile(s, "<case>", "eval")
        pyast = ast.parse(s, mode="eval").body
    except SyntaxError:
        return res.skip("python-rejects")
    except (ValueError, MemoryError, RecursionError):
        return res.skip("python-rejects")
    # the same characters without any blanks are another string ('not e' / 'note',
    # 'x or y' / 'xory'): parsing it first must not influence what this one means
    glued = "".join(s.split())
    if glued != s:
        res.label("glued-twin-parsed-first")
        try:
            parse(glued)
        except RecursionError:
            raise
        except Exception:
            pass
    try:
        tree = parse(s)
    except ParseError as exc:
        return res.fail("parser-rejects-valid-python", f"{s!r}: ParseError: {exc}")
    except Exception as exc:
        return res.fail("parser-crashes:" + exc_site(exc),
                        f"{s!r}: {type(exc).__name__}: {exc}")
    imp = None
    if check_importer:
        kinds = _ast_kinds(pyast)
        try:
            imp = ASTToPymbolic()(pyast)
        except NotImplementedError:
            if kinds & UNSUPPORTED_BY_IMPORTER:
                for k in kinds & UNSUPPORTED_BY_IMPORTER:
                    res.label("importer-unsupported:" + k)
            else:
                res.fail("importer-refuses-supported-syntax",
                         f"{s!r}: ASTToPymbolic raised NotImplementedError")
        except Exception as exc:
            if "multi-op Compare" in kinds:
                res.label("importer-unsupported:multi-op Compare")
            else:
                res.fail("importer-crashes:" + exc_site(exc),
                         f"{s!r}: {type(exc).__name__}: {exc}")
    value_fail = False
    for e in box(names):
        env = full_env(e)
        try:
            pv = ("val", eval(code, {"__builtins__": {}}, dict(env)))
        except RecursionError:
            raise
        except Exception as exc:
            pv = ("err", type(exc).__name__)
        if pv[0] == "val" and isinstance(pv[1], int) and not isinstance(pv[1], bool) \
                and pv[1].bit_length() > 20000:
            continue
        for what, t in (("parse", tree), ("importer", imp)):
            if t is None:
                continue
            try:
                ref = ref_eval(t, env, py_logic=py_logic)
            except RefSkip:
                continue
            res.compared()
            if pv[0] == "val" and ref[0] == "val":
                if not values_close(ref[1], pv[1]):
                    res.fail(f"{what}-value-differs-from-python",
                             f"{s!r} at {e}: Python {describe(pv[1])}, "
                             f"{what} tree {t!r} gives {describe(ref[1])}")
                    value_fail = True
            elif pv[0] == "err" and ref[0] == "err":
                if pv[1] not in {n for n, _ in ref[1]}:
                    res.fail(f"{what}-error-differs-from-python",
                             f"{s!r} at {e}: Python raises {pv[1]}, {what} tree {t!r} "
                             f"raises {sorted(n for n, _ in ref[1])}")
                    value_fail = True
            else:
                res.fail(f"{what}-value-differs-from-python",
                         f"{s!r} at {e}: Python {pv}, {what} tree {t!r} gives "
                         f"{ref[0]}:{describe(ref[1]) if ref[0] == 'val' else sorted(n for n, _ in ref[1])}")
                value_fail = True
        if value_fail:
            break
    if imp is not None and not value_fail:
        res.compared()
        if walk.key(norm(tree), strict=False) != walk.key(norm(imp), strict=False):
            res.fail("importer-structure-differs",
                     f"{s!r}: parse {tree!r} vs importer {imp!r}")
    return res


def _classify_string(res, s):
    if any(u in s for u in ("-", "~", "not ")):
        res.label("has-unary")
    if " if " in s:
        res.label("has-ifexp")
    if "(" in s and any(f + "(" in s for f in FUNCS):
        res.label("has-call")
    if "[" in s:
        res.label("has-subscript")
    if "=" in s.replace("==", "").replace("!=", "").replace("<=", "").replace(">=", ""):
        res.label("has-kwarg")


def check_skeleton(spec):
    res = Result()
    s = spec["s"]
    names = [n for n in "abcde" if n in _idents(s)]
    check_source(res, s, names, py_logic=True)
    _classify_string(res, s)
    res.nontrivial = True
    res.sample = s
    return res


def _idents(s):
    import re
    return set(re.findall(r"[A-Za-z_][A-Za-z_0-9]*", s))


def check_string(spec):
    res = Result()
    try:
        s = PS.render(spec["tree"], spec.get("ws", ""))
    except (IndexError, TypeError, KeyError) as exc:
        raise HarnessError(f"malformed syntax tree: {exc}") from None
    names = sorted(PS.names(spec["tree"]) & set("abcde"))
    check_source(res, s, names, py_logic=False)
    _classify_string(res, s)
    classes = {PS.prec_class(o) for o in PS.ops(spec["tree"])}
    res.nontrivial = len(classes) >= 2
    res.sample = s
    return res


# {{{ lexical variation: the same token sequence, other spellings

SEPS = ("", " ", "  ", "\t", " \t ", "\n")
NUM_SPELLINGS = {
    "2.5": ("2.5", "2.50", "2.5e0", "25e-1", "0.25e1", "2.5E0", ".25e1", "25.E-1"),
    "0.5": ("0.5", ".5", "0.50", "5e-1", "5E-1", "5.e-1", ".5e0", "0.5e+0"),
    "1e1": ("1e1", "1E1", "1e+1", "1.e1", "1.0e1", "10.", "10.0", "1e01"),
    "1.5e-1": ("1.5e-1", "1.5E-1", "0.15", ".15", "15e-2", "15.e-2"),
    "10": ("10", "10"), "7": ("7", "7"), "3": ("3", "3"),
}


def _py_tokens(s):
    import io
    import tokenize
    out = []
    for tok in tokenize.generate_tokens(io.StringIO(s).readline):
        if tok.type in (tokenize.NEWLINE, tokenize.NL, tokenize.ENDMARKER,
                        tokenize.INDENT, tokenize.DEDENT, tokenize.COMMENT):
            continue
        out.append(tok.string)
    return out


def respell(s0, choices):
    """The token sequence of *s0* joined with other separators and with numeric
    literals respelled (same value); None if the result does not tokenize back to
    the same tokens.  *choices* is a list of ints consumed cyclically."""
    try:
        toks = _py_tokens(s0)
    except Exception:
        return None
    if not toks or not choices:
        return None
    k = 0

    def nxt():
        nonlocal k
        c = choices[k % len(choices)]
        k += 1
        return c
    out, depth, want = [], 0, []
    for i, t in enumerate(toks):
        sp = NUM_SPELLINGS.get(t)
        if sp:
            t = sp[nxt() % len(sp)]
        want.append(t)
        if i:
            sep = SEPS[nxt() % len(SEPS)]
            if sep == "\n" and depth == 0:
                sep = " "           # a bare newline ends a Python expression
            out.append(sep)
        out.append(t)
        if t in "([":
            depth += 1
        elif t in ")]":
            depth -= 1
    s = "".join(out)
    try:
        if _py_tokens(s) != want:
            return None             # e.g. 'a' 'if' glued to 'aif', '1' '.' 'real'
    except Exception:
        return None
    return s


def check_lex(spec):
    res = Result()
    try:
        s0 = PS.render(spec["tree"], "")
    except (IndexError, TypeError, KeyError) as exc:
        raise HarnessError(f"malformed syntax tree: {exc}") from None
    ch = spec.get("lex")
    if not isinstance(ch, list) or not all(
            isinstance(c, int) and not isinstance(c, bool) for c in ch):
        raise HarnessError("lex must be a list of ints")
    s = respell(s0, ch)
    if s is None:
        return res.skip("respelling-changes-the-token-sequence")
    import warnings
    with warnings.catch_warnings():
        warnings.simplefilter("error", SyntaxWarning)
        try:
            compile(s, "<case>", "eval")
        except (SyntaxWarning, SyntaxError):
            # '1if a else b', '1and d': accepted with a deprecation warning (which
            # compile() turns into a SyntaxError under this filter); not shared syntax
            return res.skip("python-warns-or-rejects")
        except Exception:
            pass
    names = sorted(PS.names(spec["tree"]) & set("abcde"))
    check_source(res, s, names, py_logic=False)
    _classify_string(res, s)
    if s != s0:
        res.label("lex:respelled")
    if any(w in s for w in ("\t", "\n", "  ")):
        res.label("lex:odd-whitespace")
    if any(c in s for c in ("E", "e+", "e0")) or ".e" in s or s.startswith("."):
        res.label("lex:odd-number")
    res.nontrivial = s != s0 and len(PS.ops(spec["tree"])) >= 1
    res.sample = s
    return res

# }}}


DAMAGES = ("append-name", "append-num", "append-close", "drop-last-close",
           "double-op", "trailing-op", "append-open")


def damage(s, how):
    if how == "append-name":
        return s + " a"
    if how == "append-num":
        return s + " 1"
    if how == "append-close":
        return s + ")"
    if how == "append-open":
        return s + "("
    if how == "trailing-op":
        return s + " *"
    if how == "drop-last-close":
        i = max(s.rfind(")"), s.rfind("]"))
        return s[:i] + s[i + 1:] if i >= 0 else None
    if how == "double-op":
        for op in (" * ", " + ", " / ", "*", "+"):
            i = s.find(op)
            if i >= 0:
                return s[:i] + op + "/" + s[i + len(op):]
        return None
    raise HarnessError(how)


def check_negative(spec):
    res = Result()
    try:
        s0 = PS.render(spec["tree"], spec.get("ws", " "))
    except (IndexError, TypeError, KeyError) as exc:
        raise HarnessError(f"malformed syntax tree: {exc}") from None
    s = damage(s0, spec["damage"])
    if s is None:
        return res.skip("damage-not-applicable")
    try:
        compile(s, "<case>", "eval")
        return res.skip("python-accepts-damaged-string")
    except SyntaxError:
        pass
    except Exception:
        return res.skip("python-rejects-otherwise")
    res.compared()
    res.label("damage:" + spec["damage"])
    try:
        t = parse(s)
    except ParseError:
        res.nontrivial = True
        res.sample = s
        return res
    except Exception as exc:
        return res.fail("damaged-input-raises-other-than-ParseError:" + exc_site(exc),
                        f"{s!r}: {type(exc).__name__}: {exc}")
    # pymbolic has syntax of its own (wildcards, slices); it may legitimately
    # accept some strings Python rejects.  What it may not do is stop early.
    if spec["damage"] in ("append-name", "append-num", "append-close",
                          "drop-last-close", "append-open"):
        res.fail("damaged-input-accepted",
                 f"{s!r} (Python: SyntaxError) parsed to {t!r}")
    res.sample = s
    return res


def _source_of(sub, spec):
    if sub == "skeleton":
        return spec["s"]
    try:
        return PS.render(spec["tree"], spec.get("ws", ""))
    except Exception:
        return None


def _known_chained_comparison(sub, spec, fail):
    """F11: Python chains a < b < c (a < b and b < c); the parser reads (a < b) < c."""
    if sub == "negative" or not fail.kind.startswith("parse-"):
        return False
    s = _source_of(sub, spec)
    try:
        tree = ast.parse(s, mode="eval")
    except Exception:
        return False
    return any(isinstance(n, ast.Compare) and len(n.ops) > 1 for n in ast.walk(tree))


KNOWN = {"F11": _known_chained_comparison}

INVALID = ["g(k=a, b)", "g(a, k=b, c)", "h(p=a, q=b, c)", "f1(a,,b)", "f1(,a)", "a +",
           "(a", "a)", "a b", "a + * b", "a[", "a]", "f1(a", "a if b", "a if b else",
           "a..b", "a + b c", "a (", "a + (b", "a + b)", "[a", "a * * b" if False else "a / / b",
           "f2(a b)", "A[1 2]", "a if b else c d", "not", "-", "a and", "or a",
           "a < ", "< a", "a == == b", "g(k=)", "g(=a)", "a, , b", "(a,,)", "a.(b)"]


def check_invalid(spec):
    """Fixed strings Python rejects: the parser must raise ParseError."""
    res = Result()
    s = spec["s"]
    try:
        compile(s, "<case>", "eval")
        return res.skip("python-accepts")
    except SyntaxError:
        pass
    res.compared()
    try:
        t = parse(s)
    except ParseError:
        res.nontrivial = True
        res.sample = s
        return res
    except Exception as exc:
        return res.fail("invalid-input-raises-other-than-ParseError:" + exc_site(exc),
                        f"{s!r}: {type(exc).__name__}: {exc}")
    if spec.get("must_reject", True):
        res.fail("invalid-input-accepted", f"{s!r} (Python: SyntaxError) parsed to {t!r}")
    return res


CHECKS = {"skeleton": check_skeleton, "string": check_string, "lex": check_lex,
          "negative": check_negative, "invalid": check_invalid}
SHRINK = {"is_node": PS.is_node, "is_atom": lambda v: v[0] in ("name", "num"),
          "leaves": (["name", "a"], ["num", "1"], ["name", "b"])}

# {{{ exhaustive skeletons

OPS2 = list(PS.BINOPS) + ["<", "=="] + ["and", "or"]
UN = ("-", "~", "not ")


def pair_skeletons():
    for o1, o2 in itertools.product(OPS2, repeat=2):
        yield f"a {o1} b {o2} c"
        for pos in range(3):
            for u in UN:
                at = ["a", "b", "c"]
                at[pos] = u + at[pos]
                yield f"{at[0]} {o1} {at[1]} {o2} {at[2]}"


def triple_skeletons(with_unary):
    for o1, o2, o3 in itertools.product(OPS2, repeat=3):
        yield f"a {o1} b {o2} c {o3} d"
        if with_unary:
            for pos in range(4):
                for u in UN:
                    at = ["a", "b", "c", "d"]
                    at[pos] = u + at[pos]
                    yield f"{at[0]} {o1} {at[1]} {o2} {at[2]} {o3} {at[3]}"


def special_skeletons():
    out = ["a+(b+c)", "a*(b*c)", "a+(b-c)", "a-(b+c)", "a-(b-c)", "a*(b*c)*d", "a+(b+c)+d",
           "(a+b)+c", "(a*b)*c", "a+(b+(c+d))", "a*(b*(c*d))", "a*(b/c)", "a/(b*c)",
           "a+(b+c)*d", "f1(a+(b+c))", "A[0]+(a+(b+c))", "(a+b)+(c+d)", "(a*b)*(c*d)",
           "-a**b", "a**-b", "~a**b", "-a**-b**c", "not a**b", "- -a", "-~a", "~-a",
           "not not a", "not -a", "+a", "+a**b", "-a*b", "-a+b", "~a+b", "~a*b", "a*-b",
           "a**b**c", "a-b-c", "a/b/c", "a//b//c", "a%b%c", "a<<b<<c", "a>>b>>c",
           "a-b+c", "a/b*c", "a*b/c", "a*b//c", "a*b%c", "a//b*c", "a%b*c",
           "f1(a)**b", "-f1(a)", "f1(-a)", "A[a%4]**2", "O.a**2", "-O.a", "O.a.real",
           "f2(a, b)*c", "g(a, k=b)+c", "g(a, k=b if c else d)", "g(a, j=b, k=c)",
           "f2(a if b else c, d)", "h(a, b, c)", "h()", "f1(a)+f1(b)*f1(c)",
           "(a, b)", "a, b", "a, b, c", "(a,)", "a,", "a if b else c, d",
           "(a if b else c, d)", "a, b if c else d", "D[a%3, 1]", "D[1, a%3]+b",
           "A[1]+A[2]*A[3]", "A[a%4]", "A[-1]", "(a+b)*c", "a*(b+c)", "(a)", "((a))",
           "a if b else c if d else e", "(a if b else c) if d else e",
           "a if (b if c else d) else e", "a if b else (c if d else e)",
           "not a if b else c", "a if not b else c", "a if b else not c",
           "a and b or c", "a or b and c", "not a and b", "not a or b",
           "a and not b", "a < b and b < c", "a < b or not c", "not a < b",
           "not a == b", "a == b == c", "a < b < c", "a < b == c", "a != b",
           "a <= b", "a >= b", "a > b", "a == (b < c)", "(a < b) == c",
           "a | b ^ c", "a ^ b | c", "a ^ b & c", "a & b | c", "a | b & c",
           "a & b == c", "a == b & c", "a | b < c", "a ^ b != c", "a << b + c",
           "a + b << c", "a << b & c", "a & b << c", "~a & b", "~a | ~b",
           "True", "False", "True + a", "not True", "Truex" if False else "a + True",
           "1.5 * a", "a * 2.5", "1e2 + a", "a + 1.5e-1", ".5 * a", "5. * a", "a ** 2.0",
           "10 // a", "10 % a", "2 ** a", "1 << a", "007" if False else "7 * a",
           "a   +   b", " a+b ", "a\t*\tb", "(a +\n b)",
           "((a, b),)", "(a, b),", "((),)", "((a, b), c)", "(a, b), c", "(a, (b, c))",
           "((a, b), (c, d))", "f2((a, b), c)", "h((a, b),)", "((a,),)", "(a,), b",
           "D[(a%3, 1)]", "((a, b),)[0]", "((a, b), c)[0]",
           "not_ready + 1", "a * not_ready", "or_mask | a", "if_ + 1", "else_0 * 2",
           "True_ + 1", "False_positive - a", "and_ + a", "a if if_ else b", "notx + 1",
           "a and and_", "not not_ready", "in_ + is_ * a", "a if else_0 else or_mask"]
    for op in OPS2:
        out += [f"a {op} b if c else d", f"a if b {op} c else d",
                f"a if b else c {op} d", f"not a {op} b", f"a {op} not b",
                f"-a {op} -b", f"~a {op} ~b", f"f1(a) {op} A[b%4]", f"O.a {op} b"]
    return out

# }}}


# {{{ random mini-ASTs

NUMS = ("0", "1", "2", "3", "7", "10", "2.5", "0.5", "1e1", "1.5e-1", "True", "False")


@st.composite
def syn(draw, depth=4, kind="num"):
    d = draw

    def leaf(kind):
        if kind == "bool":
            c = d(st.integers(0, 3))
            if c == 0:
                return ["num", d(st.sampled_from(("True", "False")))]
            return ["cmp", d(st.sampled_from(PS.CMPOPS)),
                    ["name", d(st.sampled_from("abc"))],
                    d(st.sampled_from([["name", "d"], ["num", "1"], ["num", "0"]]))]
        if d(st.integers(0, 3)) == 0:
            return ["num", d(st.sampled_from(NUMS))]
        return ["name", d(st.sampled_from("abcd"))]

    def rec(depth, kind):
        if depth <= 0 or d(st.integers(0, 4 + depth)) == 0:
            return leaf(kind)
        sub = lambda k="num": rec(depth - 1, k)  # noqa: E731
        if d(st.integers(0, 7)) == 0:
            return ["paren", rec(depth - 1, kind)]
        if kind == "bool":
            c = d(st.integers(0, 9))
            if c <= 3:
                return ["cmp", d(st.sampled_from(PS.CMPOPS)), sub(), sub()]
            if c <= 5:
                return ["bool", d(st.sampled_from(("and", "or"))),
                        [sub("bool") for _ in range(d(st.integers(2, 3)))]]
            if c <= 7:
                return ["un", "not", sub(d(st.sampled_from(("bool", "num"))))]
            return ["ifexp", sub("bool"), sub("bool"), sub("bool")]
        c = d(st.integers(0, 29))
        if c <= 13:
            op = d(st.sampled_from(PS.BINOPS))
            if op == "**":
                return ["bin", "**", sub(), d(st.sampled_from([
                    ["num", "2"], ["num", "0"], ["num", "3"], ["un", "-", ["num", "1"]],
                    ["name", "e"], ["bin", "**", ["num", "2"], ["name", "e"]]]))]
            if op in ("<<", ">>"):
                return ["bin", op, sub(), d(st.sampled_from([
                    ["num", "1"], ["num", "3"], ["name", "e"],
                    ["bin", "+", ["name", "e"], ["num", "1"]]]))]
            return ["bin", op, sub(), sub()]
        if c <= 17:
            return ["un", d(st.sampled_from(("-", "-", "~", "+"))), sub()]
        if c <= 19:
            return ["ifexp", sub(), sub("bool"), sub()]
        if c == 20:
            return ["un", "not", sub(d(st.sampled_from(("bool", "num"))))]
        if c == 21:
            return sub("bool")
        if c <= 23:
            f = d(st.sampled_from(("f1", "f2", "g", "h")))
            lo, hi = envs.FUNC_ARITY[f]
            kws = []
            if f in ("g", "h") and d(st.booleans()):
                kws = [[k, sub()] for k in d(st.lists(st.sampled_from(
                    envs.FUNC_KW[f]), unique=True, min_size=1, max_size=2))]
            return ["call", ["name", f],
                    [sub() for _ in range(d(st.integers(lo, hi)))], kws]
        if c <= 25:
            if d(st.booleans()):
                return ["sub", ["name", "A"], [["bin", "%", sub(), ["num", "4"]]]]
            return ["sub", ["name", "D"], [["bin", "%", sub(), ["num", "3"]],
                                             ["num", d(st.sampled_from("012"))]]]
        if c == 26:
            return ["attr", ["name", "O"], d(st.sampled_from(("a", "b")))]
        if c == 27:
            return ["sub", ["tuple", [sub(), sub(), sub()]],
                    [["num", d(st.sampled_from("012"))]]]
        return ["bin", d(st.sampled_from(("+", "-", "*"))), sub(), sub()]
    return rec(depth, kind)


@st.composite
def string_case(draw):
    kind = draw(st.sampled_from(("num", "num", "num", "bool")))
    t = draw(syn(draw(st.integers(1, 5)), kind))
    if draw(st.integers(0, 9)) == 0:
        t = ["tuple", [t, draw(syn(2))]]
    return {"tree": t, "ws": draw(st.sampled_from(("", " ", "  ")))}


@st.composite
def lex_case(draw):
    kind = draw(st.sampled_from(("num", "num", "bool")))
    t = draw(syn(draw(st.integers(1, 4)), kind))
    if draw(st.booleans()):
        lit = ["num", draw(st.sampled_from(("2.5", "0.5", "1e1", "1.5e-1")))]
        op = draw(st.sampled_from(("+", "*", "-", "/", "**", "%")))
        t = ["bin", op, t, lit] if draw(st.booleans()) else ["bin", op, lit, t]
    return {"tree": t, "lex": draw(st.lists(st.integers(0, 23), min_size=3, max_size=12))}


@st.composite
def negative_case(draw):
    t = draw(syn(draw(st.integers(1, 3))))
    return {"tree": t, "ws": " ", "damage": draw(st.sampled_from(DAMAGES))}

# }}}


def generate(ctx):
    i = 0
    n = 0
    for s in itertools.chain(special_skeletons(), pair_skeletons()):
        if ctx.mine(i):
            ctx.judge("skeleton", {"s": s})
            n += 1
        i += 1
    ctx.exhaustive["two-operator skeletons (with <=1 unary prefix) + special forms"] = n
    for j, s in enumerate(INVALID):
        if ctx.mine(j):
            ctx.judge("invalid", {"s": s})
    if ctx.tier == "quick":
        stride = 5 + ctx.seed % 3   # a seed-dependent sample of the triples
        m = 0
        for j, s in enumerate(triple_skeletons(False)):
            if j % stride == 0 and ctx.mine(j // stride):
                ctx.judge("skeleton", {"s": s})
                m += 1
        ctx.extra["sampled three-operator skeletons"] += m
    else:
        m = 0
        for j, s in enumerate(triple_skeletons(True)):
            if ctx.mine(j):
                if ctx.over_budget():
                    break
                ctx.judge("skeleton", {"s": s})
                m += 1
        ctx.exhaustive["three-operator skeletons (with <=1 unary prefix)"] = m
    ctx.run_given(string_case(), lambda s: ctx.judge("string", s), ctx.n(10000, 200000))
    ctx.run_given(negative_case(), lambda s: ctx.judge("negative", s), ctx.n(2000, 30000))
    ctx.run_given(lex_case(), lambda s: ctx.judge("lex", s), ctx.n(4000, 80000))


MANIFEST = {
    "text": ("Differential testing of pymbolic.parse against CPython's own parser and "
             "evaluator: exhaustive enumeration of all two-operator (thorough: "
             "three-operator) parenthesis-free skeletons over every shared binary, unary, "
             "comparison, logical and conditional operator, special call/subscript/"
             "attribute/tuple forms, random rendered mini-ASTs, the same token sequences "
             "with other whitespace and literal spellings (certified by Python's tokenize), "
             "and damaged strings that must raise ParseError; the Python-AST importer is "
             "compared on the same strings by value and by normalised structure. Values are "
             "compared on integer boxes and on float environments where + and * are visibly "
             "non-associative; the blank-free spelling of each string is parsed first."),
    "note": ("Trusted: CPython compile/eval, pbt/refsem.py for the value of the parsed "
             "tree, pbt/pysyntax.py only for producing candidate strings (Python decides "
             "what they mean)."),
    "technique": "exhaustive skeleton enumeration + grammar-based differential fuzzing against CPython",
    "design_ref": "DESIGN.md section 4, C07",
}
