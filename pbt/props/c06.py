"""C06 - printing an expression and parsing the text gives the expression back.

For e in the printable fragment, e' = parse(str(e)) must exist and
  (1) flatten(e') == flatten(e)   (only Sum-in-Sum / Product-in-Product spliced),
  (2) refsem(e', env) == refsem(e, env) on a small box (values and errors),
  (3) str(e') == str(e).
Sub-checks: edge (every parent/position/child triple), nest3 (three-level
nestings over one representative per precedence class), tree (random).
"""
from __future__ import annotations

import itertools

from hypothesis import strategies as st

import pymbolic.primitives as p
from pymbolic import parse

from pbt import strategies as S, walk
from pbt.refsem import RefSkip, describe, exc_site, ref_eval, values_close
from pbt.runner import Result
from pbt.spec import twin_first, twin_how, build, subspecs

PROP = "C06"
LEVEL = "exploration"
RULE = ("Expressions of the printable fragment: exhaustively every (parent node type, "
        "child position, child node type) triple with atomic grandchildren, every "
        "three-level nesting over one representative per precedence class, and random "
        "deep trees (negative/float/bool/numpy constants, keyword calls, slices, tuple "
        "indices, odd identifiers). Each is printed, re-parsed and compared structurally "
        "(modulo Sum/Product flattening), by value on a box of environments, and by its "
        "second printed form. Non-trivial = some operator node has an operator child (a "
        "parenthesisation decision); distinct by sha1 of the case spec.")
ASSUMPTIONS = [
    "trees the text syntax cannot spell are not generated: 0/1-child Sum/Product and other n-ary nodes, 1-tuple/empty-tuple subscripts, complex/non-finite constants, CSE/Derivative/Substitution/Min/Max/NaN/wildcards",
    "structural comparison is pymbolic == after flattening, i.e. constants compare by value (4.0 == 4)",
    "interpretation: 'once nested sums and products are flattened' is applied to every associative n-ary operator (+ * | ^ & or and): the parser builds flat sums/products but left-nested binary | ^ & or and, so 'x & y & z' printed from a 3-operand node re-parses as (x & y) & z, which denotes the same operation",
    "the all-None slice spellings Slice(()), Slice((None, None)), Slice((None, None, None)) and one-part slices Slice((x,)) have no text form of their own (':' parses to Slice((None,))) and are not generated",
]
HEALTH = {"neg-const": 0.03, "kwcall": 0.01, "slice": 0.01}

V = lambda n: ["Var", n]  # noqa: E731
I = lambda v: ["Const", "int", v]  # noqa: E731
ENV = {"x": 3, "y": -2, "z": 5, "w": 2, "k": 1, "m": 0, "p": True, "q": False,
       "r": ["Frac", 1, 2], "s": ["Frac", -3, 4]}


def roundtrip(res, e, do_values=True):
    try:
        s = str(e)
    except Exception as exc:
        res.fail("str-raised:" + exc_site(exc), f"str({e!r}) raised {exc!r}")
        return
    try:
        e2 = parse(s)
    except Exception as exc:
        res.fail("reparse-raised:" + type(exc).__name__,
                 f"{e!r} printed as {s!r}; parse raised {type(exc).__name__}: {exc}")
        return
    res.compared()
    k1 = walk.key(walk.flatten_assoc(e), strict=False)
    k2 = walk.key(walk.flatten_assoc(e2), strict=False)
    if k1 != k2:
        d = walk.first_diff(walk.flatten_assoc(e), walk.flatten_assoc(e2))
        where = f"{d[0]}.{d[1]}:{d[2]}->{d[3]}" if d else "?"
        res.fail("tree-changed@" + where,
                 f"{e!r} printed as {s!r} re-parsed as {e2!r}")
    if k1 == k2:
        # == does not tell 4 from 4.0 or 1 from True, the text does: with the same number
        # of constants on both sides, their kinds (bool / int / float / complex) agree too
        c1, c2 = _const_kinds(e), _const_kinds(e2)
        if len(c1) == len(c2) and c1 != c2:
            res.fail("constant-kind-changed",
                     f"{e!r} printed as {s!r} re-parsed as {e2!r}: constants "
                     f"{[x for x in c1 if x not in c2][:3]} became "
                     f"{[x for x in c2 if x not in c1][:3]}")
    res.compared()
    try:
        s2 = str(e2)
    except Exception as exc:
        res.fail("str-of-reparsed-raised:" + exc_site(exc), f"{s!r}: {exc!r}")
        return
    if s2 != s:
        res.fail("second-print-differs", f"{e!r}: first {s!r}, second {s2!r}")
    if do_values and not res.fails:
        from pbt import envs
        env = envs.build_env({**S.BASE_ENV, **ENV})
        try:
            r1 = ref_eval(walk.pythonize(e), env)
            r2 = ref_eval(walk.pythonize(e2), env)
        except RefSkip:
            return
        res.compared()
        same = (r1[0] == r2[0]) and (
            values_close(r1[1], r2[1]) if r1[0] == "val"
            else bool(set(n for n, _ in r1[1]) & set(n for n, _ in r2[1])))
        if not same:
            res.fail("value-changed", f"{e!r} -> {s!r} -> {e2!r}: {r1} vs {r2}")
    return s


def _const_kinds(e):
    out = []
    for _, n in walk.occurrences(walk.pythonize(e)):
        if isinstance(n, bool):
            out.append(("bool", n))
        elif isinstance(n, int):
            out.append(("int", n))
        elif isinstance(n, float):
            out.append(("float", repr(n)))
        elif isinstance(n, complex):
            out.append(("complex", repr(n)))
    return sorted(out, key=repr)


def _classify(res, spec, e):
    txt = repr(spec)
    if "['Const', 'int', -" in txt or "['Const', 'float', -" in txt:
        res.label("neg-const")
    if "CallWithKwargs" in txt:
        res.label("kwcall")
    if "'Slice'" in txt:
        res.label("slice")
    if isinstance(e, p.Expression):
        for _, n in walk.occurrences(e):
            if isinstance(n, p.Expression) and any(
                    isinstance(c, p.Expression) and walk.children(c)
                    for _, c in walk.children(n)) and walk.children(n):
                res.nontrivial = True
                break


NARY = ("Sum", "Product", "BitwiseOr", "BitwiseXor", "BitwiseAnd", "LogicalOr",
        "LogicalAnd")


def in_fragment(spec):
    """Reject (for the shrinker) trees the text syntax cannot spell."""
    for s in subspecs(spec):
        if s[0] in NARY and len(s[1]) < 2:
            return False
        if s[0] == "Slice":
            ch = s[1]
            if len(ch) == 0 or len(ch) > 3:
                return False
            if all(c is None for c in ch) and len(ch) != 1:
                return False
            if len(ch) == 1 and ch[0] is not None:
                return False
            if len(ch) == 3 and ch[1] is None and ch[2] is None:
                return False  # 'a::' is read as 'a:
        if s[0] == "Tuple" and len(s[1]) == 0:
            return False
        if s[0] == "Subscript" and s[2] is not None and s[2][0] == "Tuple" \
                and len(s[2][1]) < 2:
            return False
    return True


KNOWN = {}


def check_tree(spec):
    res = Result()
    if not in_fragment(spec):
        from pbt.spec import HarnessError
        raise HarnessError("outside the printable fragment")
    e = build(spec)
    if twin_first(spec, twin_how(spec), lambda t: parse(str(t))):
        res.label("twin-first")
    s = roundtrip(res, e)
    _classify(res, spec, e)
    res.sample = {"tree": repr(e)[:300], "printed": s}
    return res


CHECKS = {"edge": check_tree, "nest3": check_tree, "tree": check_tree}

# {{{ templates: every node type with one hole per child position

CMP2 = ("<", "==")


def templates():
    """name -> list of (position, fn(child_spec) -> spec)."""
    t = {}
    for n in ("Sum", "Product", "BitwiseOr", "BitwiseXor", "BitwiseAnd",
              "LogicalOr", "LogicalAnd"):
        t[n] = [("first", lambda c, n=n: [n, [c, V("y")]]),
                ("last", lambda c, n=n: [n, [V("x"), c]]),
                ("middle", lambda c, n=n: [n, [V("x"), c, V("z")]])]
    for n, (a, b) in {"Quotient": ("numerator", "denominator"),
                      "FloorDiv": ("numerator", "denominator"),
                      "Remainder": ("numerator", "denominator"),
                      "Power": ("base", "exponent"),
                      "LeftShift": ("shiftee", "shift"),
                      "RightShift": ("shiftee", "shift")}.items():
        t[n] = [(a, lambda c, n=n: [n, c, V("y")]),
                (b, lambda c, n=n: [n, V("x"), c])]
    t["BitwiseNot"] = [("child", lambda c: ["BitwiseNot", c])]
    t["LogicalNot"] = [("child", lambda c: ["LogicalNot", c])]
    for op in CMP2:
        t["Comparison" + op] = [
            ("left", lambda c, op=op: ["Comparison", c, op, V("y")]),
            ("right", lambda c, op=op: ["Comparison", V("x"), op, c])]
    t["If"] = [("condition", lambda c: ["If", c, V("x"), V("y")]),
               ("then", lambda c: ["If", V("p"), c, V("y")]),
               ("else", lambda c: ["If", V("p"), V("x"), c])]
    t["Call"] = [("function", lambda c: ["Call", c, [V("x")]]),
                 ("arg", lambda c: ["Call", V("f1"), [c]]),
                 ("arg2", lambda c: ["Call", V("f2"), [V("x"), c]])]
    t["CallWithKwargs"] = [
        ("function", lambda c: ["CallWithKwargs", c, [V("x")], [["k", V("y")]]]),
        ("arg", lambda c: ["CallWithKwargs", V("g"), [c], [["k", V("y")]]]),
        ("kwarg", lambda c: ["CallWithKwargs", V("g"), [V("x")], [["k", c]]]),
        ("kwarg2", lambda c: ["CallWithKwargs", V("g"), [V("x")],
                              [["k", V("y")], ["j", c]]])]
    t["Subscript"] = [("aggregate", lambda c: ["Subscript", c, V("k")]),
                      ("index", lambda c: ["Subscript", V("A"), c]),
                      ("tuple-index", lambda c: ["Subscript", V("D"), ["Tuple", [c, V("k")]]]),
                      ("tuple-index2", lambda c: ["Subscript", V("D"), ["Tuple", [V("k"), c]]])]
    t["Lookup"] = [("aggregate", lambda c: ["Lookup", c, "a"])]
    t["Slice"] = [("start", lambda c: ["Subscript", V("A"), ["Slice", [c, V("k")]]]),
                  ("stop", lambda c: ["Subscript", V("A"), ["Slice", [V("m"), c]]]),
                  ("stop-only", lambda c: ["Subscript", V("A"), ["Slice", [None, c]]]),
                  ("start-only", lambda c: ["Subscript", V("A"), ["Slice", [c, None]]]),
                  ("step", lambda c: ["Subscript", V("A"), ["Slice", [V("m"), V("k"), c]]]),
                  ("step-only", lambda c: ["Subscript", V("A"), ["Slice", [None, None, c]]])]
    t["TupleArg"] = [("element", lambda c: ["Call", V("h"), [["Tuple", [c, V("y")]]]]),
                     ("single", lambda c: ["Call", V("h"), [["Tuple", [c]]]])]
    return t


ATOMS = {
    "Variable": V("u"), "int": I(7), "negint": I(-3), "zero": I(0),
    "float": ["Const", "float", 2.5], "negfloat": ["Const", "float", -1.5],
    "smallfloat": ["Const", "float", 1e-07], "bigfloat": ["Const", "float", 1e+22],
    "negzero": ["Const", "float", -0.0],
    "True": ["Const", "bool", True], "False": ["Const", "bool", False],
    "np.int64": ["Const", "np.int64", 4], "np.float64neg": ["Const", "np.float64", -0.5],
}


def child_reps():
    """One simple instance of every printable node type (atomic children)."""
    reps = dict(ATOMS)
    for name, holes in templates().items():
        pos, fn = holes[0]
        reps[name] = fn(V("v"))
        if name in ("Sum", "Product"):
            reps[name + "-neg"] = [name, [I(-1), V("v")]]
    reps["NegProduct3"] = ["Product", [I(-1), V("v"), V("w")]]
    reps["EmptyCall"] = ["Call", V("f0"), []]
    reps["Tuple2"] = ["Tuple", [V("v"), V("w")]]
    reps["Tuple1"] = ["Tuple", [V("v")]]
    reps["Tuple-nested-first"] = ["Tuple", [["Tuple", [V("v"), V("w")]], V("u")]]
    reps["Tuple-nested-last"] = ["Tuple", [V("u"), ["Tuple", [V("v"), V("w")]]]]
    reps["Tuple-nested-single"] = ["Tuple", [["Tuple", [V("v"), V("w")]]]]
    reps["SliceAll"] = ["Subscript", V("A"), ["Slice", [None]]]
    return reps


def edge_cases():
    reps = child_reps()
    for pname, holes in templates().items():
        for pos, fn in holes:
            for cname, c in reps.items():
                yield fn(c)


PREC_REPS = ["Sum", "Product", "Quotient", "FloorDiv", "Remainder", "Power",
             "LeftShift", "BitwiseNot", "BitwiseAnd", "BitwiseXor", "BitwiseOr",
             "Comparison<", "LogicalNot", "LogicalAnd", "LogicalOr", "If", "Call",
             "Subscript"]


def nest3_cases():
    t = templates()
    holes = []
    for n in PREC_REPS:
        hs = t[n]
        if n in ("Sum", "Product", "BitwiseAnd", "BitwiseXor", "BitwiseOr",
                 "LogicalAnd", "LogicalOr"):
            hs = hs[:2]
        if n == "Call":
            hs = hs[1:2]
        if n == "Subscript":
            hs = hs[:2]
        holes.extend(fn for _, fn in hs)
    leaves = [V("u"), I(-3)]
    for f1, f2 in itertools.product(holes, repeat=2):
        for n in PREC_REPS:
            inner = t[n][0][1](leaves[0]) if n != "Call" else t[n][1][1](leaves[0])
            yield f1(f2(inner))
        yield f1(f2(leaves[1]))

# }}}


# {{{ random printable trees

NAMES = ("x", "y", "z", "_a", "a1", "A_b", "android", "iffy", "nota", "orange",
         "elsewhere", "e1", "d", "Truex", "Falsey", "$v", "@k", "not_", "x_if",
         "not_ready", "or_mask", "if_", "else_0", "True_", "False_positive", "and_")
FRAG = S.EVALUABLE.without("Min", "Max", "CommonSubexpression").but(
    np_consts=True, float_consts=(0.5, -1.5, 2.0, 0.25, -0.0, 1.0, 1e-07, 1e+22, -3e-05),
    int_consts=(-3, -2, -1, 0, 1, 2, 3, 4, 5, 7, 10, -100, 12345678901234567890),
    cse_prefixes=(None,))


def _decorate(draw, spec):
    """Rename a few variables to odd identifiers, add slices / tuple args."""
    ren = {}
    out = []

    def rec(s):
        if isinstance(s, list) and s and s[0] == "Var" and s[1] in ("x", "y", "z"):
            if s[1] not in ren:
                ren[s[1]] = draw(st.sampled_from(NAMES)) if draw(
                    st.integers(0, 2)) == 0 else s[1]
            return ["Var", ren[s[1]]]
        if isinstance(s, list):
            return [rec(c) for c in s]
        return s
    out = rec(spec)
    return out


@st.composite
def tree_case(draw):
    kind = draw(st.sampled_from(("INT", "NUM", "NUM", "BOOL")))
    spec = draw(S.expr(kind, draw(st.integers(1, 6)), FRAG))
    spec = _decorate(draw, spec)
    c = draw(st.integers(0, 11))
    if c == 0:
        sl = [draw(st.sampled_from([None, spec, V("k")])) for _ in range(
            draw(st.integers(2, 3)))]
        if all(c is None for c in sl):
            sl = [None]
        if len(sl) == 3 and sl[1] is None and sl[2] is None:
            sl = sl[:2]
        spec = ["Subscript", V("A"), ["Slice", sl]]
    elif c == 1:
        spec = ["Call", V("h"), [["Tuple", [spec, V("y")]], V("z")]]
    elif c == 2:
        spec = ["Lookup", spec, draw(st.sampled_from(NAMES[:10]))]
    elif c == 3:
        spec = ["Subscript", V("D"), ["Tuple", [spec, ["Slice", [None, V("k")]]]]]
    elif c in (5, 6):
        # sub-terms that are == but print differently (4 / 4.0, True / 1) next to each
        # other: each is printed as what it is
        k = draw(st.sampled_from((4, 2, 1)))
        t1 = ["Product", [V("x"), ["Const", "int", k]]]
        t2 = ["Product", [V("x"), ["Const", "float", float(k)]]]
        t3 = ["Power", V("y"), ["Const", "bool", True]] if k == 1 else \
            ["Power", V("y"), ["Const", "float", float(k)]]
        parts = draw(st.permutations([t1, t2, t3, spec]))
        spec = [draw(st.sampled_from(("Sum", "Sum", "Product"))), list(parts)[:draw(
            st.integers(2, 4))]]
        if draw(st.integers(0, 3)) == 0:
            spec = ["Call", V("h"), [["Tuple", spec[1]], V("z")]]
    elif c == 4:
        inner = ["Tuple", [spec, V("y")]]
        outer = draw(st.sampled_from([[inner, V("z")], [V("z"), inner], [inner],
                                      [inner, inner]]))
        spec = draw(st.sampled_from([["Call", V("h"), [["Tuple", outer]]],
                                     ["Subscript", V("D"), ["Tuple", outer]] if len(outer) > 1
                                     else ["Call", V("h"), [["Tuple", outer], V("z")]]]))
    return spec

# }}}


def generate(ctx):
    n = 0
    for i, spec in enumerate(edge_cases()):
        if not in_fragment(spec):
            continue          # e.g. a 1-tuple as subscript index has no spelling
        if ctx.mine(i):
            ctx.judge("edge", spec)
            n += 1
    ctx.exhaustive["(parent, position, child) triples"] = n
    m = 0
    stride = 1 if ctx.tier == "thorough" else 3
    for i, spec in enumerate(nest3_cases()):
        if i % stride == (ctx.seed % stride) and ctx.mine(i // stride):
            if ctx.over_budget():
                break
            ctx.judge("nest3", spec)
            m += 1
    if stride == 1:
        ctx.exhaustive["three-level nestings over precedence-class representatives"] = m
    else:
        ctx.extra["sampled three-level nestings"] += m
    ctx.run_given(tree_case(), lambda s: ctx.judge("tree", s), ctx.n(4000, 160000))


MANIFEST = {
    "text": ("Round-trip search over the printable fragment: exhaustive enumeration of "
             "every (parent node type, child position, child node type) combination and of "
             "three-level nestings over precedence-class representatives (the places where "
             "a parenthesis decision is made), plus random deep trees with negative, float "
             "and numpy constants, keyword calls, slices, tuples and odd identifiers; each "
             "tree is printed, re-parsed and compared by structure, by value and by second "
             "printed form."),
    "note": ("Trusted: pbt/walk.py (flattening and structural keys), pbt/refsem.py for "
             "values. The parser's agreement with Python is the subject of C07, not assumed here."),
    "technique": "exhaustive edge/nesting enumeration + property-based round-trip testing (print -> parse)",
    "design_ref": "DESIGN.md section 4, C06",
}
