"""C02 - evaluation gives every node type its standard meaning.

Oracle: pbt.refsem (reference interpreter written over Python operators).
Sub-checks
  eval      one (tree, environment) pair through the four evaluator variants
  box       one small tree over the exhaustive box {-2..3}^k u {+-1/2, True, False}
"""
from __future__ import annotations

import itertools

from hypothesis import strategies as st

import pymbolic
from pymbolic.mapper.evaluator import CachedEvaluationMapper, EvaluationMapper

import numpy as np

import pymbolic.primitives as p

from pbt import envs, strategies as S, walk
from pbt.refsem import RefSkip, compare_with_ref, ref_eval
from pbt.runner import Result
from pbt.spec import twin_first, twin_how, hash_twin, build

PROP = "C02"
LEVEL = "exploration"
RULE = ("Hypothesis-generated well-typed trees over every node type the evaluator "
        "implements x generated environments (ints, Fractions, bools, unbound "
        "names, zeros) plus small trees over the exhaustive box; each case is "
        "evaluated by the reference interpreter and by EvaluationMapper, "
        "CachedEvaluationMapper, pymbolic.evaluate and evaluate_kw. Non-trivial = "
        ">=3 operator nodes and (defined result with >=2 distinct operator node "
        "types, or an error outcome); distinct by sha1 of the JSON case spec.")
ASSUMPTIONS = [
    "the reference interpreter pbt/refsem.py states the intended denotation",
    "scalar results are compared with ==, not by type",
    "cases whose reference evaluation needs huge powers/shifts are skipped and counted",
]
HEALTH = {"error-outcome": 0.03, "has-kwcall": 0.02, "poison-not-evaluated": 0.01,
          "has-container": 0.02}

TIMEOUT_IS_FAIL = True   # the reference bounds sizes; the evaluator does the same arithmetic
CASE_TIMEOUT_S = 20

FRAG = S.EVALUABLE.but(poison=True, degenerate_arity=True)

VARIANTS = (
    ("EvaluationMapper", lambda e, env: EvaluationMapper(env)(e)),
    ("CachedEvaluationMapper", lambda e, env: CachedEvaluationMapper(env)(e)),
    ("evaluate", lambda e, env: pymbolic.evaluate(e, env)),
    ("evaluate_kw", lambda e, env: pymbolic.evaluate_kw(e, **env)),
)


def _one(res, e, env_spec, tag=""):
    """Compare all variants on one environment; returns the reference outcome."""
    ref_counter = envs.CallCounter()
    env = envs.build_env(env_spec, ref_counter)
    ref = ref_eval(e, env)
    outcomes = []
    for name, fn in VARIANTS:
        counter = envs.CallCounter()
        env_v = envs.build_env(env_spec, counter)
        bad = compare_with_ref(ref, lambda fn=fn, env_v=env_v: fn(e, env_v))
        res.compared()
        if bad is not None:
            res.fail(f"{bad[0]}", f"{name}{tag}: {bad[1]}")
        elif ref[0] == "val" and ref_counter.count("cnt") == 0 \
                and counter.count("cnt") != 0:
            res.fail("evaluated-unselected-operand",
                     f"{name}{tag}: counting function called {counter.count('cnt')} "
                     "times, reference never evaluates it")
        outcomes.append(bad)
    return ref


def _classify(res, e, ref):
    types = walk.node_types(e)
    ops = walk.n_operator_nodes(e)
    op_types = {type(n).__name__ for _, n in walk.occurrences(e)
                if hasattr(n, "__dataclass_fields__") and walk.children(n)}
    if "CallWithKwargs" in types:
        res.label("has-kwcall")
    if types & {"tuple", "list", "ndarray"}:
        res.label("has-container")
    for t in op_types:
        res.label("node:" + t)
    if ref[0] == "err":
        res.label("error-outcome")
        for n, _ in ref[1]:
            res.label("err:" + n)
    res.nontrivial = ops >= 3 and (ref[0] == "err" or len(op_types) >= 2)


def check_eval(spec):
    res = Result()
    e = build(spec["expr"])
    if twin_first(spec["expr"], twin_how(spec["expr"]),
                  *[lambda t, fn=fn: fn(t, envs.build_env(spec["env"], envs.CallCounter()))
                    for _, fn in VARIANTS]):
        res.label("twin-first")
    try:
        ref = _one(res, e, spec["env"])
    except RefSkip as s:
        return res.skip(f"refskip:{s}")
    _classify(res, e, ref)
    if isinstance(e, (list, np.ndarray)) and len(e) and ref[0] == "val":
        # one memoizing evaluator, the same (unhashable, mutable) container twice: once as
        # it is, once after an entry was exchanged in place - the second answer is about
        # the second content
        env2 = envs.build_env(spec["env"], envs.CallCounter())
        m = CachedEvaluationMapper(env2)
        try:
            m(e)
            flat = e if isinstance(e, list) else e.reshape(-1)
            old = flat[0]
            flat[0] = p.Sum((old, 1000)) if isinstance(old, p.Expression) or isinstance(
                old, (int, float)) and not isinstance(old, bool) else old
            want2 = ref_eval(e, envs.build_env(spec["env"], envs.CallCounter()))
            bad = compare_with_ref(want2, lambda: m(e))
            res.compared()
            if bad is not None and want2[0] == "val":
                res.fail("container-edited-in-place:" + bad[0],
                         f"CachedEvaluationMapper instance re-used on {e!r}: {bad[1]}")
            flat[0] = old
            res.label("container-reevaluated-after-edit")
        except RefSkip:
            pass
    specs_txt = repr(spec["expr"])
    if ref[0] == "val" and (any(repr(["Var", u]) in specs_txt for u in S.UNBOUND_NAMES)
                            or "'cnt'" in specs_txt
                            or "['Const', 'int', 0]]" in specs_txt):
        res.label("poison-not-evaluated")
    res.sample = {"expr": repr(e)[:300], "env": {
        k: v for k, v in spec["env"].items() if k in walk.variables(e)},
        "reference": repr(ref)[:120]}
    return res


def check_box(spec):
    """spec: {"expr":..., "names":[...], "values": "int"|"ext"}"""
    res = Result()
    e = build(spec["expr"])
    names = spec["names"]
    values = list(envs.BOX_INT) + (list(envs.BOX_EXTRA) if spec.get("ext") else [])
    nerr = 0
    nenv = 0
    for combo in itertools.product(values, repeat=len(names)):
        env_spec = dict(S.BASE_ENV)
        env_spec.update({"k": 2, "m": 0, "r": ["Frac", 1, 2], "s": ["Frac", -3, 4],
                         "p": True, "q": False, "x": 1, "y": -2, "z": 3})
        env_spec.update(zip(names, combo))
        try:
            ref = _one(res, e, env_spec, tag=f" at {dict(zip(names, combo))}")
        except RefSkip:
            continue
        nenv += 1
        if ref[0] == "err":
            nerr += 1
        if res.fails:
            break
    if nenv == 0:
        return res.skip("refskip:all-envs")
    _classify(res, e, ("err", set()) if nerr else ("val", None))
    res.label("box")
    res.sample = {"expr": repr(e)[:300], "box_over": names, "envs": nenv,
                  "error_envs": nerr}
    return res


def _known_retyped_composite(sub, spec, fail):
    """F38 (see C05): memoizing evaluation shares one cache entry between composite
    sub-expressions that are == but differ in a constant's type (2*x and 2.0*x)."""
    if fail.kind not in ("value-mismatch", "unexpected-exception", "value-instead-of-error",
                         "wrong-exception") and not fail.kind.startswith("unexpected-exception"):
        return False
    # the plain evaluator memoizes wrappers only (its CSE cache): there the two == nodes
    # have to be wrappers; the memoizing evaluators share entries between any composites
    wrappers_only = "Cached" not in fail.detail and "evaluate" not in fail.detail
    e = build(spec["expr"])
    seen = {}
    for _, n in walk.occurrences(e):
        if not walk.children(n):
            continue
        if wrappers_only and not isinstance(n, p.CommonSubexpression):
            continue
        k = (type(n).__name__, repr(walk.key(n, strict=False)))
        sk = repr(walk.key(n, strict=True))
        if seen.setdefault(k, sk) != sk:
            return True
    return False


KNOWN = {"F38c02": _known_retyped_composite}

CHECKS = {"eval": check_eval, "box": check_box}


@st.composite
def _container_case(draw):
    kind = draw(st.sampled_from(("Tuple", "List", "NpArray")))
    items = [draw(S.expr("NUM", 2, FRAG)) for _ in range(draw(st.integers(0, 3)))]
    if draw(st.integers(0, 2)) == 0:
        # entries that are sequences themselves (of equal length): a 1-D array of tuples
        # stays a 1-D array of tuples
        n = draw(st.integers(1, 3))
        items = [draw(st.sampled_from((
            ["Tuple", [draw(S.expr("NUM", 1, FRAG)), ["Const", "int", i]]],
            ["List", [["Var", "x"], ["Const", "int", i]]],
            ["Tuple", [["Var", "y"], ["Var", "x"]]]))) for i in range(n)]
    return [kind, items]


@st.composite
def eval_case(draw):
    c = draw(st.integers(0, 19))
    if c == 0:
        ex = draw(_container_case())
    elif c == 1:
        ex = ["NaN", draw(st.sampled_from((None, "float", "np.float64")))]
        if draw(st.booleans()):
            ex = ["Sum", [ex, draw(S.expr("NUM", 1, FRAG))]]
    elif c <= 4:
        ex = draw(S.expr("BOOL", draw(st.integers(1, 4)), FRAG))
    elif c <= 9:
        ex = draw(S.expr("INT", draw(st.integers(1, 5)), FRAG))
    else:
        ex = draw(S.expr("NUM", draw(st.integers(1, 5)), FRAG))
    if draw(st.integers(0, 7)) == 0:
        # two sub-terms that differ only in -1 / -2: unequal, with equal hashes
        # (hash(-1) == hash(-2) in CPython) - bare and inside wrappers
        t = draw(st.sampled_from((
            ["Sum", [["Var", "x"], ["Const", "int", -1]]],
            ["Product", [["Const", "int", -1], ["Var", "y"]]],
            ["Power", ["Var", "x"], ["Const", "int", -1]],
            ["Subscript", ["Var", "A"], ["Const", "int", -1]],
            ["Sum", [draw(S.expr("INT", 1, FRAG)), ["Const", "int", -2]]])))
        tw = hash_twin(t)
        if draw(st.booleans()):
            pre = draw(st.sampled_from((None, "u")))
            t, tw = (["CommonSubexpression", q, pre, "pymbolic_eval"] for q in (t, tw))
        parts = [t, tw] if draw(st.booleans()) else [tw, t]
        if draw(st.booleans()):
            parts.append(t)
        ex = [draw(st.sampled_from(("Sum", "Product", "Tuple"))), parts + (
            [ex] if draw(st.booleans()) and ex[0] not in ("Tuple", "List", "NpArray") else [])]
    env = draw(S.env_for(FRAG))
    return {"expr": ex, "env": env}


@st.composite
def box_case(draw):
    frag = FRAG.but(big_consts=False, poison=False)
    kind = draw(st.sampled_from(("INT", "NUM", "BOOL")))
    ex = draw(S.expr(kind, draw(st.integers(1, 3)), frag))
    used = sorted({s[1] for s in __import__("pbt.spec", fromlist=["x"]).subspecs(ex)
                   if s[0] == "Var"} & set(frag.int_vars + frag.bool_vars))
    names = used[:3]
    return {"expr": ex, "names": names, "ext": draw(st.booleans())}


def generate(ctx):
    ctx.run_given(eval_case(), lambda s: ctx.judge("eval", s), ctx.n(6000, 150000))
    ctx.run_given(box_case(), lambda s: ctx.judge("box", s), ctx.n(800, 20000))

MANIFEST = {
    "text": ("Generated-input search against an independent reference interpreter: "
             "every node type the evaluator implements, four evaluator entry points, "
             "value and error outcomes, short-circuit/branch selection observed with "
             "poisoned operands; small trees additionally over an exhaustive box of "
             "environments. Exploration, not proof: absence of a counterexample among "
             "the generated trees."),
    "note": ("Trusted: pbt/refsem.py (one branch per node type over Python operators), "
             "Hypothesis generation; scalar values compared with ==."),
    "technique": "property-based testing (Hypothesis) vs reference interpreter; exhaustive small environment box",
    "design_ref": "DESIGN.md section 4, C02",
}
