"""C19 - exact-arithmetic helpers and number types compute what they claim.

Sub-checks (oracle)
  ipow         integer_power vs repeated multiplication in four monoids
               (int, Fraction, 2x2 integer matrices, strings under concatenation)
  euclid       extended_euclidean / gcd / lcm on integer pairs vs Bezout identity,
               divisibility, math.gcd, math.lcm
  gcd-many     gcd_many vs math.gcd
  euclid-poly  extended_euclidean / gcd on polynomial pairs vs Bezout identity and
               divisibility decided in the dict reference model (pbt.polyref)
  fft          fft / ifft / sym_fft vs the O(n^2) DFT definition (pbt.dft_ref)
  poly         Polynomial + - * ** divmod // % / neg and scalar variants vs the dict
               reference: exact coefficients, representation invariant, value
               homomorphism at Fraction points through the evaluators
  poly-eval    EvaluationMapper.map_polynomial (and the three other evaluator entry
               points) on sparse polynomials with large exponent gaps and with
               symbolic coefficients
  poly-map     IdentityMapper subclass rewriting constants / renaming variables vs
               the same rewrite applied to the JSON spec
  poly-subst   SubstitutionMapper on symbolic coefficients / the base vs JSON-level
               substitution
  asprim       Polynomial.as_primitives() has the value of the polynomial
  quotient     quotient(a, b) / Rational(a, b) evaluate to a/b, sign normalised
"""
from __future__ import annotations

import math
from fractions import Fraction

import numpy as np
from hypothesis import strategies as st

import pymbolic
import pymbolic.primitives as prim
from pymbolic.algorithm import (
    extended_euclidean, fft, gcd, gcd_many, ifft, integer_power, lcm, sym_fft)
from pymbolic.mapper import IdentityMapper
from pymbolic.mapper.evaluator import (
    CachedEvaluationMapper, EvaluationMapper, FloatEvaluationMapper)
from pymbolic.mapper.substitutor import SubstitutionMapper, make_subst_func
from pymbolic.polynomial import Polynomial
from pymbolic.rational import Rational

from pbt import dft_ref, polyref as R
from pbt.envs import Mat
from pbt.runner import Result
from pbt.spec import HarnessError, build as build_expr

PROP = "C19"
LEVEL = "exploration"
RULE = (
    "Enumerated: every integer pair in [-30,30]^2 for Euclid/gcd/lcm, every exponent "
    "0..64 per monoid for integer_power, every FFT length 1..32 (quick) / 1..64 "
    "(thorough) x both signs incl. the symbolic FFT. Hypothesis-generated: random "
    "128-bit Euclid pairs, exponents to 2000, FFT lengths to 360, polynomial pairs "
    "with exact Euclidean remainder chains (built backwards), sparse polynomials of "
    "degree <= 8 with int/Fraction coefficients (small coefficient alphabet and "
    "p(x)p(-x)-style pairs so that products have cancelling middle terms; zero and "
    "constant polynomials), every operator (+ - * ** divmod // % / neg, scalar and "
    "reflected variants), coefficient-rewriting IdentityMapper subclasses, "
    "SubstitutionMapper on symbolic coefficients and on the base, integer pairs for "
    "quotient()/Rational. Non-trivial: ipow n>=2 composite; Euclid pair with a "
    "member <= 0; FFT length neither prime nor a power of two; polynomial product "
    "with cancellation / operands with >=2 terms; rewritten polynomial with >=3 "
    "terms; quotient with b<0, a common factor or |a|>=2^53. Distinct by sha1 of "
    "the JSON case spec.")
ASSUMPTIONS = [
    "pbt/polyref.py (dict polynomials over int/Fraction) and pbt/dft_ref.py "
    "(O(n^2) DFT, fsum) state the intended mathematics; math.gcd/math.lcm are correct",
    "FFT comparisons use the tolerance 1e-9*n*max(1, max|reference|); a wrong result "
    "inside that tolerance is not detected",
    "polynomial Euclid is demanded only for pairs whose remainder chain needs no "
    "inexact lead-coefficient division (others are skipped and counted)",
    "quotient(a,b)/Rational(a,b): exact float equality with a/b for |a|,|b| < 2^53, "
    "relative 2^-50 beyond; b != 0 only",
    "a case that does not finish within 20 s (wall clock) is reported as a hang (the reference "
    "side is bounded by construction)",
]
HEALTH = {"mul:prefix-cancellation": 0.008, "mul:cancel": 0.008,
          "pow:prefix-cancellation": 0.001, "euclid:nonpositive": 0.04,
          "euclid:big": 0.01, "fft:composite": 0.0008, "fft:sym": 0.0004,
          "map:partial-change": 0.01, "map:first-term-unchanged": 0.004,
          "subst:coefficient-replaced": 0.005, "divmod:exact": 0.02,
          "euclid-poly:in-domain": 0.01, "eval:exponent-gap": 0.02,
          "eval:symbolic": 0.004, "quotient:big": 0.008, "ipow:n>64": 0.004}

TIMEOUT_IS_FAIL = True
CASE_TIMEOUT_S = 20      # wall clock; a case needs < 0.1 s CPU on the unchanged tree
BUDGET_S = {"quick": 200, "thorough": 3000}

X = prim.Variable("x")
EVAL_VARIANTS = (
    ("EvaluationMapper", lambda e, env: EvaluationMapper(env)(e)),
    ("CachedEvaluationMapper", lambda e, env: CachedEvaluationMapper(env)(e)),
    ("evaluate", lambda e, env: pymbolic.evaluate(e, env)),
    ("evaluate_kw", lambda e, env: pymbolic.evaluate_kw(e, **env)),
)


def _need(cond, msg):
    if not cond:
        raise HarnessError(msg)


def _is_int(v):
    return isinstance(v, int) and not isinstance(v, bool)


def _exc(e):
    return type(e).__name__


def _short(v):
    """Printable rendering that never trips the int -> str digit limit."""
    if isinstance(v, int):
        if v.bit_length() > 600:
            return f"<int of {v.bit_length()} bits, low 64 bits {v & (2 ** 64 - 1):#x}>"
        return str(v)
    if isinstance(v, Fraction):
        return f"{_short(v.numerator)}/{_short(v.denominator)}"
    try:
        return repr(v)[:200]
    except ValueError:
        return f"<{type(v).__name__} too large to print>"


# {{{ integer_power

class StrMonoid:
    """Strings under concatenation: associative, non-commutative, unit ''."""
    __slots__ = ("s",)

    def __init__(self, s):
        self.s = s

    def __mul__(self, other):
        if not isinstance(other, StrMonoid):
            return NotImplemented
        return StrMonoid(self.s + other.s)

    def __eq__(self, other):
        return isinstance(other, StrMonoid) and self.s == other.s

    def __hash__(self):
        return hash(self.s)

    def __repr__(self):
        return f"StrMonoid({self.s!r})"


class MutMat:
    """2x2 integer matrices as *mutable* objects: ``a * b`` builds a new one, ``a *= b``
    changes ``a`` in place (like numpy.matrix).  integer_power must neither alias its
    accumulator with the running square nor change the caller's argument."""

    def __init__(self, m):
        self.m = [list(r) for r in m]

    def _prod(self, o):
        return [[sum(self.m[i][k] * o.m[k][j] for k in range(2)) for j in range(2)]
                for i in range(2)]

    def __mul__(self, o):
        if not isinstance(o, MutMat):
            return NotImplemented
        return MutMat(self._prod(o))

    def __imul__(self, o):
        if not isinstance(o, MutMat):
            return NotImplemented
        self.m[:] = self._prod(o)
        return self

    def __eq__(self, o):
        return isinstance(o, MutMat) and self.m == o.m

    __hash__ = None

    def __repr__(self):
        return f"MutMat({self.m})"


def _ipow_operands(spec):
    dom, x = spec.get("dom"), spec.get("x")
    if dom == "mutmat":
        _need(isinstance(x, list) and len(x) == 2 and all(
            isinstance(r, list) and len(r) == 2 and all(map(_is_int, r)) for r in x),
            "ipow mutmat")
        return MutMat(x), MutMat(((1, 0), (0, 1)))
    if dom == "int":
        _need(_is_int(x), "ipow int")
        return x, 1
    if dom == "frac":
        _need(isinstance(x, list) and len(x) == 2 and all(map(_is_int, x)) and x[1] != 0,
              "ipow frac")
        return Fraction(x[0], x[1]), Fraction(1)
    if dom == "mat":
        _need(isinstance(x, list) and len(x) == 2 and all(
            isinstance(r, list) and len(r) == 2 and all(map(_is_int, r)) for r in x),
            "ipow mat")
        return Mat(x), Mat(((1, 0), (0, 1)))
    if dom == "str":
        _need(isinstance(x, str), "ipow str")
        return StrMonoid(x), StrMonoid("")
    raise HarnessError(f"ipow dom {dom!r}")


def check_ipow(spec):
    res = Result()
    n = spec.get("n")
    _need(_is_int(n) and n <= 5000, "ipow n")
    x, one = _ipow_operands(spec)
    explicit_one = bool(spec.get("one")) or spec["dom"] in ("str", "mutmat")
    call = (lambda: integer_power(x, n, one)) if explicit_one \
        else (lambda: integer_power(x, n))
    res.label("ipow:" + spec["dom"])
    res.compared()
    if n < 0:
        res.label("ipow:negative")
        res.nontrivial = True
        try:
            got = call()
        except (RuntimeError, ValueError):
            return res
        except Exception as e:
            return res.fail("ipow:negative-wrong-exception", f"{_exc(e)}: {e}")
        return res.fail("ipow:negative-accepted",
                        f"integer_power({_short(x)}, {n}) -> {_short(got)}")
    want = one
    for _ in range(n):
        want = want * x
    x_before = repr(x)
    try:
        got = call()
    except Exception as e:
        return res.fail(f"ipow:raises:{_exc(e)}", f"integer_power({_short(x)}, {n}): {e}")
    if repr(x) != x_before:
        res.fail("ipow:argument-changed",
                 f"integer_power changed its argument {x_before} into {_short(x)} (n={n})")
        x, _ = _ipow_operands(spec)
    if not (got == want):
        res.fail("ipow:value", f"integer_power({_short(x)}, {n}) = {_short(got)}, "
                 f"repeated multiplication gives {_short(want)}")
    composite = n >= 4 and any(n % d == 0 for d in range(2, int(n ** 0.5) + 1))
    res.nontrivial = composite
    if n > 64:
        res.label("ipow:n>64")
    res.sample = {"integer_power": _short(x), "n": n, "monoid": spec["dom"]}
    return res

# }}}


# {{{ Euclid on integers

def check_euclid(spec):
    res = Result()
    q, r = spec.get("q"), spec.get("r")
    _need(_is_int(q) and _is_int(r), "euclid ints")
    mg = math.gcd(q, r)
    if q <= 0 or r <= 0:
        res.label("euclid:nonpositive")
        res.nontrivial = True
    if max(abs(q), abs(r)) > 2 ** 64:
        res.label("euclid:big")
    try:
        g, a, b = extended_euclidean(q, r)
    except Exception as e:
        return res.fail(f"euclid:raises:{_exc(e)}", f"extended_euclidean({q}, {r}): {e}")
    res.compared(3)
    if not all(_is_int(v) for v in (g, a, b)):
        res.fail("euclid:non-integer-result", f"({q}, {r}) -> {(g, a, b)!r}")
        return res
    if g != a * q + b * r:
        res.fail("euclid:bezout", f"extended_euclidean({q}, {r}) = {(g, a, b)}: "
                 f"a*q + b*r = {a * q + b * r} != g")
    if (g == 0 and (q or r)) or (g != 0 and (q % g or r % g)):
        res.fail("euclid:not-common-divisor", f"({q}, {r}) -> g = {g}")
    elif abs(g) != mg:
        res.fail("euclid:not-greatest", f"({q}, {r}) -> g = {g}, math.gcd = {mg}")
    try:
        g2 = gcd(q, r)
        res.compared()
        if not _is_int(g2) or abs(g2) != mg:
            res.fail("gcd:value", f"gcd({q}, {r}) = {g2!r}, math.gcd = {mg}")
    except Exception as e:
        res.fail(f"gcd:raises:{_exc(e)}", f"gcd({q}, {r}): {e}")
    if q or r:
        try:
            l = lcm(q, r)
            res.compared()
            if not _is_int(l) or abs(l) != math.lcm(q, r):
                res.fail("lcm:value", f"lcm({q}, {r}) = {l!r}, math.lcm = {math.lcm(q, r)}")
        except Exception as e:
            res.fail(f"lcm:raises:{_exc(e)}", f"lcm({q}, {r}): {e}")
    res.sample = {"extended_euclidean": [q, r], "result": [g, a, b]}
    return res


def check_gcd_many(spec):
    res = Result()
    args = spec.get("args")
    _need(isinstance(args, list) and all(map(_is_int, args)), "gcd-many args")
    if not args:
        return res.skip("gcd_many() of nothing: no demand")
    try:
        got = gcd_many(*args)
    except Exception as e:
        return res.fail(f"gcd-many:raises:{_exc(e)}", f"gcd_many{tuple(args)}: {e}")
    res.compared()
    want = math.gcd(*args)
    if len(args) == 1:
        if got != args[0]:
            res.fail("gcd-many:value", f"gcd_many({args[0]}) = {got!r}")
    elif not _is_int(got) or abs(got) != want:
        res.fail("gcd-many:value", f"gcd_many{tuple(args)} = {got!r}, math.gcd = {want}")
    res.label(f"gcd-many:{min(len(args), 4)}")
    res.nontrivial = len(args) >= 3 and any(a <= 0 for a in args)
    return res

# }}}


# {{{ polynomials: JSON <-> live objects

def _is_number_spec(c):
    return _is_int(c) or (isinstance(c, list) and len(c) == 3 and c[0] == "Frac")


def mkpoly(ts, base=X):
    """Polynomial from validated numeric terms [(exp, coeff)]."""
    return Polynomial(base, tuple(ts))


def data_dict(poly):
    """Normalised {exp: coeff} of a live Polynomial (numeric coefficients)."""
    d = {}
    for e, c in poly.data:
        d[e] = d.get(e, 0) + c
    return R.norm(d)


def data_is_normal(poly):
    last = -1
    for e, c in poly.data:
        if not _is_int(e) or e <= last or c == 0:
            return False
        last = e
    return True


def as_ref(v):
    """Reference dict of a Polynomial-or-scalar result."""
    if isinstance(v, Polynomial):
        if v.base != X:
            raise ValueError(f"unexpected base {v.base!r}")
        return data_dict(v)
    if isinstance(v, (int, Fraction)) and not isinstance(v, bool):
        return R.norm({0: v})
    raise ValueError(f"neither Polynomial nor exact scalar: {v!r}")


def points(spec):
    pts = spec.get("pts", [])
    _need(isinstance(pts, list), "pts")
    return [R.num(v) for v in pts]

# }}}


# {{{ Euclid on polynomials

def check_euclid_poly(spec):
    res = Result()
    tq, tr = R.terms(spec.get("q")), R.terms(spec.get("r"))
    dq, dr = R.from_terms(tq), R.from_terms(tr)
    g_ref, exact, steps = R.euclid_chain_exact(dq, dr)
    if not exact:
        return res.skip("euclid-poly: remainder chain needs an inexact lead division")
    res.label("euclid-poly:in-domain", f"euclid-poly:steps={min(steps, 4)}")
    if any(isinstance(c, Fraction) for _, c in tq + tr):
        res.label("euclid-poly:fractions")
    res.nontrivial = steps >= 2
    pq, pr = mkpoly(tq), mkpoly(tr)
    try:
        g, a, b = extended_euclidean(pq, pr)
    except Exception as e:
        return res.fail(f"euclid-poly:raises:{_exc(e)}",
                        f"extended_euclidean({R.show(dq)}, {R.show(dr)}): {e!r}")
    try:
        gd, ad, bd = as_ref(g), as_ref(a), as_ref(b)
    except ValueError as e:
        return res.fail("euclid-poly:result-type", str(e))
    res.compared(3)
    lhs = R.add(R.mul(ad, dq), R.mul(bd, dr))
    if lhs != gd:
        res.fail("euclid-poly:bezout",
                 f"q={R.show(dq)} r={R.show(dr)}: g={R.show(gd)} a={R.show(ad)} "
                 f"b={R.show(bd)} but a*q+b*r={R.show(lhs)}")
    if not gd:
        if dq or dr:
            res.fail("euclid-poly:not-common-divisor", "g = 0 for a non-zero pair")
    else:
        for nm, d in (("q", dq), ("r", dr)):
            if R.field_divmod(d, gd)[1]:
                res.fail("euclid-poly:not-common-divisor",
                         f"g={R.show(gd)} does not divide {nm}={R.show(d)}")
        if R.degree(gd) != R.degree(g_ref):
            res.fail("euclid-poly:not-greatest",
                     f"deg g = {R.degree(gd)}, reference gcd {R.show(g_ref)}")
    try:
        g2 = as_ref(gcd(pq, pr))
        res.compared()
        if g2 != gd:
            res.fail("euclid-poly:gcd-disagrees", f"gcd -> {R.show(g2)}, "
                     f"extended_euclidean -> {R.show(gd)}")
    except Exception as e:
        res.fail(f"euclid-poly:gcd-raises:{_exc(e)}", repr(e))
    res.sample = {"q": R.show(dq), "r": R.show(dr), "g": R.show(gd)}
    return res

# }}}


# {{{ FFT

SYM_MAX_N = 100


def check_fft(spec):
    res = Result()
    xs = spec.get("x")
    _need(isinstance(xs, list) and 1 <= len(xs) <= 400 and all(
        isinstance(c, list) and len(c) == 2 and all(
            isinstance(v, (int, float)) and not isinstance(v, bool) for v in c)
        for c in xs), "fft data")
    sign = spec.get("sign", 1)
    _need(sign in (1, -1), "fft sign")
    dtype = spec.get("dtype", "c128")
    _need(dtype in ("c128", "f64", "i64"), "fft dtype")
    n = len(xs)
    if dtype == "c128":
        data = [complex(re, im) for re, im in xs]
        arr = np.array(data, dtype=np.complex128)
        kw = {}
    else:
        _need(dtype == "f64" or all(_is_int(c[0]) for c in xs), "i64 data")
        data = [complex(re, 0) for re, _ in xs]
        arr = np.array([re for re, _ in xs],
                       dtype=np.float64 if dtype == "f64" else np.int64)
        kw = {"complex_dtype": np.complex128}
    want = dft_ref.dft(data, sign)
    tol = 1e-9 * n * max(1.0, dft_ref.max_abs(want))
    pow2 = n & (n - 1) == 0
    prime = n >= 2 and all(n % d for d in range(2, int(n ** 0.5) + 1))
    res.label("fft:pow2" if pow2 else "fft:prime" if prime else "fft:composite",
              "fft:" + dtype)
    res.nontrivial = not pow2 and not prime
    warm = spec.get("warm")
    if warm:
        # a single-precision transform of the same length first, in the same process:
        # what it leaves behind must not reach the double-precision one
        _need(warm in ("c64", "f32"), "fft warm-up dtype")
        res.label("fft:after-single-precision-transform")
        try:
            if warm == "c64":
                w = fft(np.array(data, dtype=np.complex64), sign=sign)
            else:
                w = fft(np.array([c.real for c in data], dtype=np.float32), sign=sign,
                        complex_dtype=np.complex64)
            res.compared()
            errw = dft_ref.max_err(w, want if warm == "c64" else dft_ref.dft(
                [complex(c.real, 0) for c in data], sign))
            tolw = 1e-3 * n * max(1.0, dft_ref.max_abs(want))
            if len(w) != n or not errw <= tolw:
                res.fail("fft:value:single-precision",
                         f"n={n} sign={sign} {warm}: max |fft - DFT| = {errw:.3g} > {tolw:.3g}")
        except Exception as e:
            res.fail(f"fft:raises:{_exc(e)}", f"n={n} sign={sign} {warm}: {e!r}")
    try:
        got = fft(arr, sign=sign, **kw)
    except Exception as e:
        return res.fail(f"fft:raises:{_exc(e)}", f"n={n} sign={sign} {dtype}: {e!r}")
    res.compared()
    if len(got) != n:
        return res.fail("fft:length", f"n={n}: result has length {len(got)}")
    err = dft_ref.max_err(got, want)
    if not err <= tol:
        res.fail("fft:value", f"n={n} sign={sign} {dtype}: max |fft - DFT| = {err:.3g} "
                 f"> {tol:.3g}")
    # inverse: ifft is the DFT with the opposite sign over n, and inverts fft
    if sign == 1:
        try:
            back = ifft(np.array(got, dtype=np.complex128))
            res.compared()
            errb = dft_ref.max_err(back, data)
            tolb = 1e-9 * n * max(1.0, dft_ref.max_abs(data))
            if len(back) != n or not errb <= tolb:
                res.fail("ifft:roundtrip", f"n={n}: max |ifft(fft(x)) - x| = {errb:.3g}")
            inv = ifft(arr, **kw)
            res.compared()
            wanti = dft_ref.idft(data)
            erri = dft_ref.max_err(inv, wanti)
            if len(inv) != n or not erri <= 1e-9 * n * max(1.0, dft_ref.max_abs(wanti)):
                res.fail("ifft:value", f"n={n}: max |ifft - inverse DFT| = {erri:.3g}")
        except Exception as e:
            res.fail(f"ifft:raises:{_exc(e)}", f"n={n}: {e!r}")
    if spec.get("sym") and n <= SYM_MAX_N:
        res.label("fft:sym")
        names = [f"x{i}" for i in range(n)]
        sx = np.empty(n, dtype=object)
        for i, nm in enumerate(names):
            sx[i] = prim.Variable(nm)
        try:
            sres = sym_fft(sx, sign=sign)
            mapper = EvaluationMapper(dict(zip(names, data)))
            vals = [complex(mapper(e)) for e in sres]
        except Exception as e:
            return res.fail(f"sym-fft:raises:{_exc(e)}", f"n={n} sign={sign}: {e!r}")
        res.compared(2)
        if len(vals) != n:
            return res.fail("sym-fft:length", f"n={n}: {len(vals)} outputs")
        errs = dft_ref.max_err(vals, want)
        if not errs <= tol:
            res.fail("sym-fft:value", f"n={n} sign={sign}: max |sym_fft(x)[data] - DFT| "
                     f"= {errs:.3g} > {tol:.3g}")
        errn = dft_ref.max_err(vals, got)
        if not errn <= tol:
            res.fail("sym-fft:disagrees-with-fft", f"n={n} sign={sign}: {errn:.3g}")
    res.sample = {"fft_length": n, "sign": sign, "dtype": dtype, "x[:4]": xs[:4]}
    return res

# }}}


# {{{ Polynomial arithmetic

POLY_OPS = ("add", "sub", "mul", "pow", "divmod", "truediv", "neg", "bmul")
SCALAR_OPS = ("sadd", "sradd", "ssub", "srsub", "smul", "srmul")


def _value(res, poly, pt, all_variants):
    """Value of a live polynomial at x=pt through the evaluator (None if the
    evaluator itself is at fault, which is reported under evaluator:*)."""
    env = {"x": pt}
    try:
        v = EvaluationMapper(env)(poly)
    except Exception as e:
        res.fail(f"evaluator:raises:{_exc(e)}", f"EvaluationMapper on {poly!r}: {e!r}")
        return None
    res.compared()
    own = R.value(data_dict(poly), pt)
    if isinstance(v, prim.Expression) or v != own:
        res.fail("evaluator:value", f"{poly!r} at x={pt}: evaluator {v!r}, "
                 f"term-by-term {own!r}")
        return None
    if all_variants:
        for name, fn in EVAL_VARIANTS[1:]:
            try:
                w = fn(poly, env)
            except Exception as e:
                res.fail(f"evaluator:{name}-raises:{_exc(e)}", f"{poly!r}: {e!r}")
                continue
            res.compared()
            if isinstance(w, prim.Expression) or w != v:
                res.fail("evaluator:variants-disagree", f"{name} -> {w!r}, plain -> {v!r}")
    return v


def _judge_poly(res, op, got, want, invariant=True, what=""):
    """Exact comparison of one Polynomial result with the reference dict."""
    res.compared()
    if not isinstance(got, Polynomial):
        res.fail(f"{op}:not-a-polynomial", f"{what} -> {got!r}")
        return False
    if got.base != X:
        res.fail(f"{op}:base", f"{what} -> base {got.base!r}")
        return False
    try:
        gd = data_dict(got)
    except Exception as e:
        res.fail(f"{op}:bad-data", f"{what} -> {got.data!r}: {e!r}")
        return False
    ok = True
    if gd != want:
        res.fail(f"{op}:coefficients", f"{what} = {R.show(gd)}, reference {R.show(want)}")
        ok = False
    elif invariant and not data_is_normal(got):
        res.fail(f"{op}:data-not-normal", f"{what} -> data {got.data!r} (unsorted, "
                 "repeated exponent or zero coefficient)")
    if ok and invariant and bool(got) != bool(want):
        res.fail("zero-polynomial-truthiness",
                 f"bool({got!r}) is {bool(got)} for {what}")
    return ok


def check_poly(spec):
    res = Result()
    op = spec.get("op")
    _need(op in POLY_OPS + SCALAR_OPS, f"poly op {op!r}")
    ta = R.terms(spec.get("a"), max_exp=60)
    da = R.from_terms(ta)
    pa = mkpoly(ta)
    pts = points(spec)
    res.label("poly:" + op)
    if any(isinstance(c, Fraction) for _, c in ta):
        res.label("poly:fractions")
    if not ta:
        res.label("poly:zero-operand")

    def values_of(poly, i):
        return _value(res, poly, pts[i], i == 0)

    def homomorphism(got, expect_of_values, what):
        for i, pt in enumerate(pts):
            v = values_of(got, i)
            if v is None:
                return
            want_v = expect_of_values(pt)
            res.compared()
            if v != want_v:
                res.fail(f"{op}:value", f"{what} at x={pt}: value {v!r}, operation on "
                         f"the operands' values gives {want_v!r}")
                return

    if op in SCALAR_OPS:
        c = R.num(spec.get("b"))
        dc = R.norm({0: c})
        fn, want, sym = {
            "sadd": (lambda: pa + c, R.add(da, dc), "p + c"),
            "sradd": (lambda: c + pa, R.add(da, dc), "c + p"),
            "ssub": (lambda: pa - c, R.sub(da, dc), "p - c"),
            "srsub": (lambda: c - pa, R.sub(dc, da), "c - p"),
            "smul": (lambda: pa * c, R.scale(da, c), "p * c"),
            "srmul": (lambda: c * pa, R.scale(da, c), "c * p"),
        }[op]
        what = f"{sym} with p={R.show(da)}, c={c}"
        try:
            got = fn()
        except Exception as e:
            return res.fail(f"{op}:raises:{_exc(e)}", f"{what}: {e!r}")
        if _judge_poly(res, op, got, want, invariant=False, what=what):
            pyop = {"sadd": lambda v: v + c, "sradd": lambda v: c + v,
                    "ssub": lambda v: v - c, "srsub": lambda v: c - v,
                    "smul": lambda v: v * c, "srmul": lambda v: c * v}[op]
            homomorphism(got, lambda pt: pyop(R.value(da, pt)), what)
        res.nontrivial = len(ta) >= 2 and c != 0
        res.sample = {"op": sym, "p": R.show(da), "c": str(c)}
        return res

    if op in ("neg", "bmul", "pow"):
        n = spec.get("n", 2)
        _need(_is_int(n) and 0 <= n <= 8, "pow n")
        fn, want, sym, vop = {
            "neg": (lambda: -pa, R.neg(da), "-p", lambda v, pt: -v),
            "bmul": (lambda: pa * X, R.mul(da, {1: 1}), "p * x", lambda v, pt: v * pt),
            "pow": (lambda: pa ** n, R.power(da, n), f"p ** {n}", lambda v, pt: v ** n),
        }[op]
        what = f"{sym} with p={R.show(da)}"
        if op == "pow":
            res.label(f"pow:n={n}")
            if pow_hits_prefix(da, n):
                res.label("pow:prefix-cancellation")
        try:
            got = fn()
        except Exception as e:
            return res.fail(f"{op}:raises:{_exc(e)}", f"{what}: {e!r}")
        if _judge_poly(res, op, got, want, what=what):
            homomorphism(got, lambda pt: vop(R.value(da, pt), pt), what)
        res.nontrivial = len(ta) >= 2 and (op != "pow" or n >= 2)
        res.sample = {"op": sym, "p": R.show(da)}
        return res

    tb = R.terms(spec.get("b"), max_exp=60)
    db = R.from_terms(tb)
    pb = mkpoly(tb)
    if not tb:
        res.label("poly:zero-operand")
    if any(isinstance(c, Fraction) for _, c in tb):
        res.label("poly:fractions")
    res.nontrivial = len(ta) >= 2 and len(tb) >= 2

    if op in ("add", "sub", "mul"):
        fn, want, sym, vop = {
            "add": (lambda: pa + pb, R.add(da, db), "a + b", lambda u, v: u + v),
            "sub": (lambda: pa - pb, R.sub(da, db), "a - b", lambda u, v: u - v),
            "mul": (lambda: pa * pb, R.mul(da, db), "a * b", lambda u, v: u * v),
        }[op]
        what = f"{sym} with a={R.show(da)}, b={R.show(db)}"
        if op == "mul":
            pat = R.cancellation_pattern(da, db)
            res.label(f"mul:{pat}" + ("-cancellation" if pat == "prefix" else ""))
            res.nontrivial = res.nontrivial and pat in ("cancel", "prefix")
        elif set(da) & set(db):
            res.label(f"{op}:shared-exponents")
            if len(want) < len(set(da) | set(db)):
                res.label(f"{op}:cancellation")
        try:
            got = fn()
        except Exception as e:
            return res.fail(f"{op}:raises:{_exc(e)}", f"{what}: {e!r}")
        if _judge_poly(res, op, got, want, what=what):
            homomorphism(got, lambda pt: vop(R.value(da, pt), R.value(db, pt)), what)
        res.sample = {"op": sym, "a": R.show(da), "b": R.show(db)}
        return res

    if op == "truediv":
        # exact division of the reference product a*b by b
        dprod = R.mul(da, db)
        pprod = mkpoly(sorted(dprod.items()))
        what = f"(a*b) / b with a={R.show(da)}, b={R.show(db)}"
        try:
            got = pprod / pb
        except ZeroDivisionError as e:
            if not tb:
                return res
            return res.fail("truediv:raises:ZeroDivisionError", f"{what}: {e!r}")
        except Exception as e:
            if tb and all(f.denominator == 1 for f in R.field_divmod(dprod, db)[2]):
                res.fail(f"truediv:raises:{_exc(e)}", f"{what}: {e!r}")
            return res
        if not tb:
            return res.fail("truediv:zero-divisor-accepted", f"{what} -> {got!r}")
        if all(f.denominator == 1 for f in R.field_divmod(dprod, db)[2]):
            res.label("truediv:exact")
            _judge_poly(res, op, got, da, what=what)
        return res

    # divmod
    what = f"divmod(a, b) with a={R.show(da)}, b={R.show(db)}"
    try:
        q, r = divmod(pa, pb)
    except ZeroDivisionError as e:
        if not tb:
            res.label("divmod:zero-divisor")
            return res
        return res.fail("divmod:raises:ZeroDivisionError", f"{what}: {e!r}")
    except Exception as e:
        return res.fail(f"divmod:raises:{_exc(e)}", f"{what}: {e!r}")
    if not tb:
        return res.fail("divmod:zero-divisor-accepted", f"{what} -> {(q, r)!r}")
    try:
        qd, rd = as_ref(q), as_ref(r)
    except Exception as e:
        return res.fail("divmod:result-type", f"{what} -> {(q, r)!r}: {e}")
    res.compared(2)
    back = R.add(R.mul(qd, db), rd)
    if back != da:
        res.fail("divmod:reassembly", f"{what}: q={R.show(qd)} r={R.show(rd)}, "
                 f"q*b + r = {R.show(back)}")
    else:
        for nm, pv in (("q", q), ("r", r)):
            if isinstance(pv, Polynomial) and not data_is_normal(pv):
                res.fail("divmod:data-not-normal", f"{what}: {nm}.data = {pv.data!r}")
        if rd and R.degree(rd) >= R.degree(db):
            ratio = Fraction(R.lead(rd)) / Fraction(R.lead(db))
            if ratio.denominator == 1:
                res.fail("divmod:stopped-early", f"{what}: deg r = {R.degree(rd)} >= "
                         f"deg b although lead(r)/lead(b) = {ratio} is exact")
            res.label("divmod:inexact-lead")
        else:
            res.label("divmod:exact")
        # value homomorphism a(x) == q(x) b(x) + r(x) through the evaluator
        for i, pt in enumerate(pts):
            vq = values_of(q, i) if isinstance(q, Polynomial) else q
            vr = values_of(r, i) if isinstance(r, Polynomial) else r
            if vq is None or vr is None:
                break
            res.compared()
            if vq * R.value(db, pt) + vr != R.value(da, pt):
                res.fail("divmod:value", f"{what} at x={pt}: q*b + r = "
                         f"{vq * R.value(db, pt) + vr!r}, a = {R.value(da, pt)!r}")
                break
    for nm, fn, ref in (("//", lambda: pa // pb, qd), ("%", lambda: pa % pb, rd)):
        try:
            alt = as_ref(fn())
            res.compared()
            if alt != ref:
                res.fail("divmod:operator-disagrees", f"a {nm} b = {R.show(alt)}, "
                         f"divmod gives {R.show(ref)}")
        except Exception as e:
            res.fail(f"divmod:operator-raises:{_exc(e)}", f"a {nm} b: {e!r}")
    res.sample = {"op": "divmod", "a": R.show(da), "b": R.show(db),
                  "q": R.show(qd), "r": R.show(rd)}
    return res


def pow_hits_prefix(da, n):
    """Does some product a^i * a^j (i + j <= n) have a same-exponent group of
    partial products with a proper prefix summing to zero?"""
    pows = [R.power(da, i) for i in range(n + 1)]
    return any(R.cancellation_pattern(pows[i], pows[j]) == "prefix"
               for i in range(1, n) for j in range(1, n - i + 1))

# }}}


# {{{ polynomials with symbolic coefficients: JSON-level model

SYM_TAGS = ("Var", "Const", "Sum", "Product")


def _coef_validate(c, top=True):
    if _is_number_spec(c):
        _need(R.num(c) != 0 or not top, f"zero coefficient {c!r}")
        return
    _need(isinstance(c, list) and c and c[0] in SYM_TAGS, f"coefficient spec {c!r}")
    if c[0] == "Var":
        _need(len(c) == 2 and isinstance(c[1], str), f"Var spec {c!r}")
    elif c[0] == "Const":
        _need(len(c) == 3 and c[1] == "int" and _is_int(c[2]), f"Const spec {c!r}")
    else:
        _need(len(c) == 2 and isinstance(c[1], list) and 1 <= len(c[1]) <= 6,
              f"{c[0]} spec {c!r}")
        for ch in c[1]:
            _need(not _is_number_spec(ch), f"bare number inside {c[0]}: {c!r}")
            _coef_validate(ch, top=False)


def symterms(ts):
    _need(isinstance(ts, list) and len(ts) <= 12, "symterms")
    out, last = [], -1
    for t in ts:
        _need(isinstance(t, list) and len(t) == 2 and _is_int(t[0])
              and last < t[0] <= 60, f"bad term {t!r}")
        _coef_validate(t[1])
        last = t[0]
        out.append((t[0], t[1]))
    return out


def coef_build(c):
    """Live coefficient: number, or pymbolic expression built from the spec."""
    if _is_number_spec(c):
        return R.num(c)
    if c[0] == "Const":
        return c[2]
    return build_expr(c)


def coef_value(c, env):
    """Value of a coefficient/base spec, computed on the JSON (no pymbolic)."""
    if _is_number_spec(c):
        return R.num(c)
    if c[0] == "Var":
        _need(c[1] in env, f"unbound {c[1]!r}")
        return env[c[1]]
    if c[0] == "Const":
        return c[2]
    vals = [coef_value(ch, env) for ch in c[1]]
    if c[0] == "Sum":
        return sum(vals)
    tot = 1
    for v in vals:
        tot *= v
    return tot


def is_symbolic(c):
    return not _is_number_spec(c)


def env_of(spec, ints_only=False):
    """Environment of a case.  Cases with symbolic coefficients take integer
    values only: Fractions are not pymbolic constants, so a partially evaluated
    result (see eval:coefficient-not-evaluated) could not even be formed."""
    env = spec.get("env", {})
    _need(isinstance(env, dict), "env")
    env = {k: R.num(v) for k, v in env.items()}
    if ints_only:
        _need(all(_is_int(v) for v in env.values()),
              "symbolic coefficients need an integer environment")
    return env


def any_symbolic(*term_lists):
    return any(is_symbolic(c) for ts in term_lists for _, c in ts)


def sym_poly(ts, base=X):
    return Polynomial(base, tuple((e, coef_build(c)) for e, c in ts))


def sym_value(ts, env, base_value):
    return sum(coef_value(c, env) * base_value ** e for e, c in ts)


def eval_twice(e, env):
    """Evaluate; a symbolic intermediate result (coefficients are handed
    through unevaluated by map_polynomial, judged in poly-eval) is evaluated
    once more.  Returns (value, was_symbolic)."""
    v = EvaluationMapper(env)(e)
    if isinstance(v, prim.Expression):
        return EvaluationMapper(env)(v), True
    return v, False


def show_sym(ts):
    return " + ".join(f"({coef_build(c)})*x^{e}" for e, c in ts) or "0"

# }}}


# {{{ poly-eval, asprim

def check_poly_eval(spec):
    res = Result()
    ts = symterms(spec.get("p"))
    sym = any_symbolic(ts)
    env = env_of(spec, ints_only=sym)
    _need("x" in env, "env binds x")
    p = sym_poly(ts)
    want = sym_value(ts, env, env["x"])
    exps = [0] + [e for e, _ in ts]
    gap = any(b - a > 1 for a, b in zip(exps, exps[1:]))
    res.label("eval:symbolic" if sym else "eval:numeric")
    if gap:
        res.label("eval:exponent-gap")
    if env["x"] == 0:
        res.label("eval:at-zero")
    res.nontrivial = len(ts) >= 3 and gap
    for name, fn in EVAL_VARIANTS:
        try:
            v = fn(p, env)
        except Exception as e:
            res.fail(f"eval:{name}-raises:{_exc(e)}", f"{show_sym(ts)} at {env}: {e!r}")
            continue
        res.compared()
        if isinstance(v, prim.Expression):
            res.fail("eval:coefficient-not-evaluated",
                     f"{name} on {show_sym(ts)} with {env} returned the expression {v}")
            try:
                v = EvaluationMapper(env)(v)
            except Exception as e:
                res.fail(f"eval:second-pass-raises:{_exc(e)}", repr(e))
                continue
        if v != want:
            res.fail("eval:value", f"{name} on {show_sym(ts)} with {env}: {v!r}, "
                     f"reference {want!r}")
    res.sample = {"evaluate": show_sym(ts), "env": {k: str(v) for k, v in env.items()}}
    return res


def check_asprim(spec):
    res = Result()
    ts = symterms(spec.get("p"))
    env = env_of(spec, ints_only=any_symbolic(ts))
    _need("x" in env, "env binds x")
    p = sym_poly(ts)
    want = sym_value(ts, env, env["x"])
    res.nontrivial = len(ts) >= 2
    res.label("asprim")
    try:
        e = p.as_primitives()
    except Exception as exc:
        return res.fail(f"asprim:raises:{_exc(exc)}",
                        f"({show_sym(ts)}).as_primitives(): {exc!r}")
    res.compared()
    if isinstance(e, Polynomial):
        return res.fail("asprim:still-a-polynomial", repr(e))
    try:
        v, _ = eval_twice(e, env)
    except Exception as exc:
        return res.fail(f"asprim:result-unevaluable:{_exc(exc)}", f"{e!r}: {exc!r}")
    if v != want:
        res.fail("asprim:value", f"({show_sym(ts)}).as_primitives() = {e}, value {v!r} "
                 f"at {env}, reference {want!r}")
    return res

# }}}


# {{{ poly-map: coefficient-rewriting IdentityMapper subclass

def const_rule(rw):
    c = rw.get("const", {"kind": "none"})
    _need(isinstance(c, dict), "rw const")
    kind = c.get("kind", "none")
    if kind == "none":
        return lambda v: v
    if kind == "scale":
        k = c.get("k")
        _need(_is_int(k), "scale k")
        return lambda v: v * k
    if kind == "replace":
        f, t = c.get("from"), c.get("to")
        _need(_is_int(f) and _is_int(t), "replace")
        return lambda v: t if v == f else v
    if kind == "ge":
        t, d = c.get("t"), c.get("add")
        _need(_is_int(t) and _is_int(d), "ge")
        return lambda v: v + d if v >= t else v
    raise HarnessError(f"rw kind {kind!r}")


def rename_of(rw):
    rn = rw.get("rename", {})
    _need(isinstance(rn, dict) and all(isinstance(v, str) for v in rn.values()),
          "rename")
    return rn


def rw_spec(c, rule, rename):
    if _is_int(c):
        return rule(c)
    _need(not _is_number_spec(c), "poly-map takes integer coefficients")
    if c[0] == "Var":
        return ["Var", rename.get(c[1], c[1])]
    if c[0] == "Const":
        return ["Const", "int", rule(c[2])]
    return [c[0], [rw_spec(ch, rule, rename) for ch in c[1]]]


class Rewriter(IdentityMapper):
    def __init__(self, rule, rename):
        super().__init__()
        self.rule = rule
        self.rename = rename

    def map_constant(self, expr):
        new = self.rule(expr)
        return expr if new == expr else new

    def map_variable(self, expr):
        if expr.name in self.rename and self.rename[expr.name] != expr.name:
            return prim.Variable(self.rename[expr.name])
        return expr


def _judge_mapped(res, pre, got, ts, new_ts, new_base, base_value, env, p):
    """Shared by poly-map and poly-subst: *got* against the JSON-level model."""
    res.compared()
    if not isinstance(got, Polynomial):
        return res.fail(f"{pre}:not-a-polynomial", repr(got))
    if not (got.base == new_base):
        return res.fail(f"{pre}:base", f"base {got.base!r}, expected {new_base!r}")
    try:
        got_exps = [e for e, _ in got.data]
    except Exception as e:
        return res.fail(f"{pre}:bad-data", repr(e))
    exps = [e for e, _ in ts]
    if got_exps != exps:
        it = iter(exps)
        sub = all(e in it for e in got_exps)
        return res.fail(f"{pre}:terms-lost" if sub else f"{pre}:exponents",
                        f"{show_sym(ts)} -> exponents {got_exps}, expected {exps}")
    for (e, gc), (_, c) in zip(got.data, new_ts):
        wc = coef_build(c)
        res.compared()
        if not (gc == wc) or isinstance(gc, prim.Expression) != isinstance(
                wc, prim.Expression):
            return res.fail(f"{pre}:coefficient",
                            f"{show_sym(ts)}: coefficient of x^{e} is {gc!r}, "
                            f"expected {wc!r}")
    want = sym_value(new_ts, env, base_value)
    try:
        v, _ = eval_twice(got, env)
    except Exception as e:
        return res.fail(f"{pre}:result-unevaluable:{_exc(e)}", f"{got!r}: {e!r}")
    res.compared()
    if v != want:
        res.fail(f"{pre}:value", f"{got!r} at {env}: {v!r}, reference {want!r}")
    return res


def map_model(spec):
    ts = symterms(spec.get("p"))
    rw = spec.get("rw", {})
    _need(isinstance(rw, dict), "rw")
    rule, rename = const_rule(rw), rename_of(rw)
    new_ts = [(e, rw_spec(c, rule, rename)) for e, c in ts]
    changed = [new != old for (_, new), (_, old) in zip(new_ts, ts)]
    base_name = rename.get("x", "x")
    return ts, rule, rename, new_ts, changed, base_name


def check_poly_map(spec):
    res = Result()
    ts, rule, rename, new_ts, changed, base_name = map_model(spec)
    env = env_of(spec, ints_only=any_symbolic(ts, new_ts))
    _need(base_name in env, "env binds the base")
    p = sym_poly(ts)
    if base_name != "x":
        res.label("map:base-renamed")
    if any(changed) and not all(changed):
        res.label("map:partial-change")
    if any(changed) and not changed[0]:
        res.label("map:first-term-unchanged")
    if not any(changed) and base_name == "x":
        res.label("map:identity")
    res.nontrivial = len(ts) >= 3 and (any(changed) or base_name != "x")
    try:
        got = Rewriter(rule, rename)(p)
    except Exception as e:
        return res.fail(f"map:raises:{_exc(e)}", f"{show_sym(ts)}: {e!r}")
    _judge_mapped(res, "map", got, ts, new_ts, prim.Variable(base_name),
                  env[base_name], env, p)
    if not any(changed) and base_name == "x" and res.ok and not (got == p):
        res.fail("map:identity-changed", f"{p!r} -> {got!r}")
    res.sample = {"polynomial": show_sym(ts), "rewrite": spec.get("rw"),
                  "expected": show_sym(new_ts)}
    return res

# }}}


# {{{ poly-subst

def subst_spec(c, subst, top=True):
    if _is_number_spec(c):
        return c
    if c[0] == "Var":
        if c[1] in subst:
            r = subst[c[1]]
            if _is_int(r):
                return r if top else ["Const", "int", r]
            return r
        return c
    if c[0] == "Const":
        return c
    return [c[0], [subst_spec(ch, subst, top=False) for ch in c[1]]]


def names_in(c):
    if _is_number_spec(c) or c[0] == "Const":
        return set()
    if c[0] == "Var":
        return {c[1]}
    return set().union(*(names_in(ch) for ch in c[1]))


def subst_model(spec):
    ts = symterms(spec.get("p"))
    subst = spec.get("subst", {})
    _need(isinstance(subst, dict), "subst")
    for v in subst.values():
        if not _is_int(v):
            _need(not _is_number_spec(v), "subst value")
            _coef_validate(v, top=False)
    new_ts = [(e, subst_spec(c, subst)) for e, c in ts]
    # "changed" = rebuilt by the mapper: the coefficient mentions a substituted
    # name (x -> x also yields a new, merely equal object)
    changed = [bool(names_in(old) & set(subst)) for _, old in ts]
    return ts, subst, new_ts, changed


def check_poly_subst(spec):
    res = Result()
    ts, subst, new_ts, changed = subst_model(spec)
    env = env_of(spec, ints_only=any_symbolic(ts, new_ts) or "x" in subst)
    p = sym_poly(ts)
    base_spec = subst_spec(["Var", "x"], subst)
    new_base = coef_build(base_spec)
    try:
        base_value = coef_value(base_spec, env)
        sym_value(new_ts, env, base_value)
    except HarnessError:
        raise
    if "x" in subst:
        res.label("subst:base-replaced")
    if any(changed):
        res.label("subst:coefficient-replaced")
    if any(changed) and not all(changed):
        res.label("map:partial-change")
    res.nontrivial = len(ts) >= 3 and (any(changed) or "x" in subst)
    live = {k: coef_build(v) for k, v in subst.items()}
    try:
        got = SubstitutionMapper(make_subst_func(live))(p)
    except Exception as e:
        return res.fail(f"subst:raises:{_exc(e)}", f"{show_sym(ts)} with {subst}: {e!r}")
    _judge_mapped(res, "subst", got, ts, new_ts, new_base, base_value, env, p)
    # the default entry point (memoizing mapper: equal sub-expressions come back
    # as one shared object, so "unchanged" operands need not be identical)
    try:
        got2 = pymbolic.substitute(p, live)
    except Exception as e:
        return res.fail(f"substitute:raises:{_exc(e)}", f"{show_sym(ts)}: {e!r}")
    _judge_mapped(res, "substitute", got2, ts, new_ts, new_base, base_value, env, p)
    res.sample = {"polynomial": show_sym(ts), "substitution": subst,
                  "expected": show_sym(new_ts)}
    return res

# }}}


# {{{ quotient / Rational

def check_quotient(spec):
    res = Result()
    a, b, ctor = spec.get("a"), spec.get("b"), spec.get("ctor", "quotient")
    _need(ctor in ("quotient", "Rational"), "ctor")
    res.label("quotient:" + ctor)
    _need(_is_int(a) and _is_int(b) and max(abs(a), abs(b)) < 2 ** 200, "ints")
    if b == 0:
        return res.skip("zero denominator")
    want = a / b
    small = abs(a) < 2 ** 53 and abs(b) < 2 ** 53
    res.nontrivial = b < 0 or math.gcd(a, b) > 1 or not small
    if b < 0:
        res.label("quotient:negative-denominator")
    if not small:
        res.label("quotient:big")

    def close(v, w):
        if small:
            return v == w
        return abs(v - w) <= 2.0 ** -50 * abs(w)
    try:
        q = prim.quotient(a, b) if ctor == "quotient" else Rational(a, b)
    except Exception as e:
        return res.fail(f"quotient:raises:{_exc(e)}", f"{ctor}({a}, {b}): {e!r}")
    if ctor == "quotient" and b == 1:
        res.compared()
        if isinstance(q, prim.Expression) or q != a:
            res.fail("quotient:unit-denominator", f"quotient({a}, 1) = {q!r}")
        return res
    if not isinstance(q, Rational):
        return res.fail("quotient:not-a-rational", f"{ctor}({a}, {b}) = {q!r}")
    res.compared(2)
    try:
        if not q.denominator > 0:
            res.fail("quotient:sign-not-normalised",
                     f"{ctor}({a}, {b}): denominator {q.denominator!r}")
        elif not (close(q.numerator, a if b > 0 else -a) and close(q.denominator, abs(b))):
            res.fail("quotient:parts", f"{ctor}({a}, {b}) -> {q.numerator!r} / "
                     f"{q.denominator!r}")
    except Exception as e:
        res.fail(f"quotient:parts-raise:{_exc(e)}", repr(e))
    for name, fn in (("EvaluationMapper", lambda: EvaluationMapper({})(q)),
                     ("evaluate", lambda: pymbolic.evaluate(q)),
                     ("FloatEvaluationMapper", lambda: FloatEvaluationMapper({})(q))):
        try:
            v = fn()
        except Exception as e:
            res.fail(f"quotient:{name}-raises:{_exc(e)}", f"{ctor}({a}, {b}): {e!r}")
            continue
        res.compared()
        if isinstance(v, prim.Expression) or not close(v, want):
            res.fail("quotient:value", f"{name} of {ctor}({a}, {b}) = {v!r}, a/b = {want!r}")
    res.sample = {ctor: [a, b], "evaluates_to": want}
    return res

# }}}


CHECKS = {"ipow": check_ipow, "euclid": check_euclid, "gcd-many": check_gcd_many,
          "euclid-poly": check_euclid_poly, "fft": check_fft, "poly": check_poly,
          "poly-eval": check_poly_eval, "asprim": check_asprim,
          "poly-map": check_poly_map, "poly-subst": check_poly_subst,
          "quotient": check_quotient}


# {{{ known findings (predicates as narrow as the root causes allow)

def _k_f04(sub, spec, fail):
    # IdentityMapper.map_polynomial consumes its generator in the identity test:
    # with the base unchanged, every term up to and including the first changed
    # coefficient is lost
    if sub == "poly-map" and fail.kind == "map:terms-lost":
        _, _, _, _, changed, base_name = map_model(spec)
        return base_name == "x" and any(changed)
    if sub == "poly-subst" and fail.kind == "subst:terms-lost":
        _, subst, _, changed = subst_model(spec)
        return "x" not in subst and any(changed)
    if sub == "poly-subst" and fail.kind == "substitute:terms-lost":
        # memoizing mapper: a coefficient is also "changed" (rebuilt around a
        # shared equal operand) when a variable occurs in it or before it twice
        _, subst, _, changed = subst_model(spec)
        return "x" not in subst
    return False


def _k_f25(sub, spec, fail):
    # as_primitives() keys its evaluation context by Variable objects
    return sub == "asprim" and fail.kind == "asprim:raises:UnknownVariableError"


def _k_f26(sub, spec, fail):
    # _sort_uniq keeps last_exp after popping a cancelled term
    if sub != "poly" or spec.get("op") not in ("mul", "pow"):
        return False
    op = spec["op"]
    if fail.kind not in (f"{op}:coefficients", f"{op}:raises:IndexError"):
        return False
    da = R.from_terms(R.terms(spec.get("a"), max_exp=60))
    if op == "mul":
        db = R.from_terms(R.terms(spec.get("b"), max_exp=60))
        return R.cancellation_pattern(da, db) == "prefix"
    return pow_hits_prefix(da, spec.get("n", 2))


def _k_f27(sub, spec, fail):
    # Polynomial.__rsub__ computes (-other) + self
    return (sub == "poly" and spec.get("op") == "srsub"
            and fail.kind == "srsub:coefficients")


def _k_bool(sub, spec, fail):
    # Polynomial defines only the Python 2 __nonzero__: every polynomial is truthy,
    # so Euclid's "while r:" runs into the division by the zero polynomial
    return ((sub == "euclid-poly" and fail.kind in (
                "euclid-poly:raises:ZeroDivisionError",
                "euclid-poly:gcd-raises:ZeroDivisionError"))
            or (sub == "poly" and fail.kind == "zero-polynomial-truthiness"))


def _k_evalcoeff(sub, spec, fail):
    # EvaluationMapper.map_polynomial does not evaluate the coefficients
    return (sub == "poly-eval" and fail.kind == "eval:coefficient-not-evaluated"
            and any(is_symbolic(c) for _, c in symterms(spec.get("p"))))


KNOWN = {"F04": _k_f04, "F25": _k_f25, "F26": _k_f26, "F27": _k_f27,
         "F-C19-bool": _k_bool, "F-C19-evalcoeff": _k_evalcoeff}

# }}}


# {{{ generation

def generate(ctx):
    import random

    from pbt import c19_gen as G

    def judge(sub, spec):
        # a mutant that loops costs CASE_TIMEOUT_S per case: stop feeding a
        # sub-check once it has produced a handful of hangs
        if ctx.fail_counts.get(f"{sub}|hang", 0) >= 2:
            ctx.extra[f"not-run-after-hangs:{sub}"] += 1
            return None
        return ctx.judge(sub, spec)

    thorough = ctx.tier != "quick"
    rnd = random.Random(ctx.seed * 7919 + 17)   # same stream in every shard

    # -- enumerated spaces ---------------------------------------------------
    i = 0
    cells = 0
    for dom, xs in (("int", (3, -2, 2 ** 70 + 1)), ("frac", ([2, 3], [-5, 4])),
                    ("mat", ([[1, 1], [0, 1]], [[0, 1], [-1, 2]], [[2, -1], [3, 1]])),
                    ("str", ("a", "ab"))):
        for x in xs:
            for n in range(0, 65):
                i += 1
                if ctx.mine(i):
                    judge("ipow", {"dom": dom, "x": x, "n": n, "one": bool(n % 2)})
                    cells += 1
    ctx.exhaustive["integer_power: n in 0..64 x 10 elements of 4 monoids"] = cells

    cells = 0
    for q in range(-30, 31):
        for r in range(-30, 31):
            i += 1
            if ctx.mine(i):
                judge("euclid", {"q": q, "r": r})
                cells += 1
    ctx.exhaustive["euclid/gcd/lcm: integer pairs in [-30,30]^2"] = cells

    cells = 0
    for a in range(-12, 13):
        for b in range(-12, 13):
            for ctor in ("quotient", "Rational"):
                i += 1
                if b and ctx.mine(i):
                    judge("quotient", {"a": a, "b": b, "ctor": ctor})
                    cells += 1
    ctx.exhaustive["quotient/Rational: a in [-12,12], b in [-12,12]\\{0}"] = cells

    cells = 0
    max_len = 64 if thorough else 32
    for n in range(1, max_len + 1):
        for sign in (1, -1):
            for dtype in ("c128", "i64"):
                x = [[rnd.randint(-4, 4), rnd.randint(-4, 4)] for _ in range(n)]
                i += 1
                if ctx.mine(i):
                    judge("fft", {"x": x, "sign": sign, "dtype": dtype,
                                  "sym": dtype == "c128",
                                  **({"warm": ("c64", "f32")[n % 2]} if n % 3 == 0 else {})})
                    cells += 1
            if ctx.over_budget():
                break
    ctx.exhaustive[f"fft/ifft/sym_fft: every length 1..{max_len} x sign x dtype"] = cells

    # -- generated -----------------------------------------------------------
    plan = (        # small sub-checks first: a budget overrun then cuts the bulk only
        ("fft", G.fft_case(), 200, 8000),
        ("asprim", G.asprim_case(), 300, 4000),
        ("gcd-many", G.gcd_many_case(), 800, 20000),
        ("ipow", G.ipow_case(), 1600, 40000),
        ("euclid-poly", G.euclid_poly_case(), 1600, 40000),
        ("euclid", G.euclid_case(), 3000, 100000),
        ("quotient", G.quotient_case(), 3000, 80000),
        ("poly-eval", G.poly_eval_case(), 3000, 80000),
        ("poly-map", G.poly_map_case(), 3000, 80000),
        ("poly-subst", G.poly_subst_case(), 3000, 80000),
        ("poly", G.poly_case(), 12000, 400000),
    )
    for sub, strat, nq, nt in plan:
        if ctx.over_budget():
            break
        ctx.run_given(strat, lambda s, sub=sub: judge(sub, s), ctx.n(nq, nt))

# }}}


MANIFEST = {
    "text": ("Generated-input search against independent oracles: integer_power vs "
             "repeated multiplication in four monoids (ints, Fractions, non-commutative "
             "2x2 matrices, string concatenation) incl. refusal of negative exponents; "
             "extended_euclidean/gcd/gcd_many/lcm vs Bezout identity, divisibility and "
             "math.gcd/math.lcm, exhaustive on [-30,30]^2 plus 128-bit pairs, and on "
             "polynomial pairs with exact remainder chains vs a dict reference model; "
             "fft/ifft/sym_fft vs the O(n^2) DFT for every length 1..32 (quick) / 1..64 "
             "(thorough) and random lengths to 360; Polynomial + - * ** divmod // % / and "
             "scalar/reflected variants vs a dict-based reference polynomial (exact "
             "coefficients and value homomorphism at Fraction points through all four "
             "evaluator entry points), incl. products with cancelling middle terms; "
             "coefficient rewriting by an IdentityMapper subclass and SubstitutionMapper "
             "vs the same rewrite on the JSON spec; quotient()/Rational on integer "
             "pairs vs a/b. Exploration, not proof."),
    "note": ("Trusted: pbt/polyref.py, pbt/dft_ref.py, math.gcd/lcm, Fraction arithmetic; "
             "FFT tolerance 1e-9*n*max(1,|ref|); polynomial Euclid only on pairs whose "
             "remainder chain divides exactly. Open findings excluded by predicate: "
             "F04, F25, F26, F27, F-C19-bool, F-C19-evalcoeff."),
    "technique": ("property-based testing (Hypothesis) + exhaustive small spaces vs "
                  "reference models (dict polynomials, O(n^2) DFT, big-integer arithmetic)"),
    "design_ref": "DESIGN.md section 4, C19",
}
