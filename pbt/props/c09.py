"""C09 - dependency, node-count and flop analyses are exact.

Sub-checks
  deps    DependencyMapper / CachedDependencyMapper under all 2*2*3*2 flag settings and the
          three composite_leaves values vs a reference recursion over pbt.walk
  closed  with all composite kinds off the result is the variable set, and evaluating in an
          environment binding exactly those names never raises UnknownVariableError
  count   get_num_nodes == number of distinct sub-expressions
  flops   FlopCounter / CSEAwareFlopCounter vs an independent operation count
"""
from __future__ import annotations

import itertools

from hypothesis import strategies as st

import pymbolic.primitives as p
from pymbolic.mapper.analysis import get_num_nodes
from pymbolic.mapper.dependency import CachedDependencyMapper, DependencyMapper
from pymbolic.mapper.evaluator import EvaluationMapper, UnknownVariableError
from pymbolic.mapper.flop_counter import CSEAwareFlopCounter, FlopCounter

from pbt import envs, strategies as S, walk
from pbt.refsem import exc_site
from pbt.runner import Result
from pbt.spec import build, build_shared, twin_first, twin_how

PROP = "C09"
LEVEL = "exploration"
RULE = ("Generated trees over the node types the collectors handle (composite leaves "
        "nested in one another: subscripts, look-ups, positional and keyword calls, CSEs, "
        "slices, tuple indices) analysed under every flag setting, plain and cached; "
        "node counts and flop counts on trees with engineered repetition and shared CSEs. "
        "Non-trivial = >=2 composite-leaf kinds nested in each other, or a repeated CSE; "
        "distinct by sha1 of the case spec.")
ASSUMPTIONS = [
    "reference dependency recursion and operation count in this module over pbt/walk.py children",
    "count/flops cases use constants that are not equal across types (no 1 vs 1.0 vs True), so 'distinct' is unambiguous",
    "a flop is an addition, multiplication, true/floor division or power (remainder, shifts, bitwise, comparisons cost nothing), as FlopCounterBase documents by construction",
]
HEALTH = {"nested-composites": 0.06, "has-kwcall": 0.03, "repeated-cse": 0.02}

FLAGS = [dict(include_subscripts=a, include_lookups=b, include_calls=c, include_cses=d)
         for a in (True, False) for b in (True, False)
         for c in (True, False, "descend_args") for d in (True, False)]
FLAGS += [dict(composite_leaves=True), dict(composite_leaves=False),
          dict(composite_leaves=None, include_cses=True)]


def _effective(fl):
    e = dict(include_subscripts=True, include_lookups=True, include_calls=True,
             include_cses=False)
    e.update({k: v for k, v in fl.items() if k != "composite_leaves"})
    if fl.get("composite_leaves") is True:
        e.update(include_subscripts=True, include_lookups=True, include_calls=True)
    if fl.get("composite_leaves") is False:
        e.update(include_subscripts=False, include_lookups=False, include_calls=False)
    return e


def ref_deps(n, fl):
    """list of node objects (duplicates possible)"""
    if isinstance(n, p.Variable):
        return [n]
    if isinstance(n, p.Subscript):
        if fl["include_subscripts"]:
            return [n]
    elif isinstance(n, p.Lookup):
        if fl["include_lookups"]:
            return [n]
    elif isinstance(n, (p.Call, p.CallWithKwargs)):
        if fl["include_calls"] == "descend_args":
            out = []
            for c in n.parameters:
                out += ref_deps(c, fl)
            if isinstance(n, p.CallWithKwargs):
                for c in n.kw_parameters.values():
                    out += ref_deps(c, fl)
            return out
        if fl["include_calls"]:
            return [n]
    elif isinstance(n, p.CommonSubexpression):
        if fl["include_cses"]:
            return [n]
    out = []
    for _, c in walk.children(n):
        out += ref_deps(c, fl)
    return out


def _keyset(nodes):
    return {walk.key(n, strict=False) for n in nodes}


COMPOSITE = (p.Subscript, p.Lookup, p.Call, p.CallWithKwargs, p.CommonSubexpression)


def _nested_composites(e):
    def rec(n, above):
        kinds = set(above)
        hit = False
        if isinstance(n, COMPOSITE):
            k = type(n).__name__
            if above and (set(above) - {k}):
                hit = True
            kinds = set(above) | {k}
        return hit or any(rec(c, kinds) for _, c in walk.children(n))
    return rec(e, set())


def check_deps(spec):
    res = Result()
    e = build(spec)
    if twin_first(spec, twin_how(spec),
                  lambda t: DependencyMapper(composite_leaves=True)(t),
                  lambda t: CachedDependencyMapper(include_cses=True)(t)):
        res.label("twin-first")
    for fl in FLAGS:
        eff = _effective(fl)
        want = _keyset(ref_deps(e, eff))
        for cls in (DependencyMapper, CachedDependencyMapper):
            res.compared()
            try:
                inst = cls(**fl)
                got = inst(e)
            except Exception as exc:
                res.fail(f"{cls.__name__}:raised:" + exc_site(exc),
                         f"{cls.__name__}({fl})({e!r}): {type(exc).__name__}: {exc}")
                continue
            # the same instance asked again about parts of what it has just analysed
            for _, sub in walk.children(e)[:3]:
                res.compared()
                try:
                    g2 = _keyset(inst(sub))
                except Exception as exc:
                    res.fail(f"{cls.__name__}:reused:raised:" + exc_site(exc),
                             f"second call on {sub!r}: {exc!r}")
                    continue
                w2 = _keyset(ref_deps(sub, eff))
                if g2 != w2:
                    res.fail(f"{cls.__name__}:reused-instance-differs",
                             f"{cls.__name__}({fl}) after analysing {e!r}: second call on "
                             f"{sub!r} gives {sorted(map(str, g2))[:6]}, expected "
                             f"{sorted(map(str, w2))[:6]}")
                    break
            gk = _keyset(got)
            tag = ",".join(f"{k[8:] if k.startswith('include_') else k}={v}"
                           for k, v in sorted(eff.items()))
            if want - gk:
                miss = [n for n in ref_deps(e, eff)
                        if walk.key(n, strict=False) in want - gk][0]
                res.fail(f"{cls.__name__}:missing:{type(miss).__name__}",
                         f"{cls.__name__}({fl})({e!r}) misses {miss!r}")
            if gk - want:
                extra = [n for n in got if walk.key(n, strict=False) in gk - want][0]
                res.fail(f"{cls.__name__}:reports-absent:{type(extra).__name__}",
                         f"{cls.__name__}({fl})({e!r}) reports {extra!r} [{tag}]")
    if _nested_composites(e):
        res.label("nested-composites")
        res.nontrivial = True
    if "CallWithKwargs" in repr(spec):
        res.label("has-kwcall")
    res.sample = repr(e)[:300]
    return res


def check_closed(spec):
    """evaluable tree: variable set is sufficient for evaluation"""
    res = Result()
    e = build(spec["expr"])
    res.compared()
    try:
        got = DependencyMapper(composite_leaves=False)(e)
    except Exception as exc:
        return res.fail("DependencyMapper:raised:" + exc_site(exc), f"{e!r}: {exc!r}")
    names = set()
    for d in got:
        if not isinstance(d, p.Variable):
            res.fail("composite-leaves-off-reports-non-variable", f"{e!r}: {d!r}")
        else:
            names.add(d.name)
    if names != walk.variables(e):
        res.fail("variable-set-differs", f"{e!r}: {sorted(names)} vs "
                 f"{sorted(walk.variables(e))}")
    env = envs.build_env(spec["env"])
    env = {k: v for k, v in env.items() if k in names}
    res.compared()
    try:
        EvaluationMapper(env)(e)
    except UnknownVariableError as exc:
        res.fail("evaluation-needs-unreported-variable",
                 f"{e!r}: unknown variable {exc} although all reported dependencies are bound")
    except Exception:
        pass
    res.nontrivial = len(names) >= 2 and _nested_composites(e)
    res.sample = {"expr": repr(e)[:200], "variables": sorted(names)}
    return res


def ref_flops(n, seen=None):
    """seen: set of CSE keys already counted (CSE-aware) or None (plain)"""
    if isinstance(n, p.CommonSubexpression) and seen is not None:
        k = walk.key(n, strict=False)
        if k in seen:
            return 0
        seen.add(k)
        return ref_flops(n.child, seen)
    own = 0
    if isinstance(n, (p.Sum, p.Product)):
        own = max(0, len(n.children) - 1)
    elif isinstance(n, (p.Quotient, p.FloorDiv, p.Power)):
        own = 1
    return own + sum(ref_flops(c, seen) for _, c in walk.children(n))


def _ambiguous(e):
    seen = {}
    for _, n in walk.occurrences(e):
        if not walk.children(n):
            continue
        k = (type(n).__name__, repr(walk.key(n, strict=False)))
        sk = repr(walk.key(n, strict=True))
        if seen.setdefault(k, sk) != sk:
            return True
    return False


def check_count(spec):
    res = Result()
    e = build_shared(spec) if isinstance(spec, list) else build(spec)
    if _ambiguous(e):
        # composites that are == but differ in a constant's type are one memoization
        # key: which of their leaves get counted depends on traversal order
        return res.skip("count-ambiguous:retyped-composites")
    res.compared()
    try:
        got = get_num_nodes(e)
    except Exception as exc:
        return res.fail("get_num_nodes:raised:" + exc_site(exc), f"{e!r}: {exc!r}")
    distinct = {(type(n).__name__, walk.key(n, strict=False))
                for _, n in walk.occurrences(e)}
    if got != len(distinct):
        res.fail("node-count-differs",
                 f"get_num_nodes({e!r}) = {got}, distinct sub-expressions = {len(distinct)}")
    n_occ = walk.size(e)
    if n_occ > len(distinct):
        res.label("has-repetition")
    res.nontrivial = n_occ > len(distinct) and len(distinct) >= 4
    res.sample = {"expr": repr(e)[:200], "distinct": len(distinct), "occurrences": n_occ}
    return res


def check_flops(spec):
    res = Result()
    e = build(spec)
    if twin_first(spec, twin_how(spec), lambda t: FlopCounter()(t),
                  lambda t: CSEAwareFlopCounter()(t), get_num_nodes):
        res.label("twin-first")
    for name, fn, want in (
            ("FlopCounter", lambda: FlopCounter()(e), ref_flops(e)),
            ("CSEAwareFlopCounter", lambda: CSEAwareFlopCounter()(e), ref_flops(e, set()))):
        res.compared()
        try:
            got = fn()
        except Exception as exc:
            res.fail(f"{name}:raised:" + exc_site(exc), f"{e!r}: {type(exc).__name__}: {exc}")
            continue
        if got != want:
            res.fail(f"{name}:count-differs", f"{name}()({e!r}) = {got}, independent count {want}")
    cses = [walk.key(n, strict=False) for _, n in walk.occurrences(e)
            if isinstance(n, p.CommonSubexpression)]
    if len(cses) > len(set(cses)):
        res.label("repeated-cse")
        res.nontrivial = True
    res.sample = {"expr": repr(e)[:200], "flops": ref_flops(e),
                  "cse-aware": ref_flops(e, set())}
    return res


CHECKS = {"deps": check_deps, "closed": check_closed, "count": check_count,
          "flops": check_flops}

DEP_NODES = tuple(n for n in S.ALL_COMPOSITE if n not in ("Derivative", "Substitution")) \
    + ("Subscript", "Lookup", "Call", "CallWithKwargs", "CommonSubexpression") * 4
# constants that are never equal across types
FRAG_CNT = S.EVALUABLE.but(np_consts=False, bool_consts=False, big_consts=False,
                           int_consts=(-3, -2, 2, 3, 4, 5, 7), float_consts=(0.5, 2.5, -1.5),
                           cse_prefixes=(None, "u"))


@st.composite
def repeated(draw, depth=3):
    """tree with engineered repetition / shared CSEs"""
    pool = [draw(S.expr("NUM", 2, FRAG_CNT)) for _ in range(2)]
    cse = ["CommonSubexpression", pool[0], draw(st.sampled_from((None, "u"))), "pymbolic_eval"]
    pool.append(cse)
    pool.append(["CommonSubexpression", ["Sum", [cse, pool[1]]], None, "pymbolic_eval"])

    def rec(depth):
        if depth <= 0 or draw(st.integers(0, 3)) == 0:
            return draw(st.sampled_from(pool))
        n = draw(st.sampled_from(("Sum", "Product", "Quotient", "Power", "FloorDiv", "If",
                                  "Call", "Remainder", "Min")))
        if n in ("Sum", "Product", "Min"):
            return [n, [rec(depth - 1) for _ in range(draw(st.integers(1, 4)))]]
        if n == "Power":
            return ["Power", rec(depth - 1), ["Const", "int", draw(st.integers(2, 3))]]
        if n == "If":
            return ["If", ["Comparison", rec(depth - 1), "<", ["Const", "int", 2]],
                    rec(depth - 1), rec(depth - 1)]
        if n == "Call":
            return ["Call", ["Var", "f2"], [rec(depth - 1), rec(depth - 1)]]
        return [n, rec(depth - 1), rec(depth - 1)]
    return rec(depth)


def generate(ctx):
    ctx.run_given(S.any_expr(4, nodes=DEP_NODES), lambda s: ctx.judge("deps", s),
                  ctx.n(2500, 60000))

    @st.composite
    def closed_case(draw):
        frag = S.EVALUABLE.but(poison=False)
        return {"expr": draw(S.expr(draw(st.sampled_from(("INT", "NUM", "BOOL"))),
                                    draw(st.integers(1, 5)), frag)),
                "env": draw(S.env_for(frag, unbound=False))}
    ctx.run_given(closed_case(), lambda s: ctx.judge("closed", s), ctx.n(2500, 60000))
    ctx.run_given(repeated(), lambda s: (ctx.judge("count", s), ctx.judge("flops", s)),
                  ctx.n(2500, 60000))
    ctx.run_given(S.expr("NUM", 4, FRAG_CNT),
                  lambda s: (ctx.judge("count", s), ctx.judge("flops", s)),
                  ctx.n(1500, 40000))
    # node counts over every node type the walk mapper handles (slices with zero
    # bounds, keyword calls, substitutions, ...)
    ctx.run_given(S.any_expr(4), lambda s: ctx.judge("count", s), ctx.n(2000, 50000))

    @st.composite
    def array_case(draw):
        # object arrays of rank 1-3, bare or as a call argument: one node per distinct
        # element plus the array itself, nothing for rows or planes
        shape = draw(st.sampled_from(([2], [1, 2], [2, 1], [2, 2], [2, 1, 2], [3], [2, 3],
                                      [1, 1], [0])))
        k = 1
        for q in shape:
            k *= q
        pool = [draw(S.any_expr(2, wild=False, nan=False)) for _ in range(2)]
        items = [draw(st.sampled_from(pool)) if draw(st.booleans())
                 else draw(S.any_expr(1, wild=False, nan=False)) for _ in range(k)]
        arr = ["NpArray", items] if len(shape) == 1 else ["NpArray", items, shape]
        return arr if draw(st.booleans()) else ["Call", ["Var", "f"], [arr, pool[0]]]
    ctx.run_given(array_case(), lambda s: ctx.judge("count", s), ctx.n(600, 12000))


MANIFEST = {
    "text": ("Generated trees with composite leaves nested in one another are analysed "
             "under all 24 flag settings plus the composite_leaves shorthands, plain and "
             "cached, and both inclusions (nothing missing, nothing absent reported) are "
             "compared with a reference recursion; the all-off result is additionally shown "
             "sufficient for evaluation; node counts and both flop counters are compared "
             "with independent counts on trees with engineered repetition and shared CSEs."),
    "note": "Trusted: the reference recursions in pbt/props/c09.py over pbt/walk.py children.",
    "technique": "property-based testing vs reference analyses; exhaustive flag settings per generated tree",
    "design_ref": "DESIGN.md section 4, C09",
}
