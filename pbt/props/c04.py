"""C04 - mapper dispatch and the stock traversals reach every node correctly.

Sub-checks
  dispatch   generated user class hierarchies x generated handler subsets vs a model of the
             documented resolution order; Mapper.__call__, CachedMapper.__call__, rec_fallback
  foreign    numbers/arrays/lists/tuples routed to their handlers, anything else ValueError
  identity   IdentityMapper / CachedIdentityMapper: equal tree, same object when unchanged;
             renaming subclass vs generic rebuild, sharing, extra arguments reach every leaf
  walk       WalkMapper: visit once per occurrence before children, post_visit after them,
             pruning, extra arguments unchanged
  combine    CombineMapper / Collector (+cached): every leaf occurrence folded in
  callback   CallbackMapper: callback sees every node with the arguments, rec re-enters
  refusal    every (stock traversal, node class) pair: handled or raises
             UnsupportedExpressionError / NotImplementedError
"""
from __future__ import annotations

import itertools
from collections import Counter

import numpy as np
from hypothesis import strategies as st

import pymbolic.primitives as p
from pymbolic.mapper import (CachedCollector, CachedCombineMapper, CachedIdentityMapper,
                             CachedMapper, CachedWalkMapper, CallbackMapper, Collector,
                             CombineMapper, IdentityMapper, Mapper,
                             UnsupportedExpressionError, WalkMapper)

from pbt import strategies as S, usertypes, walk
from pbt.refsem import exc_site
from pbt.runner import Result
from pbt.spec import CONCRETE, HarnessError, build, build_shared, subspecs

PROP = "C04"
LEVEL = "exploration"
RULE = ("Dispatch: generated class hierarchies (decorated / legacy / mixed, own or derived "
        "mapper_method, CamelCase/acronym/digit names) crossed with generated subsets of "
        "handlers and optional unsupported-expression hook, plus foreign objects. "
        "Traversals: generated trees over all node types (keyword calls, slices with "
        "omitted parts, tuple indices, nested CSEs, Substitution, Derivative, wildcards, "
        "NaN) with 0-2 extra positional/keyword arguments, pruning sets and renaming sets. "
        "Non-trivial = tree with >=6 nodes containing a keyword call, slice with omitted "
        "part, tuple index, nested CSE, Substitution or Derivative; dispatch case where the "
        "instance's own handler is missing and an ancestor's is used; distinct by sha1 of "
        "the case spec.")
ASSUMPTIONS = [
    "children of a node are those found by pbt/walk.py from dataclass fields (independent of the mappers)",
    "sibling order of visit() calls is not part of the contract (map_left_shift visits the shift first)",
    "lists and numpy arrays are rebuilt by the identity mapper by design (compared by equality, not identity)",
]
HEALTH = {"special-node": 0.15, "ancestor-handler-used": 0.02, "pruned": 0.03,
          "has-extra-args": 0.2}

# {{{ dispatch model

BUILTIN_MM = {"Expression": None, "Variable": "map_variable", "Leaf": "map_leaf",
              "AlgebraicLeaf": "map_algebraic_leaf", "Call": "map_call",
              "Lookup": "map_lookup"}
BUILTIN_MRO = {"Expression": [], "Variable": ["Leaf", "AlgebraicLeaf"],
               "Call": ["AlgebraicLeaf"], "Lookup": ["AlgebraicLeaf"]}
BASE_DELEGATES = {"map_variable": "map_algebraic_leaf", "map_subscript": "map_algebraic_leaf",
                  "map_call": "map_algebraic_leaf", "map_lookup": "map_algebraic_leaf",
                  "map_if_positive": "map_algebraic_leaf", "map_nan": "map_algebraic_leaf",
                  "map_rational": "map_quotient"}
BASE_NOTIMPL = {"map_algebraic_leaf", "map_quotient", "map_constant", "map_list",
                "map_tuple", "map_numpy_array"}


def snake(name):
    """the documented CamelCase rule, by character scanning"""
    out = []
    n = len(name)
    for i, ch in enumerate(name):
        if i > 0:
            prev = name[i - 1]
            low_up = ("a" <= prev <= "z") and ("A" <= ch <= "Z")
            up_up_low = ("A" <= prev <= "Z") and ("A" <= ch <= "Z") and i + 1 < n \
                and ("a" <= name[i + 1] <= "z")
            if low_up or up_up_low:
                out.append("_")
        out.append(ch.lower())
    return "".join(out)


def model_method_names(hier, levels, i):
    """mapper_method per class, instance class first, then ancestors in MRO order"""
    names = []
    cur = None
    per_level = []
    root = hier["root"]
    inherited = BUILTIN_MM[root]
    has_dc = root != "Expression"
    for j, lv in enumerate(hier["levels"]):
        cls = levels[j][0]
        if lv.get("mapper_method") == "<none>":
            mm = inherited    # declares no handler name itself: whatever it inherits
        elif lv.get("mapper_method"):
            mm = lv["mapper_method"]
        elif lv["kind"] == "D":
            mm = "map_" + snake(cls.__name__)
        else:
            if not has_dc:
                mm = "map_" + cls.__name__.lower()   # set by pbt.usertypes for pure-legacy chains
            else:
                mm = inherited
        per_level.append(mm)
        inherited = mm
        has_dc = has_dc or lv["kind"] == "D"
    names.append(per_level[i])
    for j in range(i - 1, -1, -1):
        names.append(per_level[j])
    if BUILTIN_MM[root]:
        names.append(BUILTIN_MM[root])
    for anc in BUILTIN_MRO[root]:
        names.append(BUILTIN_MM[anc])
    return names


def resolve(name, overridden):
    """what invoking handler *name* on the generated mapper does"""
    seen = 0
    while seen < 5:
        if name in overridden:
            return ("record", name)
        if name in BASE_DELEGATES:
            name = BASE_DELEGATES[name]
            seen += 1
            continue
        if name in BASE_NOTIMPL:
            return ("notimpl", name)
        return None
    return None


def predict(names, overridden, has_hook, skip_own):
    cands = names[1:] if skip_own else names
    for nm in cands:
        if nm is None:
            continue
        r = resolve(nm, overridden)
        if r is not None:
            return r
    return ("hook", None) if has_hook else ("unsupported", None)


def make_mapper(base, overridden, has_hook, log):
    ns = {}
    for nm in overridden:
        def handler(self, expr, *args, _nm=nm, **kwargs):
            log.append((_nm, expr, args, kwargs))
            return ("handled", _nm)
        ns[nm] = handler
    if has_hook:
        def hook(self, expr, *args, **kwargs):
            log.append(("hook", expr, args, kwargs))
            return ("handled", "hook")
        ns["handle_unsupported_expression"] = hook
    return type("GenMapper", (base,), ns)

# }}}


def check_dispatch(spec):
    """spec: {"hier":..., "level": i, "overridden": [names], "hook": bool,
              "args": [..], "kwargs": {..}}"""
    res = Result()
    levels = usertypes.make_hierarchy(spec["hier"])
    i = min(spec["level"], len(levels) - 1)
    cls, allf, kind = levels[i]
    inst = usertypes.instantiate(cls, allf, {})
    names = model_method_names(spec["hier"], levels, i)
    # the handler name the decorator derived / kept
    res.compared()
    if getattr(inst, "mapper_method", None) != names[0]:
        res.fail("mapper-method-name",
                 f"{cls.__name__}.mapper_method = {getattr(inst, 'mapper_method', None)!r}, "
                 f"documented rule gives {names[0]!r}")
        return res
    overridden = [n for n in spec["overridden"]]
    args = tuple(spec["args"])
    kwargs = dict(spec["kwargs"])
    # other mapper classes see the node class first: one that implements only the
    # outermost ancestor's handler, one that implements nothing but the hook - what they
    # resolve must not be remembered for the mapper under test (different classes)
    real = [n for n in names if n]
    for base in (Mapper, CachedMapper):
        for decoy_handlers, hook in (([real[-1]] if real else [], True), ([], True)):
            dm = make_mapper(base, decoy_handlers, hook, [])()
            for entry in ("__call__", "rec_fallback"):
                try:
                    getattr(dm, entry)(inst, *args, **kwargs)
                except Exception:
                    pass
    for mname, base, entry, skip_own in (
            ("Mapper.__call__", Mapper, "__call__", False),
            ("CachedMapper.__call__", CachedMapper, "__call__", False),
            ("Mapper.rec", Mapper, "rec", False),
            ("Mapper.rec_fallback", Mapper, "rec_fallback", True),
            ("CachedMapper.__call__ (again)", CachedMapper, "__call__", False)):
        log = []
        m = make_mapper(base, overridden, spec["hook"], log)()
        want = predict(names, set(overridden), spec["hook"], skip_own)
        res.compared()
        ncalls = 2 if "again" in mname else 1
        outcome = None
        try:
            for _ in range(ncalls):
                outcome = getattr(m, entry)(inst, *args, **kwargs)
        except UnsupportedExpressionError:
            got = ("unsupported", None)
        except NotImplementedError:
            got = ("notimpl", None)
        except Exception as exc:
            res.fail(f"dispatch-raised:{type(exc).__name__}",
                     f"{mname} on {cls.__name__} with handlers {overridden}: {exc!r}")
            continue
        else:
            if not log:
                res.fail("dispatch-returned-without-handler", f"{mname}: returned {outcome!r}")
                continue
            got = ("hook", None) if log[0][0] == "hook" else ("record", log[0][0])
        w = (want[0], want[1] if want[0] == "record" else None)
        if got != w:
            res.fail(f"wrong-handler:{mname.split()[0]}:{w[0]}->{got[0]}",
                     f"{mname} on instance of {cls.__name__} (handler names along the MRO "
                     f"{names}, mapper implements {overridden}, hook={spec['hook']}): "
                     f"expected {w}, got {got}")
            continue
        if log:
            if "again" in mname and len(log) != 1:
                res.fail("cached-dispatch-not-memoized", f"{mname}: handler ran {len(log)} times")
            _, e0, a0, k0 = log[0]
            if e0 is not inst or a0 != args or k0 != kwargs or any(
                    x is not y for x, y in zip(a0, args)):
                res.fail("arguments-not-passed-unchanged",
                         f"{mname}: handler got ({e0!r}, {a0!r}, {k0!r})")
    own = resolve(names[0], set(overridden)) if names[0] else None
    if own is None and predict(names, set(overridden), spec["hook"], False)[0] == "record":
        res.label("ancestor-handler-used")
        res.nontrivial = True
    if args or kwargs:
        res.label("has-extra-args")
    res.sample = {"class": cls.__name__, "mro-handlers": names, "mapper": overridden,
                  "hook": spec["hook"]}
    return res


class RegNum:
    """A number type pymbolic does not know until register_constant_class() names it."""

    def __init__(self, v):
        self.v = v

    def __eq__(self, other):
        return isinstance(other, RegNum) and other.v == self.v

    def __hash__(self):
        return hash(("RegNum", self.v))

    def __repr__(self):
        return f"RegNum({self.v})"


FOREIGN = {
    # registered for the duration of the case / registered and unregistered again
    "registered-constant-class": (RegNum(3), "map_constant"),
    "unregistered-constant-class": (RegNum(4), None),
    "int": (5, "map_constant"), "float": (2.5, "map_constant"),
    "complex": (1 + 2j, "map_constant"), "bool": (True, "map_constant"),
    "np.int64": (np.int64(3), "map_constant"), "np.float64": (np.float64(1.5), "map_constant"),
    "np.bool_": (np.bool_(True), "map_constant"),
    "ndarray": (np.array([1, 2], dtype=object), "map_numpy_array"),
    "ndarray-num": (np.zeros(3), "map_numpy_array"),
    "list": ([1, 2], "map_list"), "tuple": ((1, 2), "map_tuple"),
    "empty-tuple": ((), "map_tuple"),
    "str": ("x", None), "None": (None, None), "dict": ({"a": 1}, None),
    "set": ({1}, None), "object": (object(), None), "bytes": (b"x", None),
}


def check_foreign(spec):
    res = Result()
    obj, want = FOREIGN[spec["kind"]]
    args = tuple(spec["args"])
    if spec["kind"].endswith("constant-class"):
        p.register_constant_class(RegNum)
        try:
            if spec["kind"].startswith("unregistered"):
                p.unregister_constant_class(RegNum)
            return _check_foreign(res, spec, obj, want, args)
        finally:
            if RegNum in p.VALID_CONSTANT_CLASSES:
                p.unregister_constant_class(RegNum)
    return _check_foreign(res, spec, obj, want, args)


def _check_foreign(res, spec, obj, want, args):
    for base in (Mapper, CachedMapper):
        log = []
        m = make_mapper(base, ["map_constant", "map_numpy_array", "map_list", "map_tuple"],
                        False, log)()
        for entry in ("__call__", "rec_fallback"):
            del log[:]
            res.compared()
            try:
                getattr(m, entry)(obj, *args)
                got = log[0][0] if log else "<returned>"
                if log and (log[0][1] is not obj or log[0][2] != args):
                    res.fail("arguments-not-passed-unchanged", f"{spec['kind']}: {log[0]!r}")
            except ValueError as exc:
                got = None if not isinstance(exc, UnsupportedExpressionError) else "unsupported"
            except Exception as exc:
                got = f"{type(exc).__name__}"
            if got != want:
                res.fail(f"foreign-routing:{spec['kind']}",
                         f"{base.__name__}.{entry}({obj!r}): expected "
                         f"{want or 'ValueError'}, got {got or 'ValueError'}")
    res.nontrivial = True
    res.sample = spec
    return res


# {{{ traversal checks

SPECIAL = ("CallWithKwargs", "Slice", "Substitution", "Derivative")


def _special(spec_txt, e):
    if any(f"'{s}'" in spec_txt for s in SPECIAL) or "'Tuple'" in spec_txt:
        return True
    for _, n in walk.occurrences(e):
        if isinstance(n, p.CommonSubexpression) and isinstance(n.child, p.CommonSubexpression):
            return True
    return False


def _classify(res, spec, e):
    if _special(repr(spec["expr"]), e):
        res.label("special-node")
        res.nontrivial = walk.size(e) >= 6
    if spec.get("args") or spec.get("kwargs"):
        res.label("has-extra-args")


class _Renamer(IdentityMapper):
    def map_variable(self, expr, names, *rest, **kw):
        if expr.name in names:
            return p.Variable(expr.name + "_r")
        return expr


class _CachedRenamer(CachedIdentityMapper):
    def map_variable(self, expr, names, *rest, **kw):
        if expr.name in names:
            return p.Variable(expr.name + "_r")
        return expr


def _ref_rename(e, names):
    def f(n):
        if isinstance(n, p.Variable) and n.name in names:
            return (p.Variable(n.name + "_r"),)
        return None
    return walk.transform(e, f)


def _sharing(res, a, b, names, who):
    def touched(n, memo={}):
        return bool(walk.variables(n) & names)

    def rec(x, y):
        if not isinstance(x, (p.Expression, tuple)):
            return
        if not touched(x):
            res.compared()
            if y is not x:
                res.fail(f"{who}:unchanged-subtree-rebuilt:{type(x).__name__}",
                         f"{x!r} has nothing to change but came back as another object")
            return
        cx, cy = walk.children(x), walk.children(y)
        if type(x) is not type(y) or len(cx) != len(cy):
            return
        for (_, u), (_, v) in zip(cx, cy):
            rec(u, v)
    rec(a, b)


def _cse_zero_inside(e):
    """F05: a CSE whose (mapped) child is falsy is replaced by 0"""
    for _, n in walk.occurrences(e):
        if isinstance(n, p.CommonSubexpression):
            try:
                if p.is_zero(n.child) or p.is_zero(_collapse(n.child)):
                    return True
            except Exception:
                return True
    return False


def _collapse(e):
    def f(n):
        if isinstance(n, p.CommonSubexpression):
            c = _collapse(n.child)
            try:
                if p.is_zero(c):
                    return (0,)
            except Exception:
                pass
        return None
    try:
        return walk.transform(e, f)
    except Exception:
        return e


def _ambiguous(e):
    """two distinct nodes that compare equal but differ strictly (4 vs 4.0 inside
    composites, 0.0 vs -0.0): a memoizing mapper may return either result for both"""
    seen = {}
    for _, n in walk.occurrences(e):
        k = (type(n).__name__, repr(walk.key(n, strict=False)))
        sk = repr(walk.key(n, strict=True))
        if seen.setdefault(k, sk) != sk:
            return True
    return False


def check_identity(spec):
    """spec: {"expr":..., "rename": [names], "args": [...], "kwargs": {...}}"""
    res = Result()
    e = build_shared(spec["expr"])
    extra = tuple(spec.get("args", []))
    kw = dict(spec.get("kwargs", {}))
    key = walk.key(e, strict=False)
    amb = _ambiguous(e)
    for who, m in (("IdentityMapper", IdentityMapper()),
                   ("CachedIdentityMapper", CachedIdentityMapper())):
        if amb and "Cached" in who:
            continue
        res.compared()
        try:
            r = m(e, *extra, **kw)
        except Exception as exc:
            res.fail(f"{who}:raised:{exc_site(exc)}", f"{who}()({e!r}): {exc!r}")
            continue
        if walk.key(r, strict=False) != key:
            d = walk.first_diff(e, r)
            res.fail(f"{who}:result-not-equal@{d[0]}.{d[1]}" if d else f"{who}:result-not-equal",
                     f"{who}()({e!r}) returned {r!r}")
        elif isinstance(e, (p.Expression, tuple)) and r is not e and not any(
                isinstance(n, (list, np.ndarray)) for _, n in walk.occurrences(e)):
            # lists and arrays (mutable) are always copied, and so is what contains them
            res.fail(f"{who}:unchanged-tree-rebuilt", f"{who}()({e!r}) returned a copy")
    names = set(spec.get("rename", []))
    if names:
        want = _ref_rename(e, names)
        wkey = walk.key(want, strict=False)
        for who, m in (("renaming IdentityMapper", _Renamer()),
                       ("renaming CachedIdentityMapper", _CachedRenamer())):
            res.compared()
            try:
                r = m(e, frozenset(names), *extra, **kw)
            except Exception as exc:
                res.fail(f"{who}:raised:{exc_site(exc)}",
                         f"{who} on {e!r} with extra arguments: {type(exc).__name__}: {exc}")
                continue
            if walk.key(r, strict=False) != wkey:
                d = walk.first_diff(want, r)
                res.fail(f"{who}:differs-from-rebuild@{d[0]}.{d[1]}" if d else who,
                         f"{e!r} renaming {sorted(names)}: got {r!r}, expected {want!r}")
            elif "Cached" not in who:
                _sharing(res, e, r, names, who)
    # a derived identity mapper that replaces every constant by an == constant of
    # another type: what it returns for the children is what the parent is rebuilt from
    if not _cse_zero_inside(e):
        want = walk.transform(e, _retype_leaf)
        res.compared()
        try:
            r = _Retyper()(e, *extra, **kw)
        except Exception as exc:
            res.fail(f"retyping IdentityMapper:raised:{exc_site(exc)}",
                     f"on {e!r}: {type(exc).__name__}: {exc}")
        else:
            if repr(walk.key(r, strict=True)) != repr(walk.key(want, strict=True)):
                d = walk.first_diff(want, r)
                res.fail("retyping IdentityMapper:differs-from-rebuild"
                         + (f"@{d[0]}.{d[1]}" if d else ""),
                         f"{e!r} with constants retyped: got {r!r}, expected {want!r}")
            if repr(walk.key(want, strict=True)) != repr(walk.key(e, strict=True)):
                res.label("identity:retyped-constants")
    _classify(res, spec, e)
    res.sample = {"expr": repr(e)[:250], "rename": sorted(names), "args": list(extra)}
    return res


def _retype_const(c):
    if isinstance(c, (bool, np.bool_)):
        return int(c)
    if type(c) is int and abs(c) < 2 ** 50:
        return float(c)
    if type(c) is float and c == c and abs(c) < 2 ** 50 and c == int(c):
        return int(c)
    return c


def _retype_leaf(n):
    if isinstance(n, (p.Expression, tuple, list, np.ndarray)) or not p.is_constant(n):
        return None
    return (_retype_const(n),)


class _Retyper(IdentityMapper):
    def map_constant(self, expr, *args, **kwargs):
        return _retype_const(expr)


class _Recorder(WalkMapper):
    def __init__(self, prune_keys, events):
        self.prune_keys = prune_keys
        self.events = events

    def visit(self, expr, *args, **kwargs):
        self.events.append(("visit", expr, args, kwargs))
        if (isinstance(expr, (p.Expression, tuple, list, np.ndarray))
                or walk.is_multivector(expr)) and walk.children(expr) \
                and walk.key(expr, strict=True) in self.prune_keys:
            return False
        return True

    def post_visit(self, expr, *args, **kwargs):
        self.events.append(("post", expr, args, kwargs))


def check_walk(spec):
    """spec: {"expr":..., "prune": [indices into preorder composite nodes], "args", "kwargs"}"""
    res = Result()
    e = build(spec["expr"])
    extra = tuple(spec.get("args", []))
    kw = dict(spec.get("kwargs", {}))
    occ = walk.occurrences(e)
    comp = [n for _, n in occ if walk.children(n)]
    prune_keys = {walk.key(comp[i % len(comp)], strict=True)
                  for i in spec.get("prune", [])} if comp else set()
    if prune_keys:
        res.label("pruned")
    events = []
    res.compared()
    try:
        _Recorder(prune_keys, events)(e, *extra, **kw)
    except Exception as exc:
        res.fail(f"WalkMapper:raised:{exc_site(exc)}", f"{e!r}: {type(exc).__name__}: {exc}")
        return res
    # expected visits: preorder, not descending below pruned composite nodes

    def expected(n, out):
        out.append(n)
        if walk.children(n) and walk.key(n, strict=True) in prune_keys:
            return
        for _, c in walk.children(n):
            expected(c, out)
    exp = []
    expected(e, exp)
    kc = lambda n: (type(n).__name__, repr(walk.key(n, strict=True)))  # noqa: E731
    visits = Counter(kc(ev[1]) for ev in events if ev[0] == "visit")
    want_v = Counter(kc(n) for n in exp)
    if visits != want_v:
        missing = want_v - visits
        extra_v = visits - want_v
        if missing:
            t = sorted(missing)[0][0]
            res.fail(f"walk:node-not-visited:{t}",
                     f"{e!r}: {sum(missing.values())} occurrence(s) never visited, e.g. {t}")
        if extra_v:
            t = sorted(extra_v)[0][0]
            res.fail(f"walk:node-visited-too-often:{t}",
                     f"{e!r}: {sum(extra_v.values())} surplus visit(s), e.g. {t} "
                     f"(pruned: {len(prune_keys)})")
    posts = Counter(kc(ev[1]) for ev in events if ev[0] == "post")
    want_p = Counter(kc(n) for n in exp
                     if not (walk.children(n) and walk.key(n, strict=True) in prune_keys))
    if posts != want_p and visits == want_v:
        d = (want_p - posts) or (posts - want_p)
        t = sorted(d)[0][0]
        res.fail(f"walk:post-visit-count:{t}", f"{e!r}: post_visit calls differ for {t}")
    # nesting: visit(parent) before its descendants, post_visit after them
    stack = []
    ok = True
    for kind, n, a, k in events:
        res.compared()
        if a != extra or k != kw or any(x is not y for x, y in zip(a, extra)):
            res.fail(f"walk:arguments-not-passed:{type(n).__name__}",
                     f"{kind}({n!r}) received {a!r} {k!r}, top-level call had {extra!r} {kw!r}")
            break
        while stack and stack[-1][1] and kind == "visit" and not _is_child(stack[-1][0], n):
            stack.pop()   # a pruned node has no post_visit: closed by the next event
        if kind == "visit":
            if stack and not _is_child(stack[-1][0], n):
                ok = False
                res.fail(f"walk:visit-order:{type(n).__name__}",
                         f"{e!r}: visit({n!r}) while the open node is {stack[-1][0]!r}")
                break
            pruned = bool(walk.children(n)) and walk.key(n, strict=True) in prune_keys
            stack.append((n, pruned))
        else:
            while stack and stack[-1][1] and stack[-1][0] is not n:
                stack.pop()
            if not stack or stack[-1][0] is not n:
                ok = False
                res.fail(f"walk:post-visit-order:{type(n).__name__}",
                         f"{e!r}: post_visit({n!r}) does not close the innermost open node")
                break
            stack.pop()
    _classify(res, spec, e)
    res.sample = {"expr": repr(e)[:250], "visits": sum(visits.values()),
                  "pruned": len(prune_keys), "args": list(extra)}
    return res


def _is_child(parent, n):
    return any(c is n for _, c in walk.children(parent))


class _LeafCounter(CombineMapper):
    def combine(self, values):
        out = Counter()
        for v in values:
            out.update(v)
        return out

    def _leaf(self, expr, tag, *rest, **kw):
        return Counter({(type(expr).__name__, repr(walk.key(expr, strict=True)), tag): 1})

    map_constant = _leaf
    map_variable = _leaf
    map_wildcard = _leaf
    map_dot_wildcard = _leaf
    map_star_wildcard = _leaf
    map_function_symbol = _leaf
    map_nan = _leaf


class _CachedLeafCounter(CachedMapper, _LeafCounter):
    pass


class _VarCollector(Collector):
    def map_variable(self, expr, tag, *rest, **kw):
        return {(expr.name, tag)}


class _CachedVarCollector(CachedMapper, _VarCollector):
    pass


COMBINE_NODES = tuple(n for n in S.ALL_COMPOSITE
                      if n not in ("Derivative", "Substitution", "Slice"))


def check_combine(spec):
    res = Result()
    e = build(spec["expr"])
    tag = spec.get("tag", "t")
    extra = tuple(spec.get("args", []))
    leaves = Counter((type(n).__name__, repr(walk.key(n, strict=True)), tag)
                     for _, n in walk.occurrences(e) if not walk.children(n)
                     and not isinstance(n, (tuple, list, np.ndarray))
                     and not (isinstance(n, p.Expression) and type(n).__name__ in (
                         "Slice", "Call", "Sum", "Product", "Min", "Max", "BitwiseOr",
                         "BitwiseXor", "BitwiseAnd", "LogicalOr", "LogicalAnd")))
    amb = _ambiguous(e)
    for who, m in (("CombineMapper", _LeafCounter()), ("CachedCombineMapper",
                                                       _CachedLeafCounter())):
        if amb and "Cached" in who:
            continue
        res.compared()
        try:
            got = m(e, tag, *extra)
        except (UnsupportedExpressionError, NotImplementedError) as exc:
            res.fail(f"{who}:refused-handled-node:{exc_site(exc)}", f"{e!r}: {exc!r}")
            continue
        except Exception as exc:
            res.fail(f"{who}:raised:{exc_site(exc)}", f"{e!r}: {type(exc).__name__}: {exc}")
            continue
        if got != leaves:
            miss = leaves - got
            sur = got - leaves
            t = (sorted(miss) or sorted(sur))[0][0]
            res.fail(f"{who}:{'leaf-not-folded-in' if miss else 'surplus-leaf'}:{t}",
                     f"{who} on {e!r}: missing {dict(miss)}, surplus {dict(sur)}")
    names = {(n.name, tag) for _, n in walk.occurrences(e) if isinstance(n, p.Variable)}
    for who, m in (("Collector", _VarCollector()), ("CachedCollector", _CachedVarCollector())):
        res.compared()
        try:
            got = m(e, tag, *extra)
        except Exception as exc:
            res.fail(f"{who}:raised:{exc_site(exc)}", f"{e!r}: {type(exc).__name__}: {exc}")
            continue
        if got != names:
            res.fail(f"{who}:variable-set-differs",
                     f"{who} on {e!r}: {sorted(got)} vs {sorted(names)}")
            continue
        # the same instance asked again about a part of what it has just collected
        for _, sub in walk.children(e)[:2]:
            res.compared()
            try:
                g2 = m(sub, tag, *extra)
            except Exception:
                continue
            n2 = {(n.name, tag) for _, n in walk.occurrences(sub) if isinstance(n, p.Variable)}
            if g2 != n2:
                res.fail(f"{who}:reused-instance-differs",
                         f"{who} after {e!r}: second call on {sub!r} gives {sorted(g2)}, "
                         f"expected {sorted(n2)}")
                break
    _classify(res, spec, e)
    res.sample = {"expr": repr(e)[:250], "leaves": sum(leaves.values())}
    return res


CALLBACK_NODES = ("Call", "Subscript", "Lookup", "Sum", "Product", "Quotient", "FloorDiv",
                  "Remainder", "Power", "LeftShift", "RightShift", "BitwiseNot", "BitwiseOr",
                  "BitwiseXor", "BitwiseAnd", "LogicalNot", "LogicalOr", "LogicalAnd",
                  "CommonSubexpression", "If", "Comparison")


def check_callback(spec):
    res = Result()
    e = build(spec["expr"])
    extra = tuple(spec.get("args", []))
    seen = []

    def cb(expr, mapper, *args, **kwargs):
        seen.append((expr, mapper, args))
        if isinstance(expr, p.Variable):
            return expr
        return mapper.fallback_mapper(expr, *args, **kwargs)
    m = CallbackMapper(cb, IdentityMapper())
    res.compared()
    try:
        r = m(e, *extra)
    except Exception as exc:
        res.fail(f"CallbackMapper:raised:{exc_site(exc)}", f"{e!r}: {type(exc).__name__}: {exc}")
        return res
    occ = [n for _, n in walk.occurrences(e)]
    kc = lambda n: (type(n).__name__, repr(walk.key(n, strict=True)))  # noqa: E731
    want = Counter(kc(n) for n in occ)
    got = Counter(kc(s[0]) for s in seen)
    if got != want and not _cse_zero_inside(e):
        d = (want - got) or (got - want)
        t = sorted(d)[0][0]
        res.fail(f"callback:node-count-differs:{t}",
                 f"{e!r}: callback saw {sum(got.values())} nodes, tree has {sum(want.values())}")
    for expr, mp, args in seen:
        if mp is not m or args != extra:
            res.fail("callback:arguments", f"callback got mapper={mp!r}, args={args!r}")
            break
    if walk.key(r, strict=False) != walk.key(e, strict=False) and not _cse_zero_inside(e):
        res.fail("callback:result-differs", f"{e!r} -> {r!r}")
    _classify(res, spec, e)
    res.sample = {"expr": repr(e)[:250], "callback calls": len(seen)}
    return res


STOCK = {"IdentityMapper": IdentityMapper, "CachedIdentityMapper": CachedIdentityMapper,
         "WalkMapper": WalkMapper, "CachedWalkMapper": CachedWalkMapper,
         "CombineMapper": _LeafCounter, "CachedCombineMapper": _CachedLeafCounter,
         "Collector": _VarCollector, "CachedCollector": _CachedVarCollector,
         "CallbackMapper": None}


def _check_unknown_user_node(spec):
    """A user node class the stock traversals know nothing about (derived from
    Expression, Leaf or AlgebraicLeaf, with children of its own): every stock traversal
    reports it by raising; none returns as if the node had no content."""
    from pymbolic.mapper.dependency import DependencyMapper
    res = Result()
    base = spec["userleaf"]
    if base not in ("AlgebraicLeaf", "Leaf", "Expression"):
        raise HarnessError("userleaf base")
    levels = usertypes.make_hierarchy({"root": base, "tag": "Gather", "levels": [
        {"kind": "D", "fields": ["extra", "other"], "mapper_method": None}]})
    cls, allf, _ = levels[0]
    node = usertypes.instantiate(cls, allf, {"extra": p.Variable("inside_a"),
                                            "other": p.Sum((p.Variable("inside_i"), 1))})
    e = {"bare": node, "sum": p.Sum((node, p.Variable("x"))),
         "call": p.Call(p.Variable("f"), (node,))}[spec.get("embed", "sum")]
    stock = dict(STOCK)
    # all composite kinds off: the mapper descends everywhere (a call that is a leaf of
    # the analysis legitimately hides what is inside it)
    stock["DependencyMapper"] = lambda: DependencyMapper(composite_leaves=False)
    for who, mcls in stock.items():
        res.compared()
        try:
            if who == "CallbackMapper":
                r = CallbackMapper(lambda expr, mapper, *a: mapper.fallback_mapper(expr, *a),
                                   IdentityMapper())(e)
            elif "Combine" in who or "Collector" in who:
                r = mcls()(e, "t")
            else:
                r = mcls()(e)
        except (UnsupportedExpressionError, NotImplementedError):
            res.label(f"refused:{who}:user-{base}")
            continue
        except Exception as exc:
            res.fail(f"refusal:{who}:user-{base}:raises-{type(exc).__name__}",
                     f"{who} on {e!r} raised {type(exc).__name__}: {exc}")
            continue
        res.fail(f"unknown-node-silently-handled:{who}:user-{base}",
                 f"{who} on {e!r} (a node class it has no handler for) returned {r!r}")
    res.nontrivial = True
    res.sample = repr(e)[:200]
    return res


def check_refusal(spec):
    """every (stock traversal, node class): handled, or refused by raising"""
    if "userleaf" in spec:
        return _check_unknown_user_node(spec)
    res = Result()
    e = build(spec["expr"])
    returned = set()
    for who, cls in STOCK.items():
        res.compared()
        try:
            if who == "CallbackMapper":
                CallbackMapper(lambda expr, mapper, *a: expr, IdentityMapper())(e)
            elif "Combine" in who or "Collector" in who:
                cls()(e, "t")
            else:
                cls()(e)
            returned.add(who)
        except (UnsupportedExpressionError, NotImplementedError):
            res.label(f"refused:{who}:{spec['expr'][0]}")
        except Exception as exc:
            res.fail(f"refusal:{who}:{spec['expr'][0]}:raises-{type(exc).__name__}",
                     f"{who} on {e!r} raised {type(exc).__name__}: {exc} instead of "
                     "handling the node or refusing it")
    # a traversal that does not refuse the node must keep its contract on it
    # ("never silently skipped")
    full = {"expr": spec["expr"], "rename": ["x"], "prune": [], "args": [], "kwargs": {},
            "tag": "t"}
    contract = (("IdentityMapper", check_identity), ("WalkMapper", check_walk),
                ("CombineMapper", check_combine), ("Collector", check_combine))
    done = set()
    for who, fn in contract:
        if who in returned and fn not in done and not (
                fn is check_combine and not {"CombineMapper", "Collector"} <= returned):
            done.add(fn)
            for f in fn(full).fails:
                res.fail("accepted-but-" + f.kind, f.detail)
    res.nontrivial = True
    res.sample = repr(e)[:200]
    return res


def _known_identity_cse_zero(sub, spec, fail):
    """F05: IdentityMapper maps CSE(c) to 0 when the mapped child c is falsy."""
    if sub not in ("identity", "callback"):
        return False
    if not ("result-not-equal" in fail.kind or "differs-from-rebuild" in fail.kind
            or "result-differs" in fail.kind or "unchanged" in fail.kind):
        return False
    if "CommonSubexpression" not in repr(spec["expr"]):
        return False
    return _cse_zero_inside(build(spec["expr"]))


KNOWN = {"F05": _known_identity_cse_zero}

# }}}


CHECKS = {"dispatch": check_dispatch, "foreign": check_foreign, "identity": check_identity,
          "walk": check_walk, "combine": check_combine, "callback": check_callback,
          "refusal": check_refusal}

ARGS = st.lists(st.sampled_from(("a0", 7, "a1")), max_size=2)
KWARGS = st.dictionaries(st.sampled_from(("kw0", "kw1")), st.integers(0, 3), max_size=2)


@st.composite
def dispatch_case(draw):
    root = draw(st.sampled_from(("Expression", "Expression", "Variable", "Call", "Lookup")))
    depth = draw(st.integers(1, 3))
    levels = []
    used = set()
    for _ in range(depth):
        kind = draw(st.sampled_from(("D", "D", "L")))
        if levels and levels[-1]["kind"] == "L":
            kind = "L"
        nf = draw(st.integers(0, 1))
        flds = [f for f in ("extra", "tag", "weight") if f not in used][:nf]
        used.update(flds)
        mm = draw(st.sampled_from((None, None, "map_custom_a", "map_custom_b", "map_variable")))
        if kind == "L" and root == "Expression" and not any(
                lv["kind"] == "D" for lv in levels) and draw(st.integers(0, 2)) == 0:
            mm = "<none>"      # an old-style class that never declared mapper_method
        levels.append({"kind": kind, "fields": flds, "mapper_method": mm})
    hier = {"root": root, "levels": levels,
            "tag": draw(st.sampled_from(("MyNode", "HTTPNode2D", "ABCFoo", "Tagged", "X",
                                         "lowerCamel", "Node2Node", "ABC")))}
    lv = usertypes.make_hierarchy(hier)
    i = draw(st.integers(0, depth - 1))
    names = model_method_names(hier, lv, i)
    pool = sorted(set(n for n in names if n) | {"map_algebraic_leaf", "map_unrelated"})
    if not any(names):
        res_label = None
    overridden = draw(st.lists(st.sampled_from(pool), unique=True, max_size=len(pool)))
    if draw(st.integers(0, 2)) == 0 and names[0] in overridden:
        overridden.remove(names[0])
    return {"hier": hier, "level": i, "overridden": overridden, "hook": draw(st.booleans()),
            "args": draw(ARGS), "kwargs": draw(KWARGS)}


@st.composite
def traversal_case(draw, nodes=S.ALL_COMPOSITE, wild=True, nan=True, mv=True):
    ex = draw(S.any_expr(draw(st.integers(1, 5)), nodes=nodes, wild=wild, nan=nan))
    if draw(st.integers(0, 9)) == 0:
        # object arrays of rank 1-3 (as a call argument or on their own): one node per
        # element, none for rows or planes
        shape = draw(st.sampled_from(([2], [1, 2], [2, 1], [2, 2], [2, 1, 2], [3], [0],
                                      [1, 1])))
        k = 1
        for q in shape:
            k *= q
        items = [ex if i == 0 else draw(S.any_expr(1, nodes=nodes, wild=wild, nan=nan))
                 for i in range(k)]
        arr = ["NpArray", items] if len(shape) == 1 else ["NpArray", items, shape]
        ex = arr if draw(st.booleans()) else ["Call", ["Var", "f"], [arr, ["Var", "x"]]]
    elif draw(st.integers(0, 11)) == 0:
        ex = draw(S.nested_containers(ex))
    elif mv and draw(st.integers(0, 11)) == 0:
        # a multivector with expression coefficients (the traversals' map_multivector)
        blades = draw(st.lists(st.integers(0, 7), min_size=1, max_size=3, unique=True))
        mv = ["MultiVector", [[bl, ex if i == 0 else draw(
            S.any_expr(1, nodes=nodes, wild=wild, nan=nan))] for i, bl in enumerate(blades)], 3]
        ex = mv if draw(st.booleans()) else ["Call", ["Var", "f"], [mv, ["Var", "x"]]]
    names = sorted({s[1] for s in subspecs(ex) if s[0] == "Var"})
    return {"expr": ex,
            "rename": draw(st.lists(st.sampled_from(names), unique=True, max_size=2))
            if names else [],
            "prune": draw(st.lists(st.integers(0, 20), max_size=2)),
            "args": draw(ARGS), "kwargs": draw(KWARGS), "tag": "t"}


def refusal_specs():
    out = []
    leaf = ["Var", "x"]
    from pbt.spec import (K_DTYPE, K_EXPR, K_EXPRS, K_KWMAP, K_OPTSTR, K_STR, K_STRS,
                          NODE_TABLE)
    for name in CONCRETE:
        flds = NODE_TABLE[name][1]
        s = [name]
        for fname, kind in flds:
            if kind == K_EXPR:
                s.append(leaf)
            elif kind == K_EXPRS:
                s.append([leaf, ["Const", "int", 2]])
            elif kind == K_STR:
                s.append({"Comparison": "<", "CommonSubexpression": "pymbolic_eval"}.get(
                    name, "nm"))
            elif kind == K_OPTSTR:
                s.append(None)
            elif kind == K_STRS:
                s.append(["x", "y"])
            elif kind == K_KWMAP:
                s.append([["k", leaf]])
            elif kind == K_DTYPE:
                s.append(None)
        out.append({"expr": s})
    out += [{"expr": ["Tuple", [leaf, leaf]]}, {"expr": ["List", [leaf]]},
            {"expr": ["NpArray", [leaf, leaf]]}, {"expr": ["Const", "int", 3]},
            {"expr": ["Subscript", leaf, ["Slice", [None, leaf, None]]]}]
    return out


def generate(ctx):
    for j, kind in enumerate(FOREIGN):
        for k, args in enumerate(([], ["a0"], ["a0", 7])):
            if ctx.mine(j * 3 + k):
                ctx.judge("foreign", {"kind": kind, "args": args})
    for j, (base, emb) in enumerate(itertools.product(("AlgebraicLeaf", "Leaf", "Expression"),
                                                      ("bare", "sum", "call"))):
        if ctx.mine(j):
            ctx.judge("refusal", {"userleaf": base, "embed": emb})
    n = 0
    for j, s in enumerate(refusal_specs()):
        if ctx.mine(j):
            ctx.judge("refusal", s)
            n += 1
    ctx.exhaustive["(stock traversal, node class) refusal pairs"] = n * len(STOCK)
    ctx.run_given(dispatch_case(), lambda s: ctx.judge("dispatch", s), ctx.n(6000, 100000))
    ctx.run_given(traversal_case(), lambda s: (ctx.judge("identity", s), ctx.judge("walk", s)),
                  ctx.n(9000, 160000))
    ctx.run_given(traversal_case(COMBINE_NODES, nan=False), lambda s: ctx.judge("combine", s),
                  ctx.n(6000, 100000))
    ctx.run_given(traversal_case(CALLBACK_NODES, wild=False, nan=False, mv=False),
                  lambda s: ctx.judge("callback", s),
                  ctx.n(3000, 50000))


MANIFEST = {
    "text": ("Model-based testing of dispatch (generated class hierarchies x generated "
             "handler subsets against the documented resolution order, for __call__, the "
             "cached __call__ and rec_fallback) and instrumented-subclass testing of every "
             "stock traversal on generated trees over all node types: equality and object "
             "identity of identity-mapper results, once-per-occurrence visit/post_visit "
             "nesting with pruning, multiset of leaves folded in by combine/collector "
             "mappers, callback re-entry, extra-argument pass-through, and refusal by "
             "raising for unhandled node types."),
    "note": ("Trusted: pbt/walk.py's field-based child enumeration; the dispatch model in "
             "pbt/props/c04.py; handler observations through subclasses defined in /verif."),
    "technique": "model-based property testing (dispatch model, instrumented mapper subclasses, generated class hierarchies)",
    "design_ref": "DESIGN.md section 4, C04",
}
