"""Cross-process worker for C17 (pickles and persistent keys across processes).

Two roles in one file:

* imported (``from pbt import xproc_worker``): the helpers shared by the parent
  (pbt/props/c17.py) and the workers -- turning a case spec into the live
  object, the prescribed pre-pickle operations, container nesting, the two
  persistent-digest channels, a field-wise reference comparator;
* executed (``python [-O] -m pbt.xproc_worker`` with its own PYTHONHASHSEED):
  a long-lived server answering one JSON line per request on a private pipe.

Requests (one JSON object per line on stdin, one JSON answer per line):

    {"op": "produce", "case": spec}                 producer role
    {"op": "consume", "case": spec, "pickle": b64}  consumer role
    {"op": "subdigests", "case": spec}              digests of every sub-spec
    {"op": "ping"} / {"op": "quit"}

Nothing in here judges anything: workers report observations, the parent
compares them.

Case spec (JSON only)

    {"expr": <pbt.spec expression spec>, "shared": bool}            or
    {"hier": <pbt.usertypes hierarchy spec>, "level": i,
     "vals": {field: expr spec | str}, "embed": null|"sum"|"call"|"kw"|"sub"}   or
    {"compiled": {"expr": spec, "listed": [["name"|"var", n], ...],
                  "envs": [env spec, ...]}}                                     or
    {"numeric": ["Polynomial", base spec, [[exponent, coefficient spec], ...]]
              | ["Rational", num, den]       (num/den: int constant spec or Polynomial)
              | ["MultiVector", [[blade bits, coefficient spec], ...], dims, own_space]}
    plus "pre_ops": [op, ...], "protocol": 0..5, "nest": null|..., "post_order": int
"""
from __future__ import annotations

import base64
import copy
import hashlib
import json
import os
import pickle
import sys
import traceback
from collections.abc import Mapping

PRE_OPS = ("hash", "eq", "str", "repr", "dict", "pickle", "roundtrip", "digest",
           "copy", "call")
NESTS = (None, "tuple", "list", "dictval", "dictkey", "set", "twice", "deep")
EMBEDS = (None, "sum", "call", "kw", "sub")
CHANNELS = ("walk", "kb")


def _imports():
    """Late imports: the worker sets up its pipes first."""
    global p, pymbolic, usertypes, envs, HarnessError, build, build_shared, subspecs
    import pymbolic
    import pymbolic.primitives as p

    from pbt import envs, usertypes
    from pbt.spec import HarnessError, build, build_shared, subspecs


# {{{ helpers shared with the parent

def site(exc):
    """Type@innermost pymbolic frame (file:function), '?' if none."""
    where = "?"
    for fs in traceback.extract_tb(exc.__traceback__):
        if "/pymbolic/" in fs.filename:
            where = fs.filename.split("/pymbolic/", 1)[1] + ":" + fs.name
    return f"{type(exc).__name__}@{where}"


def case_kind(spec):
    from pbt.spec import HarnessError
    if not isinstance(spec, dict):
        raise HarnessError("case spec must be a dict")
    keys = [k for k in ("expr", "hier", "compiled", "numeric") if k in spec]
    if len(keys) != 1:
        raise HarnessError(
            f"case spec needs exactly one of expr/hier/compiled/numeric: {keys}")
    return keys[0]


def np_to_py(s):
    """the spec with numpy scalar constants replaced by Python numbers of the same value"""
    if isinstance(s, list):
        if len(s) == 3 and s[0] == "Const" and isinstance(s[1], str) and s[1].startswith("np."):
            _imports()
            from pbt.spec import build_const
            v = build_const(s[1], s[2]).item()
            t = {bool: "bool", int: "int", float: "float"}.get(type(v))
            if t is None:
                return s
            return ["Const", t, v]
        return [np_to_py(c) for c in s]
    return s


def kw_reordered(s):
    """The same expression spec with every keyword mapping in reverse insertion
    order (handed over as a plain dict, the other accepted spelling)."""
    if isinstance(s, list):
        if s and s[0] in ("CallWithKwargs", "CallWithKwargsDict") and len(s) == 4:
            return ["CallWithKwargsDict" if s[0] == "CallWithKwargs" else "CallWithKwargs",
                    kw_reordered(s[1]), kw_reordered(s[2]),
                    [[k, kw_reordered(v)] for k, v in reversed(s[3])]]
        return [kw_reordered(c) for c in s]
    return s


def n_kw_reorderable(s):
    """Number of keyword calls with >= 2 keywords in an expression spec."""
    n = 0
    if isinstance(s, list):
        if s and s[0] in ("CallWithKwargs", "CallWithKwargsDict") and len(s) == 4 \
                and isinstance(s[3], list) and len(s[3]) >= 2:
            n += 1
        for c in s:
            n += n_kw_reorderable(c)
    return n


def var_names(s):
    """Names of all ["Var", n] / ["Variable", n] leaves of an expression spec."""
    out = set()
    if isinstance(s, list):
        if len(s) == 2 and s[0] in ("Var", "Variable") and isinstance(s[1], str):
            out.add(s[1])
        else:
            for c in s:
                out |= var_names(c)
    return out


def compiled_arg_order(c):
    """Documented signature of compile(e, listed): listed first, the remaining
    free variables in lexicographic order."""
    listed = [n for _, n in c["listed"]]
    ctx_names = {"math", "numpy"} | ({"triple"} if c.get("subclass") else set())
    rest = sorted(var_names(c["expr"]) - set(listed) - ctx_names)
    return listed + rest


def build_numeric(s, int_coeffs=False):
    """The library's own legacy number-like node types."""
    _imports()
    if not isinstance(s, list) or not s:
        raise HarnessError(f"bad numeric spec {s!r}")
    if s[0] == "Polynomial" and len(s) == 3:
        from pymbolic.polynomial import Polynomial
        data = []
        if not isinstance(s[2], list) or not s[2]:
            raise HarnessError("polynomial needs at least one term")
        if not (isinstance(s[1], list) and len(s[1]) == 2 and s[1][0] == "Var"):
            raise HarnessError("polynomial base must be a variable")
        for t in s[2]:
            if not (isinstance(t, list) and len(t) == 2 and isinstance(t[0], int)
                    and not isinstance(t[0], bool) and t[0] >= 0):
                raise HarnessError(f"bad polynomial term {t!r}")
            if int_coeffs and not (isinstance(t[1], list) and len(t[1]) == 3
                                   and t[1][:2] == ["Const", "int"] and t[1][2] != 0):
                raise HarnessError("rational parts have non-zero integer coefficients")
            data.append((t[0], build(t[1])))
        if [e for e, _ in data] != sorted({e for e, _ in data}):
            raise HarnessError("polynomial exponents must be strictly increasing")
        return Polynomial(build(s[1]), tuple(data))
    if s[0] == "Rational" and len(s) == 3:
        from pymbolic.rational import Rational

        def part(q):
            if isinstance(q, list) and q and q[0] == "Polynomial":
                return build_numeric(q, int_coeffs=True)
            if isinstance(q, list) and len(q) == 3 and q[:2] == ["Const", "int"] \
                    and isinstance(q[2], int) and not isinstance(q[2], bool):
                return q[2]
            raise HarnessError(f"bad rational part {q!r}")
        num, den = part(s[1]), part(s[2])
        if isinstance(den, int) and den == 0:
            raise HarnessError("zero denominator")
        if not isinstance(den, int) and not den.data:
            raise HarnessError("zero denominator")
        return Rational(num, den)
    if s[0] == "MultiVector" and len(s) == 4:
        from pymbolic.geometric_algebra import MultiVector, Space, get_euclidean_space
        dims = s[2]
        if not isinstance(dims, int) or isinstance(dims, bool) or not 1 <= dims <= 4:
            raise HarnessError(f"bad dimension {dims!r}")
        if not isinstance(s[1], list) or not s[1]:
            raise HarnessError("multivector needs at least one blade")
        data = {}
        for t in s[1]:
            if not (isinstance(t, list) and len(t) == 2 and isinstance(t[0], int)
                    and not isinstance(t[0], bool) and 0 <= t[0] < 2 ** dims):
                raise HarnessError(f"bad blade {t!r}")
            if t[0] in data:
                raise HarnessError("repeated blade")
            c = build(t[1])
            if p.is_zero(c):
                raise HarnessError("zero coefficient")
            data[t[0]] = c
        return MultiVector(data, Space(dims) if s[3] else get_euclidean_space(dims))
    raise HarnessError(f"bad numeric spec {s!r}")


def build_object(spec, variant=None):
    """-> (object to be pickled, expression the pre-operations hash/compare)."""
    _imports()
    kind = case_kind(spec)
    if kind == "numeric":
        obj = build_numeric(spec["numeric"])
        return obj, obj
    if kind == "expr":
        s = spec["expr"]
        if variant == "kwreorder":
            s = kw_reordered(s)
        obj = (build_shared if spec.get("shared") else build)(s)
        return obj, obj
    if kind == "hier":
        levels = usertypes.make_hierarchy(spec["hier"])
        i = min(int(spec.get("level", 0)), len(levels) - 1)
        cls, allf, _ = levels[i]
        vals = {k: (build(v) if isinstance(v, list) else v)
                for k, v in spec["vals"].items() if k in allf}
        # what __post_init__ stores in init=False fields: not the class default, the
        # same in every process (it is part of the value the spec denotes)
        usertypes.NOINIT_VALUES["serial"] = 2
        inst = usertypes.instantiate(cls, allf, vals)
        emb = spec.get("embed")
        if emb is None:
            obj = inst
        elif emb == "sum":
            obj = p.Sum((inst, p.Variable("ux")))
        elif emb == "call":
            obj = p.Call(p.Variable("uf"), (inst,))
        elif emb == "kw":
            obj = p.CallWithKwargs(p.Variable("uf"), (), {"uk": inst})
        elif emb == "sub":
            obj = p.Subscript(p.Variable("ua"), (inst, 1))
        else:
            raise HarnessError(f"unknown embedding {emb!r}")
        return obj, obj
    c = spec["compiled"]
    e = build(c["expr"])
    listed = []
    for how, n in c["listed"]:
        if not isinstance(n, str):
            raise HarnessError("listed variable must be a name")
        listed.append(p.Variable(n) if how == "var" else n)
    if len({n for _, n in c["listed"]}) != len(c["listed"]):
        raise HarnessError("listed variables must be distinct")
    if c.get("subclass"):
        import pbt.xproc_worker as _me
        return _me.SubCompiled(e, listed), e
    return pymbolic.compile(e, listed), e


def _sub_compiled_class():
    from pymbolic.compiler import CompiledExpression

    class SubCompiled(CompiledExpression):
        """a user subclass with a namespace of its own: 'triple' is a function of the
        generated code's context, not an argument"""

        def context(self):
            ctx = CompiledExpression.context(self).copy()
            ctx["triple"] = _triple
            return ctx
    SubCompiled.__module__ = __name__
    SubCompiled.__qualname__ = "SubCompiled"
    return SubCompiled


def _triple(x):
    return 3 * x


class _LazySub:
    """module attribute resolved on first use (pymbolic is imported late in the worker)"""


def __getattr__(name):
    if name == "SubCompiled":
        cls = _sub_compiled_class()
        globals()["SubCompiled"] = cls
        return cls
    raise AttributeError(name)


def nest(obj, how):
    if how is None:
        return obj
    if how == "tuple":
        return (obj, "pad")
    if how == "list":
        return ["pad", obj]
    if how == "dictval":
        return {"k": obj}
    if how == "dictkey":
        return {obj: "v"}
    if how == "set":
        return {obj}
    if how == "twice":
        return (obj, [obj])
    if how == "deep":
        return {"a": [(obj,), {"b": obj}]}
    from pbt.spec import HarnessError
    raise HarnessError(f"unknown nesting {how!r}")


def unnest(payload, how):
    if how is None:
        return payload
    if how == "tuple":
        return payload[0]
    if how == "list":
        return payload[1]
    if how == "dictval":
        return payload["k"]
    if how in ("dictkey", "set"):
        return next(iter(payload))
    if how == "twice":
        return payload[1][0]
    if how == "deep":
        return payload["a"][1]["b"]
    from pbt.spec import HarnessError
    raise HarnessError(f"unknown nesting {how!r}")


def fields_of(e):
    import dataclasses
    if dataclasses.is_dataclass(e) and "_is_expr_dataclass" in type(e).__dict__:
        return [getattr(e, f.name) for f in dataclasses.fields(e)]
    return list(e.__getinitargs__())


def ref_eq(a, b):
    """Field-wise comparator (as in pbt/props/c01.py): never calls the
    generated __eq__ on composites."""
    import pymbolic.primitives as p
    ea, eb = isinstance(a, p.Expression), isinstance(b, p.Expression)
    if ea or eb:
        if type(a) is not type(b):
            return False
        fa, fb = fields_of(a), fields_of(b)
        return len(fa) == len(fb) and all(ref_eq(x, y) for x, y in zip(fa, fb))
    if isinstance(a, tuple) or isinstance(b, tuple):
        if not (isinstance(a, tuple) and isinstance(b, tuple)) or len(a) != len(b):
            return False
        return all(ref_eq(x, y) for x, y in zip(a, b))
    if isinstance(a, Mapping) or isinstance(b, Mapping):
        if not (isinstance(a, Mapping) and isinstance(b, Mapping)):
            return False
        if set(a) != set(b):
            return False
        return all(ref_eq(a[k], b[k]) for k in a)
    try:
        return type(a) is type(b) and bool(a == b)
    except Exception:
        return False


def expr_nodes(obj, _seen=None):
    """Every Expression instance reachable through instance dicts, tuples,
    lists and mappings (the pickled object graph)."""
    import pymbolic.primitives as p
    if _seen is None:
        _seen = set()
    if id(obj) in _seen:
        return
    if isinstance(obj, p.Expression) or type(obj).__name__ == "MultiVector":
        _seen.add(id(obj))
        yield obj
        for v in list(getattr(obj, "__dict__", {}).values()):
            yield from expr_nodes(v, _seen)
    elif isinstance(obj, (tuple, list, set, frozenset)):
        for c in obj:
            yield from expr_nodes(c, _seen)
    elif isinstance(obj, Mapping):
        for k, v in obj.items():
            yield from expr_nodes(k, _seen)
            yield from expr_nodes(v, _seen)


def is_hash_cache(attr):
    """Instance attributes in which the library caches a process-local hash."""
    return attr == "_hash_value" or attr.startswith("_memoize_dic___hash__")


def dict_shape(obj):
    """Sorted list of 'Class:attr,attr,...' over the reachable nodes (hash
    caches left out: constructors may or may not have hashed)."""
    return sorted({type(n).__name__ + ":" + ",".join(
        sorted(k for k in getattr(n, "__dict__", {}) if not is_hash_cache(k)))
        for n in expr_nodes(obj)})


def digest(obj, channel):
    """-> ["ok", hex] | ["unsupported", text] | ["raised", Type@site, text]"""
    try:
        if channel == "walk":
            from pymbolic.mapper import UnsupportedExpressionError
            from pymbolic.mapper.persistent_hash import PersistentHashWalkMapper
            h = hashlib.sha256()
            try:
                PersistentHashWalkMapper(h)(obj)
            except UnsupportedExpressionError as exc:
                return ["unsupported", str(exc)[:120]]
            return ["ok", h.hexdigest()]
        if channel == "kb":
            try:
                from pytools.persistent_dict import KeyBuilder
            except ImportError:
                return ["unsupported", "pytools.persistent_dict not importable"]
            try:
                return ["ok", KeyBuilder()(obj)]
            except TypeError as exc:
                if "unsupported type for persistent hash keying" in str(exc):
                    return ["unsupported", str(exc)[:120]]
                raise
    except RecursionError:
        return ["unsupported", "recursion limit"]
    except Exception as exc:
        return ["raised", site(exc), str(exc)[:200]]
    raise ValueError(channel)


def digests(obj):
    return {ch: digest(obj, ch) for ch in CHANNELS}


def outcome(fn, args):
    try:
        v = fn(*args)
    except RecursionError:
        raise
    except Exception as exc:
        return "err:" + type(exc).__name__
    return "val:" + repr(v)[:200]


def compiled_results(fn, c):
    _imports()
    order = compiled_arg_order(c)
    out = ["class:" + type(fn).__name__]
    for env_spec in c["envs"]:
        env = envs.build_env(env_spec)
        missing = [n for n in order if n not in env]
        if missing:
            raise HarnessError(f"environment does not bind {missing}")
        out.append(outcome(fn, [env[n] for n in order]))
    return out

# }}}


# {{{ the two roles

def _err(stage, exc):
    return {"ok": False, "stage": stage, "etype": type(exc).__name__,
            "site": site(exc), "msg": str(exc)[:400],
            "harness": type(exc).__name__ == "HarnessError",
            "tb": "".join(traceback.format_exception(exc))[-900:]}


def produce(spec):
    _imports()
    kind = case_kind(spec)
    proto = spec.get("protocol", pickle.HIGHEST_PROTOCOL)
    if not isinstance(proto, int) or not 0 <= proto <= pickle.HIGHEST_PROTOCOL:
        raise HarnessError(f"bad protocol {proto!r}")
    how = spec.get("nest")
    if kind in ("compiled", "numeric") and how in ("dictkey", "set"):
        raise HarnessError("compiled expressions / number types are not used as keys here")
    try:
        obj, ex = build_object(spec)
    except HarnessError:
        raise
    except RecursionError:
        return {"ok": False, "stage": "recursion"}
    except Exception as exc:
        return _err("build", exc)
    out = {"ok": True, "pre_errors": []}
    for op in spec.get("pre_ops", ()):
        try:
            if op == "hash":
                hash(ex)
            elif op == "eq":
                twin = build_object(spec)[1]
                if not (ex == twin):
                    out["pre_errors"].append(["eq", "twin-unequal-in-producer", ""])
            elif op == "str":
                try:
                    str(ex)
                except Exception:
                    pass          # printing is C06's business
            elif op == "repr":
                repr(ex)
            elif op == "dict":
                d = {ex: 1}
                d[ex]
            elif op == "pickle":
                pickle.dumps(nest(obj, how), proto)
            elif op == "roundtrip":
                obj2 = pickle.loads(pickle.dumps(obj, proto))
                if kind != "compiled":
                    ex = obj2
                else:
                    # the caller still holds the source expression
                    pass
                obj = obj2
            elif op == "digest":
                if kind != "compiled":
                    digests(obj)
            elif op == "copy":
                obj = copy.copy(obj)
                if kind != "compiled":
                    ex = obj
            elif op == "call":
                if kind == "compiled" and spec["compiled"]["envs"]:
                    compiled_results(obj, {**spec["compiled"],
                                           "envs": spec["compiled"]["envs"][:1]})
            else:
                raise HarnessError(f"unknown pre-op {op!r}")
        except HarnessError:
            raise
        except RecursionError:
            return {"ok": False, "stage": "recursion"}
        except Exception as exc:
            if kind == "numeric" and isinstance(exc, TypeError) \
                    and "unhashable" in str(exc):
                continue        # Polynomial and Rational are unhashable by design
            out["pre_errors"].append([op, site(exc), str(exc)[:300]])
    # was the root really hashed in this process before pickling?
    out["hashed"] = any(is_hash_cache(k) for k in getattr(ex, "__dict__", {}))
    try:
        data = pickle.dumps(nest(obj, how), proto)
    except RecursionError:
        return {"ok": False, "stage": "recursion"}
    except Exception as exc:
        return _err("pickle", exc)
    out["pickle"] = base64.b64encode(data).decode("ascii")
    try:
        if kind == "compiled":
            out["results"] = compiled_results(obj, spec["compiled"])
            try:
                out["hash"] = str(hash(ex))
            except TypeError:       # an object array of expressions
                out["hash"] = None
        else:
            try:
                out["hash"] = str(hash(obj))
            except TypeError:
                if kind != "numeric":
                    raise
                out["hash"] = None
            out["digests"] = digests(obj)
            # the twin is an equal object built separately, with the other sharing mode:
            # repeated sub-terms are one object in one of the two and separate in the other
            tspec = spec
            if kind == "expr":
                tspec = {**spec, "shared": not spec.get("shared")}
            out["twin_digests"] = digests(build_object(tspec)[0])
            if kind == "expr":
                nt = np_to_py(spec["expr"])
                if nt != spec["expr"]:
                    # numpy scalars replaced by the Python numbers they stand for: an
                    # equal expression; the walk digest normalises numpy scalars
                    out["np_twin_digests"] = digests(build_object({**spec, "expr": nt})[0])
            if kind == "expr" and n_kw_reorderable(spec["expr"]):
                tw = build_object(spec, "kwreorder")[0]
                out["kw_twin_equal"] = bool(tw == obj) and hash(tw) == hash(obj)
                out["kw_digests"] = digests(tw)
    except HarnessError:
        raise
    except RecursionError:
        return {"ok": False, "stage": "recursion"}
    except Exception as exc:
        return _err("producer-observe", exc)
    return out


def _obs(fn):
    try:
        return bool(fn())
    except RecursionError:
        raise
    except Exception as exc:
        return {"raised": site(exc), "msg": str(exc)[:300]}


def consume(spec, data_b64):
    _imports()
    kind = case_kind(spec)
    how = spec.get("nest")
    try:
        local, local_ex = build_object(spec)
    except HarnessError:
        raise
    except RecursionError:
        return {"ok": False, "stage": "recursion"}
    except Exception as exc:
        return _err("build", exc)
    shape_local = dict_shape(local) if kind != "compiled" else None
    try:
        payload = pickle.loads(base64.b64decode(data_b64))
    except RecursionError:
        return {"ok": False, "stage": "recursion"}
    except Exception as exc:
        return _err("unpickle", exc)
    out = {"ok": True}
    try:
        remote = unnest(payload, how)
    except Exception as exc:
        return _err("unnest", exc)
    out["same_type"] = type(remote) is type(local)
    if kind == "compiled":
        try:
            out["results_remote"] = compiled_results(remote, spec["compiled"])
            out["results_local"] = compiled_results(local, spec["compiled"])
            out["hash_local"] = str(hash(local_ex))
        except HarnessError:
            raise
        except RecursionError:
            return {"ok": False, "stage": "recursion"}
        except Exception as exc:
            return _err("consumer-observe", exc)
        return out
    # before anything hashes: no cached hash, no other smuggled state
    if how in ("dictkey", "set"):
        out["stale"] = None           # unpickling the container hashed the key
        out["shape_equal"] = None
    else:
        try:
            stale = sorted({type(n).__name__ for n in expr_nodes(payload)
                            if any(is_hash_cache(k) for k in getattr(n, "__dict__", {}))})
            out["stale"] = stale
            shape_remote = dict_shape(remote)
            out["shape_equal"] = shape_remote == shape_local
            if not out["shape_equal"]:
                out["shape_diff"] = [sorted(set(shape_remote) - set(shape_local))[:4],
                                     sorted(set(shape_local) - set(shape_remote))[:4]]
        except Exception as exc:
            return _err("inspect", exc)
    try:
        groups = {
            "eq": lambda: out.update(
                eq_rl=_obs(lambda: remote == local), eq_lr=_obs(lambda: local == remote),
                ne_rl=_obs(lambda: remote != local)),
            "hash": lambda: out.update(
                hash_eq=_obs(lambda: hash(remote) == hash(local))),
            "lookup": lambda: out.update(
                dict_get=_obs(lambda: {local: 1}.get(remote) == 1),
                in_set=_obs(lambda: remote in {local}),
                rev_in_set=_obs(lambda: local in {remote})),
        }
        orders = (("eq", "hash", "lookup"), ("hash", "eq", "lookup"),
                  ("lookup", "eq", "hash"), ("lookup", "hash", "eq"),
                  ("eq", "lookup", "hash"), ("hash", "lookup", "eq"))
        po = spec.get("post_order", 0)
        if not isinstance(po, int):
            raise HarnessError("post_order must be an int")
        hashable = True
        if kind == "numeric":
            try:
                hash(build_object(spec)[0])
            except TypeError:
                hashable = False
        out["hashable"] = hashable
        for g in orders[po % len(orders)]:
            if hashable or g == "eq":
                groups[g]()
        if how == "dictkey":
            out["container"] = _obs(lambda: payload.get(local) == "v" and local in payload)
        elif how == "set":
            out["container"] = _obs(lambda: local in payload)
        out["ref_eq"] = _obs(lambda: ref_eq(remote, local))
        out["hash_local"] = str(hash(local)) if hashable else None
        out["digests_local"] = digests(build_object(spec)[0])
        out["digests_remote"] = digests(remote)
    except HarnessError:
        raise
    except RecursionError:
        return {"ok": False, "stage": "recursion"}
    except Exception as exc:
        return _err("consumer-observe", exc)
    return out


def subdigests(spec):
    _imports()
    if case_kind(spec) != "expr":
        return {"ok": True, "subs": []}
    out = []
    for s in subspecs(spec["expr"]):
        try:
            o = build(s)
        except Exception:
            out.append([s[0], None])
            continue
        out.append([s[0], digests(o)])
    return {"ok": True, "subs": out}

# }}}


# {{{ server loop

def _die_with_parent():
    try:
        import ctypes
        import signal
        libc = ctypes.CDLL("libc.so.6", use_errno=True)
        libc.prctl(1, signal.SIGKILL)      # PR_SET_PDEATHSIG
    except Exception:
        pass


def serve():
    _die_with_parent()
    ppid = os.getppid()
    # private channel: nothing the library prints can corrupt the protocol
    chan = os.fdopen(os.dup(1), "w", buffering=1)
    os.dup2(2, 1)
    sys.stdout = sys.stderr
    import warnings
    warnings.simplefilter("ignore")
    sys.setrecursionlimit(3000)
    try:
        _imports()
        src = os.environ.get("PYMBOLIC_SRC")
        if src and not os.path.abspath(pymbolic.__file__).startswith(
                os.path.abspath(src)):
            raise RuntimeError(
                f"PYMBOLIC_SRC={src} but the worker imported {pymbolic.__file__}")
        hello = {"ready": True, "pid": os.getpid(),
                 "hashseed": os.environ.get("PYTHONHASHSEED"),
                 "opt": not __debug__, "pymbolic": pymbolic.__file__,
                 "frozen": bool(p.Variable.__dataclass_params__.frozen)}
    except BaseException as exc:
        chan.write(json.dumps({"ready": False, "error": "".join(
            traceback.format_exception(exc))[-1500:]}) + "\n")
        return 3
    chan.write(json.dumps(hello) + "\n")
    for line in sys.stdin:
        line = line.strip()
        if not line:
            continue
        if os.getppid() != ppid:
            break
        try:
            req = json.loads(line)
            op = req.get("op")
            if op == "quit":
                break
            if op == "ping":
                ans = {"ok": True}
            elif op == "produce":
                ans = produce(req["case"])
            elif op == "consume":
                ans = consume(req["case"], req["pickle"])
            elif op == "subdigests":
                ans = subdigests(req["case"])
            else:
                ans = {"ok": False, "stage": "protocol", "harness": True,
                       "msg": f"unknown op {op!r}"}
        except BaseException as exc:
            if isinstance(exc, (KeyboardInterrupt, SystemExit)):
                break
            ans = _err("worker", exc)
            # anything that escapes the role functions is machinery trouble
            # unless it carries a pymbolic frame
            ans["harness"] = ans["harness"] or "@?" in ans["site"]
        chan.write(json.dumps(ans) + "\n")
    return 0


if __name__ == "__main__":
    sys.exit(serve())

# }}}
