"""JSON case specs for pymbolic expressions and the builder turning them into
live objects.

A spec is nested lists/strings/numbers only:

    ["Var", "x"]
    ["Const", "int", 5] / ["Const", "float", 1.5] / ["Const", "bool", true]
    ["Const", "complex", [re, im]] / ["Const", "np.int64", 3] ...
    ["Frac", num, den]                      (environment values only)
    ["Tuple", [specs]] ["List", [specs]] ["NpArray", [specs]]
    [ClassName, field1, field2, ...]        fields in dataclass order

Field encodings are chosen from the dataclass annotation (table derived from
pymbolic.primitives at import time):

    expression field          -> spec (or null where the class allows None)
    tuple of expressions      -> JSON list of specs (null allowed for Slice)
    str / optional str        -> string / null
    tuple of str              -> list of strings
    mapping str -> expression -> list of [key, spec] pairs, in insertion order
    NaN.data_type             -> null | "float" | "np.float64"

``build`` creates fresh objects on every call; ``build_shared`` hash-conses
identical sub-specs.
"""
from __future__ import annotations

import dataclasses
import json
from fractions import Fraction

import numpy as np
from immutabledict import immutabledict

import pymbolic.primitives as p


class HarnessError(Exception):
    """The machinery (not pymbolic) is wrong or got an invalid spec."""


# {{{ node table by introspection

K_EXPR, K_EXPRS, K_STR, K_OPTSTR, K_STRS, K_KWMAP, K_DTYPE = (
    "expr", "exprs", "str", "optstr", "strs", "kwmap", "dtype")

_ANNOT_KIND = {
    "ExpressionT": K_EXPR,
    "tuple[ExpressionT, ...]": K_EXPRS,
    "str": K_STR,
    "str | None": K_OPTSTR,
    "tuple[str, ...]": K_STRS,
    "Mapping[str, ExpressionT]": K_KWMAP,
    "Callable[[float], Any] | None": K_DTYPE,
}


def _field_kind(cls, fld):
    ann = fld.type if isinstance(fld.type, str) else getattr(
        fld.type, "__name__", repr(fld.type))
    ann = " ".join(ann.split())
    if cls.__name__ == "Slice" and fld.name == "children":
        return K_EXPRS
    try:
        return _ANNOT_KIND[ann]
    except KeyError:
        raise HarnessError(
            f"unknown field annotation {ann!r} on {cls.__name__}.{fld.name}: "
            "extend pbt/spec.py") from None


def _collect_node_table():
    table = {}
    for name in dir(p):
        cls = getattr(p, name)
        if (isinstance(cls, type) and issubclass(cls, p.Expression)
                and "_is_expr_dataclass" in cls.__dict__
                and cls.__module__ == p.__name__):
            flds = [(f.name, _field_kind(cls, f)) for f in dataclasses.fields(cls)]
            table[cls.__name__] = (cls, flds)
    return table


NODE_TABLE = _collect_node_table()
# classes that are only bases / never instantiated as tree nodes by users
ABSTRACT = {"AlgebraicLeaf", "Leaf", "QuotientBase", "_ShiftOperator",
            "Expression"}
CONCRETE = sorted(n for n in NODE_TABLE if n not in ABSTRACT)

CONTAINER_TAGS = ("Tuple", "List", "NpArray", "ParsedList", "ParsedTuple")
LEAF_TAGS = ("Var", "Const", "Frac")
ALL_TAGS = set(NODE_TABLE) | set(CONTAINER_TAGS) | set(LEAF_TAGS) | {
    "CallWithKwargsDict", "MultiVector"}

# }}}


CONST_TYPES = {
    "int": int, "bool": bool, "float": float,
    "np.int64": np.int64, "np.int32": np.int32, "np.float64": np.float64,
    "np.float32": np.float32, "np.bool_": np.bool_,
}
DTYPES = {None: None, "float": float, "np.float64": np.float64}


def is_node_spec(s):
    return (isinstance(s, list) and len(s) >= 1 and isinstance(s[0], str)
            and s[0] in ALL_TAGS)


def build_const(tp, val):
    if tp == "complex":
        return complex(val[0], val[1])
    if tp == "np.complex128":
        return np.complex128(complex(val[0], val[1]))
    try:
        return CONST_TYPES[tp](val)
    except KeyError:
        raise HarnessError(f"unknown constant type {tp!r}") from None


class Builder:
    def __init__(self, shared=False, extra_classes=None):
        self.shared = shared
        self.memo = {}
        self.extra = extra_classes or {}

    def __call__(self, s):
        if not self.shared:
            return self._build(s)
        key = json.dumps(s, sort_keys=True)
        try:
            return self.memo[key]
        except KeyError:
            r = self.memo[key] = self._build(s)
            return r

    def _field(self, kind, v):
        if kind == K_EXPR:
            return None if v is None else self(v)
        if kind == K_EXPRS:
            return tuple(None if c is None else self(c) for c in v)
        if kind == K_STR:
            if v is None:
                return None   # deprecated spelling: CommonSubexpression(scope=None)
            if not isinstance(v, str):
                raise HarnessError(f"str field got {v!r}")
            return v
        if kind == K_OPTSTR:
            return v
        if kind == K_STRS:
            return tuple(v)
        if kind == K_KWMAP:
            return immutabledict({k: self(c) for k, c in v})
        if kind == K_DTYPE:
            return DTYPES[v]
        raise HarnessError(kind)

    def _build(self, s):
        if not isinstance(s, list) or not s or not isinstance(s[0], str):
            raise HarnessError(f"not a spec: {s!r}")
        tag = s[0]
        if tag == "Var":
            return p.Variable(s[1])
        if tag == "Const":
            return build_const(s[1], s[2])
        if tag == "Frac":
            return Fraction(s[1], s[2])
        if tag == "Tuple":
            return tuple(self(c) for c in s[1])
        if tag == "List":
            return [self(c) for c in s[1]]
        if tag == "MultiVector":
            # ["MultiVector", [[blade bits, coefficient spec], ...], dimensions]
            from pymbolic.geometric_algebra import MultiVector, get_euclidean_space
            if len(s) != 3 or not isinstance(s[2], int) or not 0 <= s[2] <= 4 \
                    or not isinstance(s[1], list) or not all(
                        isinstance(t, list) and len(t) == 2 and isinstance(t[0], int)
                        and not isinstance(t[0], bool) and 0 <= t[0] < 2 ** s[2]
                        for t in s[1]) or len({t[0] for t in s[1]}) != len(s[1]):
                raise HarnessError(f"bad multivector spec {s!r}")
            return MultiVector({bits: self(c) for bits, c in s[1]},
                               get_euclidean_space(s[2]))
        if tag in ("ParsedList", "ParsedTuple"):
            # the containers the parser leaves in expressions for [a, b] and (a, b)
            from pymbolic.parser import FinalizedList, FinalizedTuple
            return (FinalizedList if tag == "ParsedList" else FinalizedTuple)(
                self(c) for c in s[1])
        if tag == "NpArray":
            arr = np.empty(len(s[1]), dtype=object)
            for i, c in enumerate(s[1]):
                arr[i] = self(c)
            if len(s) > 2:      # optional shape: ["NpArray", [items], [2, 3]]
                shape = s[2]
                if not isinstance(shape, list) or not all(
                        isinstance(k, int) and not isinstance(k, bool) and k >= 0
                        for k in shape) or int(np.prod(shape)) != len(s[1]):
                    raise HarnessError(f"bad array shape {shape!r}")
                arr = arr.reshape(tuple(shape))
            return arr
        if tag == "CallWithKwargsDict":
            # same as CallWithKwargs but handing a plain dict to the constructor
            return p.CallWithKwargs(
                self(s[1]), tuple(self(c) for c in s[2]),
                {k: self(c) for k, c in s[3]})
        if tag in self.extra:
            cls, flds = self.extra[tag]
        else:
            try:
                cls, flds = NODE_TABLE[tag]
            except KeyError:
                raise HarnessError(f"unknown node tag {tag!r}") from None
        if len(s) - 1 != len(flds):
            raise HarnessError(f"{tag}: expected {len(flds)} fields, got {s!r}")
        args = [self._field(kind, v) for (_, kind), v in zip(flds, s[1:])]
        return cls(*args)


def build(s, extra_classes=None):
    return Builder(False, extra_classes)(s)


def build_shared(s, extra_classes=None):
    return Builder(True, extra_classes)(s)


def build_value(v):
    """Environment values: ints/bools/floats as themselves, ["Frac",n,d],
    ["Tuple",[..]] / ["List",[..]] / {"k": v} dicts of values."""
    if isinstance(v, list):
        if v and v[0] == "Frac":
            return Fraction(v[1], v[2])
        if v and v[0] == "Tuple":
            return tuple(build_value(c) for c in v[1])
        if v and v[0] == "List":
            return [build_value(c) for c in v[1]]
        if v and v[0] == "Const":
            return build_const(v[1], v[2])
        raise HarnessError(f"bad env value {v!r}")
    return v


def build_env(env):
    return {k: build_value(v) for k, v in env.items()}


# {{{ object -> spec (for reporting parse results etc.)

def spec_of(e):
    if isinstance(e, p.Variable) and type(e) is p.Variable:
        return ["Var", e.name]
    if isinstance(e, p.Expression):
        name = type(e).__name__
        if name not in NODE_TABLE:
            return ["<" + name + ">", repr(e)]
        _, flds = NODE_TABLE[name]
        out = [name]
        for fname, kind in flds:
            v = getattr(e, fname)
            if kind == K_EXPR:
                out.append(None if v is None else spec_of(v))
            elif kind == K_EXPRS:
                out.append([None if c is None else spec_of(c) for c in v])
            elif kind in (K_STR, K_OPTSTR):
                out.append(v)
            elif kind == K_STRS:
                out.append(list(v))
            elif kind == K_KWMAP:
                out.append([[k, spec_of(c)] for k, c in v.items()])
            elif kind == K_DTYPE:
                out.append({None: None, float: "float",
                            np.float64: "np.float64"}.get(v, repr(v)))
        return out
    if isinstance(e, tuple):
        return ["Tuple", [spec_of(c) for c in e]]
    if isinstance(e, list):
        return ["List", [spec_of(c) for c in e]]
    if isinstance(e, np.ndarray):
        if e.ndim != 1:
            return ["NpArray", [spec_of(c) for c in e.flat], list(e.shape)]
        return ["NpArray", [spec_of(c) for c in e.flat]]
    if isinstance(e, Fraction):
        return ["Frac", e.numerator, e.denominator]
    if isinstance(e, (bool, np.bool_)):
        return ["Const", "bool" if isinstance(e, bool) else "np.bool_", bool(e)]
    if isinstance(e, complex):
        return ["Const", "complex", [e.real, e.imag]]
    for tn, t in CONST_TYPES.items():
        if type(e) is t:
            return ["Const", tn, e.item() if hasattr(e, "item") else e]
    return ["<" + type(e).__name__ + ">", repr(e)]

# }}}


def spec_size(s):
    """Number of node specs inside *s* (used to pick the smallest failure)."""
    if is_node_spec(s):
        return 1 + sum(spec_size(c) for c in s[1:])
    if isinstance(s, list):
        return sum(spec_size(c) for c in s)
    if isinstance(s, dict):
        return sum(spec_size(c) for c in s.values())
    return 0


def subspecs(s):
    """All node sub-specs of *s* in preorder (including *s*)."""
    out = []

    def rec(x):
        if is_node_spec(x):
            out.append(x)
            for c in x[1:]:
                rec(c)
        elif isinstance(x, list):
            for c in x:
                rec(c)
        elif isinstance(x, dict):
            for c in x.values():
                rec(c)
    rec(s)
    return out


def retype(s, how):
    """The spec with numeric constants replaced by == constants of another type
    (how: i2f | f2i | b2i): an 'equal' expression that means something else."""
    if isinstance(s, list):
        if len(s) == 3 and s[0] == "Const":
            if how == "i2f" and s[1] == "int" and abs(s[2]) < 2**50:
                return ["Const", "float", float(s[2])]
            if how == "f2i" and s[1] == "float" and s[2] == s[2] and abs(s[2]) < 2**50 \
                    and s[2] == int(s[2]):
                return ["Const", "int", int(s[2])]
            if how == "b2i" and s[1] == "bool":
                return ["Const", "int", int(s[2])]
            return s
        return [retype(c, how) for c in s]
    return s


def twin_how(spec):
    """Deterministic choice (from the case itself) of whether a retyped twin of the
    case's expression is run through the code under test first: None | i2f | f2i."""
    import json
    import zlib
    k = zlib.crc32(json.dumps(spec, sort_keys=True, default=repr).encode()) % 5
    return {0: "i2f", 1: "f2i"}.get(k)


def twin_first(spec_expr, how, *fns):
    """Apply every fn to the retyped twin (4 -> 4.0 / 2.0 -> 2) of an expression spec,
    in this process, before the case proper; outcomes and exceptions are ignored.  On a
    library without process-wide state keyed by == this changes nothing.  -> ran?"""
    if not how:
        return False
    t = retype(spec_expr, how)
    if t == spec_expr:
        return False
    try:
        e = build(t)
    except RecursionError:
        raise
    except Exception:
        return False
    for fn in fns:
        try:
            fn(e)
        except RecursionError:
            raise
        except Exception:
            pass
    return True


def hash_twin(s):
    """The spec with the constants -1 and -2 exchanged (ints and floats): in CPython
    hash(-1) == hash(-2), and with them the hashes of all nodes built around them, so
    the twin is an *unequal* expression with the *same* hash.  None if nothing changes."""
    changed = [False]

    def rec(x):
        if isinstance(x, list):
            if len(x) == 3 and x[0] == "Const" and x[1] in ("int", "float") \
                    and not isinstance(x[2], bool) and x[2] in (-1, -2):
                changed[0] = True
                return [x[0], x[1], type(x[2])(-3 - x[2])]
            return [rec(c) for c in x]
        return x
    out = rec(s)
    return out if changed[0] else None
