"""Property-based verification machinery for inducer/pymbolic (see /verif/DESIGN.md)."""
