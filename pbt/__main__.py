import sys

from pbt.runner import main

sys.exit(main())
