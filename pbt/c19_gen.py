"""Hypothesis strategies producing the JSON case specs of C19
(pbt/props/c19.py).  Pure data: nothing here imports pymbolic.
"""
from __future__ import annotations

from fractions import Fraction

from hypothesis import strategies as st

from pbt import polyref as R

SMALL = (-3, -2, -1, 1, 2, 3)
TINY = (-1, 1, 1, -1, 2, -2)
POINTS = (0, 1, -1, 2, -2, 3, 5, ["Frac", 1, 2], ["Frac", -2, 3], ["Frac", 5, 3],
          ["Frac", -7, 4], 10)


# {{{ numbers

@st.composite
def coeff(draw, mode):
    if mode == "tiny":
        return draw(st.sampled_from(TINY))
    if mode == "small":
        return draw(st.sampled_from(SMALL))
    if mode == "int":
        v = draw(st.integers(-9, 9))
        return v or 1
    if mode == "big":
        return draw(st.one_of(wide(70), st.sampled_from(SMALL)))
    # frac
    n = draw(st.integers(-6, 6)) or 1
    d = draw(st.sampled_from((1, 2, 2, 3, 4)))
    return R.num_spec(Fraction(n, d))


MODES = ("tiny", "tiny", "small", "small", "small", "int", "frac", "frac", "big")


def terms_spec(d):
    return [[e, R.num_spec(c)] for e, c in sorted(d.items()) if c != 0]


@st.composite
def poly_terms(draw, mode=None, max_deg=8, min_terms=0, allow_zero=True):
    mode = mode or draw(st.sampled_from(MODES))
    k = draw(st.integers(0, 24))
    if allow_zero and min_terms == 0 and k == 0:
        return []
    if min_terms <= 1 and k == 1:
        return [[0, draw(coeff(mode))]]
    if min_terms <= 1 and k == 2:
        return [[draw(st.integers(0, max_deg)), draw(coeff(mode))]]
    dense = draw(st.booleans())
    exps = [e for e in range(max_deg + 1)
            if draw(st.integers(0, 9)) < (7 if dense else 4)]
    while len(exps) < max(1, min_terms):
        e = draw(st.integers(0, max_deg))
        if e not in exps:
            exps.append(e)
    return [[e, draw(coeff(mode))] for e in sorted(exps)]


def pts():
    return st.lists(st.sampled_from(POINTS), min_size=2, max_size=3, unique_by=repr)

# }}}


# {{{ integer_power, Euclid, quotient

def wide(bits):
    """Integers that really use up to *bits* bits (Hypothesis' own integers()
    strategy prefers small magnitudes)."""
    return st.builds(lambda s, e, m: s * ((1 << e) + m % (1 << e)),
                     st.sampled_from((1, -1)), st.integers(bits // 2, bits - 1),
                     st.integers(0, 1 << bits))

@st.composite
def ipow_case(draw):
    dom = draw(st.sampled_from(("int", "int", "frac", "mat", "str", "mutmat")))
    if dom == "int":
        x = draw(st.one_of(st.integers(-9, 9), wide(128)))
    elif dom == "frac":
        x = [draw(st.integers(-2 ** 16, 2 ** 16)), draw(st.integers(1, 2 ** 16))]
    elif dom in ("mat", "mutmat"):
        x = [[draw(st.integers(-5, 5)) for _ in range(2)] for _ in range(2)]
    else:
        x = draw(st.text("abc", min_size=0, max_size=3))
    n = draw(st.one_of(st.integers(0, 64), st.integers(0, 64), st.integers(65, 2000),
                       st.integers(-20, -1)))
    if dom == "int" and abs(x) > 2 ** 20 and n > 600:
        n = n % 600
    return {"dom": dom, "x": x, "n": n, "one": draw(st.booleans())}


@st.composite
def euclid_case(draw):
    big = wide(128)
    c = draw(st.integers(0, 9))
    if c <= 3:
        return {"q": draw(big), "r": draw(big)}
    if c == 4:
        q = draw(big)
        return {"q": q, "r": draw(st.sampled_from((q, -q, 0, 1, -1)))}
    if c == 5:        # common factor, multiples
        g = abs(draw(wide(64)))
        return {"q": g * draw(wide(48)), "r": g * draw(wide(48))}
    if c == 6:        # consecutive Fibonacci-like (longest chains)
        a, b = 1, draw(st.integers(1, 3))
        for _ in range(draw(st.integers(5, 150))):
            a, b = b, a + b
        s = draw(st.sampled_from((1, -1)))
        return {"q": s * a, "r": b} if draw(st.booleans()) else {"q": b, "r": s * a}
    if c == 7:
        return {"q": draw(st.integers(-1000, 1000)), "r": draw(big)}
    return {"q": draw(st.integers(-10 ** 6, 10 ** 6)),
            "r": draw(st.integers(-10 ** 6, 10 ** 6))}


@st.composite
def gcd_many_case(draw):
    n = draw(st.integers(0, 6))
    g = draw(st.sampled_from((1, 1, 2, 6, 35, 2 ** 40 + 15)))
    elem = st.one_of(st.integers(-60, 60), wide(64),
                     st.just(0))
    return {"args": [g * draw(elem) for _ in range(n)]}


@st.composite
def quotient_case(draw):
    c = draw(st.integers(0, 5))
    if c <= 1:
        a, b = draw(wide(53)), draw(wide(draw(st.sampled_from((8, 30, 53)))))
    elif c == 2:
        g = draw(st.integers(1, 1000))
        a, b = g * draw(st.integers(-10 ** 4, 10 ** 4)), g * draw(st.integers(-999, 999))
    elif c == 3:
        a, b = draw(wide(128)), draw(wide(128))
    elif c == 4:
        a, b = draw(wide(128)), draw(st.sampled_from((1, -1, 2, -3)))
    else:
        a, b = draw(st.integers(-100, 100)), draw(st.integers(-100, 100))
    return {"a": a, "b": b or 1, "ctor": draw(st.sampled_from(("quotient", "Rational")))}

# }}}


# {{{ polynomial pairs for Euclid: exact remainder chains built backwards

@st.composite
def _unit_lead_poly(draw, min_deg, max_deg):
    deg = draw(st.integers(min_deg, max_deg))
    d = {deg: draw(st.sampled_from((1, -1)))}
    for e in range(deg):
        if draw(st.booleans()):
            d[e] = draw(st.sampled_from(SMALL))
    return d


@st.composite
def euclid_poly_case(draw):
    c = draw(st.integers(0, 11))
    if c == 0:       # unconstrained pair (usually outside the exact domain: skipped)
        return {"q": draw(poly_terms(max_deg=4)), "r": draw(poly_terms(max_deg=4))}
    g = draw(_unit_lead_poly(0, 2))
    steps = draw(st.integers(0, 3))
    chain = [g, {}]                 # r_k = g, r_{k+1} = 0
    for _ in range(steps):
        q = draw(_unit_lead_poly(1 if len(chain) > 2 or draw(st.booleans()) else 0, 2))
        chain.insert(0, R.add(R.mul(q, chain[0]), chain[1]))
    a, b = chain[0], chain[1]
    if c == 1:
        a = {}                     # zero member
    if draw(st.booleans()):
        a, b = b, a
    if draw(st.integers(0, 3)) == 0:
        s = Fraction(draw(st.integers(-5, 5)) or 1, draw(st.sampled_from((1, 2, 3))))
        k = draw(st.sampled_from((1, 1, 2, -1)))
        a, b = R.scale(a, s * k), R.scale(b, s)
    if max(R.degree(a), R.degree(b)) > 12:
        a, b = g, {}
    return {"q": terms_spec(a), "r": terms_spec(b)}

# }}}


# {{{ FFT

@st.composite
def fft_data(draw, n, ints=True):
    if ints or draw(st.integers(0, 3)):
        el = st.integers(-4, 4)
        return [[draw(el), draw(el)] for _ in range(n)]
    el = st.sampled_from((-2.5, -1.0, -0.5, 0.0, 0.25, 0.5, 1.0, 1.5, 3.0))
    return [[draw(el), draw(el)] for _ in range(n)]


@st.composite
def fft_case(draw, max_n=360):
    c = draw(st.integers(0, 9))
    if c <= 4:
        n = draw(st.integers(65, max_n))
    elif c <= 6:     # composite with several distinct prime factors / prime squares
        n = draw(st.sampled_from((66, 70, 72, 75, 77, 84, 90, 96, 98, 100, 105, 108, 120,
                                  121, 125, 126, 128, 135, 143, 144, 150, 165, 169, 180,
                                  187, 192, 200, 210, 216, 225, 231, 240, 243, 245, 256,
                                  270, 289, 300, 315, 323, 330, 343, 360)))
        n = min(n, max_n)
    else:
        n = draw(st.integers(1, 64))
    dtype = draw(st.sampled_from(("c128", "c128", "c128", "f64", "i64")))
    x = draw(fft_data(n, ints=(dtype == "i64")))
    out = {"x": x, "sign": draw(st.sampled_from((1, 1, -1))), "dtype": dtype,
           "sym": n <= 100 and draw(st.integers(0, 2)) == 0}
    w = draw(st.sampled_from((None, None, "c64", "f32")))
    if w:
        out["warm"] = w
    return out

# }}}


# {{{ Polynomial arithmetic

def _flip_odd(ts):
    return [[e, R.num_spec(-R.num(c) if e % 2 else R.num(c))] for e, c in ts]


@st.composite
def poly_pair(draw, for_mul=False):
    mode = draw(st.sampled_from(MODES))
    a = draw(poly_terms(mode))
    c = draw(st.integers(0, 9))
    if c == 0 and a:
        b = _flip_odd(a)                       # a(x) a(-x): odd terms cancel
    elif c == 1 and a:
        b = [list(t) for t in a]               # equal operands
    elif c == 2 and a:
        b = [[e, R.num_spec(-R.num(v))] for e, v in a]      # negated
    elif c == 3 and len(a) >= 2:               # one coefficient perturbed
        b = [list(t) for t in a]
        i = draw(st.integers(0, len(b) - 1))
        b[i][1] = draw(coeff(mode))
    elif c == 4:                               # 1 - x against 1 + x + ... + x^k
        k = draw(st.integers(1, 7))
        a = [[0, 1], [1, -1]]
        b = [[e, 1] for e in range(k + 1)]
        if draw(st.booleans()):
            a, b = b, a
    else:
        b = draw(poly_terms(mode if draw(st.booleans()) else None,
                            min_terms=3 if for_mul and c >= 7 else 0))
    return a, b


@st.composite
def poly_case(draw):
    c = draw(st.integers(0, 99))
    if c < 30:
        a, b = draw(poly_pair(for_mul=True))
        if c < 12 and len(a) < 3:
            a = draw(poly_terms("tiny", min_terms=3))
            b = draw(poly_terms("tiny", min_terms=3))
        return {"op": "mul", "a": a, "b": b, "pts": draw(pts())}
    if c < 42:
        a, b = draw(poly_pair())
        return {"op": draw(st.sampled_from(("add", "sub"))), "a": a, "b": b,
                "pts": draw(pts())}
    if c < 54:
        mode = draw(st.sampled_from(("tiny", "tiny", "small", "frac")))
        n = draw(st.integers(0, 5))
        a = draw(poly_terms(mode, max_deg=8 if n <= 2 else 4))
        return {"op": "pow", "a": a, "n": n, "pts": draw(pts())}
    if c < 76:
        return draw(divmod_case())
    if c < 82:
        mode = draw(st.sampled_from(MODES))
        a = draw(poly_terms(mode, max_deg=5))
        b = draw(divisor(mode))
        return {"op": "truediv", "a": a, "b": b, "pts": []}
    if c < 86:
        return {"op": draw(st.sampled_from(("neg", "bmul"))), "a": draw(poly_terms()),
                "pts": draw(pts())}
    mode = draw(st.sampled_from(MODES))
    return {"op": draw(st.sampled_from(("sadd", "sradd", "ssub", "srsub", "srsub",
                                        "smul", "srmul"))),
            "a": draw(poly_terms(mode)),
            "b": draw(st.one_of(coeff(mode), coeff(mode), st.just(0))),
            "pts": draw(pts())}


@st.composite
def divisor(draw, mode):
    """Divisor polynomial; unit lead coefficient most of the time so that the
    division runs to completion."""
    b = draw(poly_terms(mode, max_deg=4, allow_zero=draw(st.integers(0, 19)) == 0))
    if b and draw(st.integers(0, 3)) != 0:
        b[-1][1] = draw(st.sampled_from((1, -1)))
    return b


@st.composite
def divmod_case(draw):
    mode = draw(st.sampled_from(("tiny", "small", "small", "int", "frac", "big")))
    b = draw(divisor(mode))
    c = draw(st.integers(0, 5))
    if c <= 2 and b:      # a = q*b + r with deg r < deg b: every intermediate is exact
        q = R.from_terms(R.terms(draw(poly_terms(mode, max_deg=4))))
        db = R.from_terms(R.terms(b))
        r = {e: v for e, v in R.from_terms(R.terms(draw(poly_terms(mode, max_deg=3)))).items()
             if e < R.degree(db)}
        a = terms_spec(R.add(R.mul(q, db), r))
    else:
        a = draw(poly_terms(mode))
    return {"op": "divmod", "a": a, "b": b, "pts": draw(pts())}

# }}}


# {{{ symbolic coefficients, mappers

NAMES = ("a", "b", "c")


@st.composite
def sym_coeff(draw):
    c = draw(st.integers(0, 9))
    k = draw(st.sampled_from((1, 2, 3, 4, 7, -1, -2)))
    v = ["Var", draw(st.sampled_from(NAMES))]
    if c <= 2:
        return k
    if c <= 4:
        return v
    if c == 5:
        return ["Sum", [v, ["Const", "int", k]]]
    if c == 6:
        return ["Product", [["Const", "int", k], v]]
    if c == 7:
        return ["Sum", [v, ["Var", draw(st.sampled_from(NAMES))]]]
    if c == 8:
        return ["Sum", [["Product", [["Const", "int", k], v]],
                        ["Const", "int", draw(st.sampled_from((1, 2, 4)))]]]
    return ["Product", [v, ["Var", draw(st.sampled_from(NAMES))]]]


@st.composite
def sym_terms(draw, symbolic=True, max_exp=8, min_terms=0):
    n = draw(st.integers(max(min_terms, 0), 5))
    exps = sorted(draw(st.lists(st.integers(0, max_exp), min_size=n, max_size=n,
                                unique=True)))
    out = []
    for e in exps:
        if symbolic and draw(st.integers(0, 2)):
            out.append([e, draw(sym_coeff())])
        else:
            out.append([e, draw(st.sampled_from((1, 2, 3, 4, 7, -1, -2, 5)))])
    return out


@st.composite
def env_spec(draw, ints=True):
    env = {}
    pool = (1, -1, 2, -2, 3, 5, 10, 4, -3, 7) if ints else POINTS[1:] + (4, -3, 7)
    for nm in ("x", "y") + NAMES:
        env[nm] = draw(st.sampled_from(pool))
    if draw(st.integers(0, 7)) == 0:
        env["x"] = 0
    return env


@st.composite
def poly_eval_case(draw):
    c = draw(st.integers(0, 9))
    if c <= 5:      # numeric, large gaps (Horner exponent differences)
        mode = draw(st.sampled_from(MODES))
        n = draw(st.integers(0, 6))
        exps = sorted(draw(st.lists(st.integers(0, 40), min_size=n, max_size=n,
                                    unique=True)))
        p = [[e, draw(coeff(mode))] for e in exps]
        return {"p": p, "env": draw(env_spec(ints=False))}
    p = draw(sym_terms(min_terms=1))
    return {"p": p, "env": draw(env_spec())}


@st.composite
def asprim_case(draw):
    return {"p": draw(sym_terms(symbolic=draw(st.booleans()))), "env": draw(env_spec())}


def _consts_in(ts):
    out = []

    def rec(c):
        if isinstance(c, int):
            out.append(c)
        elif c[0] == "Const":
            out.append(c[2])
        elif c[0] in ("Sum", "Product"):
            for ch in c[1]:
                rec(ch)
    for _, c in ts:
        rec(c)
    return out


@st.composite
def poly_map_case(draw):
    p = draw(sym_terms(symbolic=draw(st.booleans()), min_terms=1))
    consts = _consts_in(p) or [1]
    c = draw(st.integers(0, 9))
    if c <= 2:
        rule = {"kind": "scale", "k": draw(st.sampled_from((2, 3, -1, 10, 0)))}
    elif c <= 6:
        rule = {"kind": "replace", "from": draw(st.sampled_from(consts)),
                "to": draw(st.sampled_from((9, 11, -6, 0, 100)))}
    elif c <= 8:
        rule = {"kind": "ge", "t": draw(st.sampled_from(consts + [3])),
                "add": draw(st.sampled_from((1, 10, -20)))}
    else:
        rule = {"kind": "none"}
    rename = {}
    r = draw(st.integers(0, 9))
    if r == 0:
        rename["x"] = "y"
    elif r <= 2:
        rename[draw(st.sampled_from(NAMES))] = draw(st.sampled_from(NAMES + ("y",)))
    elif r == 3:
        rename = {"x": "y", "a": "b"}
    return {"p": p, "rw": {"const": rule, "rename": rename}, "env": draw(env_spec())}


@st.composite
def poly_subst_case(draw):
    p = draw(sym_terms(min_terms=1))
    subst = {}
    for nm in NAMES:
        if draw(st.integers(0, 2)) == 0:
            subst[nm] = draw(st.one_of(
                st.sampled_from((2, 3, -1, 0, 6)),
                st.sampled_from((["Var", "b"], ["Var", "y"], ["Var", "c"])),
                st.just(["Sum", [["Var", "b"], ["Const", "int", 1]]]),
                st.just(["Product", [["Const", "int", 2], ["Var", "y"]]])))
    if draw(st.integers(0, 3)) == 0:
        subst["x"] = draw(st.sampled_from((
            ["Var", "y"], ["Sum", [["Var", "y"], ["Const", "int", 1]]],
            ["Product", [["Const", "int", 2], ["Var", "y"]]], 2, ["Var", "a"])))
    return {"p": p, "subst": subst, "env": draw(env_spec())}

# }}}
