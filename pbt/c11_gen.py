"""Generators and spec-level transformations for C11 (algebraic rewrites).

Everything here works on JSON specs (pbt.spec).  Fragments:

  RATIONAL  Var, numeric constants, Sum, Product, Quotient, Power(., int of any sign)
  POLY      Var, int/bool constants, Sum, Product, Power(., int >= 0)
  TERMS     flat Sum of multiplicative terms (TermCollector's documented input)

Exactness by construction: the library folds constants with Python numbers, so
an int/int division of constants yields a float.  ``sanitize`` makes every
constant-only denominator (and every constant-only base of a negative power) a
power of two, so that all constant arithmetic the rewrites perform is exact in
binary floating point; what cannot be excluded by construction (cancellation
producing a constant denominator) is recognised in the check as float rounding.
"""
from __future__ import annotations

from hypothesis import strategies as st

from pbt.spec import HarnessError, is_node_spec

VARS = ("x", "y", "z")
PARAMS = ("a", "b")

INT_C = (-3, -2, -1, 0, 1, 2, 3, 4, 5, 7)
POW2 = (["Const", "int", 2], ["Const", "int", -2], ["Const", "int", 4],
        ["Const", "float", 0.5], ["Const", "int", 1], ["Const", "int", -1],
        ["Const", "float", 2.0])
ZEROS = (["Const", "int", 0], ["Const", "float", 0.0], ["Const", "bool", False],
         ["Const", "np.int64", 0], ["Const", "float", -0.0], ["Const", "np.float64", 0.0])
ONES = (["Const", "int", 1], ["Const", "float", 1.0], ["Const", "bool", True],
        ["Const", "np.int64", 1], ["Const", "np.float64", 1.0])
ZEROS_PY = ZEROS[:3]
ONES_PY = ONES[:3]
MIXED = (["Const", "float", 0.5], ["Const", "float", -1.5], ["Const", "float", 2.0],
         ["Const", "float", 0.25], ["Const", "float", 4.0], ["Const", "np.int64", 3],
         ["Const", "np.int64", -2], ["Const", "bool", True], ["Const", "np.float64", 2.0])
MIXED_PY = MIXED[:5] + (["Const", "bool", True],)


# {{{ spec utilities

def has_var(s):
    if is_node_spec(s):
        if s[0] == "Var":
            return True
        return any(has_var(c) for c in s[1:])
    if isinstance(s, list):
        return any(has_var(c) for c in s)
    return False


def const_value(s):
    """numeric value of a Const spec, else None"""
    if is_node_spec(s) and s[0] == "Const" and not isinstance(s[2], list):
        return s[2]
    return None


def map_children(s, f):
    """Rebuild a node spec with f applied to every direct node-spec child."""
    if not is_node_spec(s) or s[0] in ("Var", "Const", "Frac"):
        return s
    out = [s[0]]
    for c in s[1:]:
        if is_node_spec(c):
            out.append(f(c))
        elif isinstance(c, list):
            lst = []
            for cc in c:
                if is_node_spec(cc):
                    lst.append(f(cc))
                elif isinstance(cc, list) and len(cc) == 2 and isinstance(cc[0], str) \
                        and is_node_spec(cc[1]):
                    lst.append([cc[0], f(cc[1])])     # keyword argument pair
                else:
                    lst.append(cc)
            out.append(lst)
        else:
            out.append(c)
    return out


def sanitize(s, pick=0):
    """Constant-only denominators / bases of negative powers -> powers of two."""
    def rec(s, i):
        if not is_node_spec(s):
            return s
        if s[0] == "Quotient" and len(s) == 3 and not has_var(s[2]) \
                and s[2] != ["Const", "int", 0]:      # a literal 1/0 is kept (poison)
            return ["Quotient", rec(s[1], i + 1), list(POW2[(pick + i) % len(POW2)])]
        if s[0] == "Power" and len(s) == 3:
            ev = const_value(s[2])
            if isinstance(ev, (int, float)) and not isinstance(ev, bool) and ev < 0 \
                    and not has_var(s[1]):
                return ["Power", list(POW2[(pick + i) % len(POW2)]), s[2]]
        k = [i]

        def sub(c):
            k[0] += 1
            return rec(c, k[0] * 3 + 1)
        return map_children(s, sub)
    return rec(s, 0)

def _bounds(s):
    """(degree bound, bound on the number of terms after expansion) of a RATIONAL spec"""
    if not is_node_spec(s) or s[0] in ("Var", "Const"):
        return (1 if is_node_spec(s) and s[0] == "Var" else 0), 1
    if s[0] == "Sum" and len(s) == 2:
        bs = [_bounds(c) for c in s[1]]
        return max([b[0] for b in bs], default=0), max(1, sum(b[1] for b in bs))
    if s[0] == "Product" and len(s) == 2:
        bs = [_bounds(c) for c in s[1]]
        t = 1
        for b in bs:
            t *= b[1]
        return sum(b[0] for b in bs), t
    if s[0] == "Quotient" and len(s) == 3:
        a, b = _bounds(s[1]), _bounds(s[2])
        return a[0] + b[0], a[1] * b[1]
    if s[0] == "Power" and len(s) == 3:
        n = const_value(s[2])
        d, t = _bounds(s[1])
        if isinstance(n, int) and not isinstance(n, bool):
            return d * abs(n), t ** min(abs(n), 64)
        return d, t
    return 1, 1


MAX_DEGREE = 10
MAX_TERMS = 400


def tame(s):
    """Lower integer exponents until the expansion stays small (degree <= 10, <= 400 terms
    per power); oversized products lose their last sum factors."""
    if not is_node_spec(s):
        return s
    s = map_children(s, tame)
    if s[0] == "Power" and len(s) == 3:
        n = const_value(s[2])
        if isinstance(n, int) and not isinstance(n, bool) and abs(n) > 1:
            d, t = _bounds(s[1])
            m = abs(n)
            while m > 1 and (d * m > MAX_DEGREE or t ** m > MAX_TERMS):
                m -= 1
            if m != abs(n):
                return ["Power", s[1], ["Const", "int", m if n > 0 else -m]]
    if s[0] == "Product" and len(s) == 2:
        ch = list(s[1])
        while len(ch) > 1 and (_bounds(["Product", ch])[1] > 4 * MAX_TERMS
                               or _bounds(["Product", ch])[0] > 2 * MAX_DEGREE):
            i = max(range(len(ch)), key=lambda i: _bounds(ch[i])[1] * 100 + _bounds(ch[i])[0])
            ch[i] = ["Var", "x"]
            if all(_bounds(c) in ((1, 1), (0, 1)) for c in ch):
                break
        return ["Product", ch]
    return s

# }}}


# {{{ RATIONAL / POLY trees

@st.composite
def rat_expr(draw, depth=3, quot=True, negexp=True, mixed=True, np_consts=True,
             degenerate=False, opaque=False, avoid_known=False, max_exp=4,
             names=VARS, powpow=True):
    d = draw

    def const():
        c = d(st.integers(0, 9))
        if c <= 5 or not mixed:
            return ["Const", "int", d(st.sampled_from(INT_C))]
        if c == 6:
            return list(d(st.sampled_from(ZEROS if np_consts else ZEROS_PY)))
        if c == 7:
            return list(d(st.sampled_from(ONES if np_consts else ONES_PY)))
        return list(d(st.sampled_from(MIXED if np_consts else MIXED_PY)))

    def leaf():
        c = d(st.integers(0, 9))
        if c <= 5:
            return ["Var", d(st.sampled_from(names))]
        if c == 6 and opaque:
            return list(d(st.sampled_from((
                ["Call", ["Var", "f1"], [["Var", "x"]]],
                ["Subscript", ["Var", "A"], ["Const", "int", 1]],
                ["Call", ["Var", "f2"], [["Var", "y"], ["Const", "int", 2]]],
                ["Lookup", ["Var", "O"], "a"]))))
        return const()

    def rec(depth):
        if depth <= 0 or d(st.integers(0, 4 + depth)) == 0:
            return leaf()
        kinds = ["Sum", "Sum", "Sum", "Product", "Product", "Product", "Power", "Power"]
        if quot:
            kinds += ["Quotient", "Quotient"]
        n = d(st.sampled_from(kinds))
        if n in ("Sum", "Product"):
            if degenerate and d(st.integers(0, 11)) == 0:
                ar = d(st.integers(0, 1))
            else:
                ar = d(st.integers(2, 4))
            return [n, [rec(depth - 1) for _ in range(ar)]]
        if n == "Quotient":
            num = rec(depth - 1)
            if avoid_known and const_value(num) is not None and const_value(num) == 1:
                num = ["Const", "int", 2]
            elif not avoid_known and d(st.integers(0, 2)) == 0:
                num = ["Const", "int", 1]
            return ["Quotient", num, rec(depth - 1)]
        # Power
        if negexp and d(st.integers(0, 2)) == 0:
            ex = d(st.sampled_from((-1, -2, -3, 0)))
        else:
            ex = d(st.integers(0, max_exp))
        base = rec(depth - 1)
        if avoid_known:
            if base[0] == "Product":
                base = ["Sum", base[1]] if ex > 0 else leaf()
            if ex <= 0 and base[0] in ("Sum", "Power", "Quotient"):
                base = leaf()
        if not powpow and base[0] == "Power":
            base = leaf()
        return ["Power", base, ["Const", "int", ex]]

    return tame(sanitize(rec(depth), d(st.integers(0, 6))))


def poly_expr(depth=3, max_exp=3, avoid_known=False, powpow=True, names=VARS,
              degenerate=False):
    return rat_expr(depth, quot=False, negexp=False, mixed=False, np_consts=False,
                    degenerate=degenerate, avoid_known=avoid_known, max_exp=max_exp,
                    names=names, powpow=powpow)


@st.composite
def enrich(draw, s, floats=True, np_consts=False, p_nest=2, p_neutral=2, p_const=3):
    """Plant the structures the rewrites act on into an existing tree: regroup
    operands into nested same-type nodes, insert neutral elements and extra
    numeric operands (constants of mixed type)."""
    d = draw
    zeros = (ZEROS if np_consts else ZEROS_PY) if floats else ZEROS[:1] + ZEROS[2:3]
    ones = (ONES if np_consts else ONES_PY) if floats else ONES[:1] + ONES[2:3]

    def rec(s):
        s = map_children(s, rec)
        if not is_node_spec(s) or s[0] not in ("Sum", "Product") or len(s) != 2:
            return s
        ch = list(s[1])
        if d(st.integers(0, p_const)) == 0:
            for _ in range(d(st.integers(1, 2))):
                c = ["Const", "int", d(st.sampled_from((2, 3, -1, 5, -2)))]
                if floats and d(st.integers(0, 3)) == 0:
                    c = list(d(st.sampled_from(MIXED_PY)))
                ch.insert(d(st.integers(0, len(ch))), c)
        if d(st.integers(0, p_neutral)) == 0:
            neutral = list(d(st.sampled_from(zeros if s[0] == "Sum" else ones)))
            ch.insert(d(st.integers(0, len(ch))), neutral)
        if len(ch) >= 2 and d(st.integers(0, p_nest)) == 0:
            i = d(st.integers(0, len(ch) - 1))
            j = d(st.integers(i + 1, len(ch)))
            ch[i:j] = [[s[0], ch[i:j]]]
        if ch and d(st.integers(0, 5)) == 0:
            # an operand of the *other* kind that collapses to this kind once its own
            # constants are folded (1*(2 + x) under a sum, 1 + -1 + 2*x under a product):
            # its constant then belongs to this node's single constant
            i = d(st.integers(0, len(ch) - 1))
            c = ["Const", "int", d(st.sampled_from((2, 3, -2, 5)))]
            inner = [s[0], [c, ch[i]] if d(st.booleans()) else [ch[i], c]]
            one, m1, zero = (["Const", "int", v] for v in (1, -1, 0))
            if s[0] == "Sum":
                wrap = d(st.sampled_from((["Product", [one, inner]],
                                          ["Product", [m1, inner, m1]],
                                          ["Product", [inner, one]])))
            else:
                wrap = d(st.sampled_from((["Sum", [one, m1, inner]],
                                          ["Sum", [zero, inner]],
                                          ["Sum", [inner, m1, one]])))
            ch[i] = wrap
        return [s[0], ch]
    return rec(s)

# }}}


# {{{ TermCollector input: flat sums of multiplicative terms

@st.composite
def term_sum(draw, params=(), symbolic=True):
    d = draw
    names = VARS + tuple(params)

    def atom():
        c = d(st.integers(0, 12))
        if c == 12 and symbolic:
            # a quotient is a multiplicative term for the collector (an opaque base)
            v = ["Var", d(st.sampled_from(names))]
            w = ["Var", d(st.sampled_from(VARS))]
            return list(d(st.sampled_from((
                ["Quotient", v, w], ["Quotient", ["Const", "int", 1], w],
                ["Quotient", v, ["Const", "int", 2]],
                ["Quotient", ["Sum", [v, ["Const", "int", 1]]], w],
                ["Quotient", ["Const", "int", 3], ["Product", [["Const", "int", 2], w]]],
                ["Power", ["Quotient", v, w], ["Const", "int", 2]]))))
        if c <= 4:
            return ["Var", d(st.sampled_from(names))]
        if c <= 7:
            e = d(st.sampled_from((-3, -2, -1, 0, 1, 2, 3, 4)))
            return ["Power", ["Var", d(st.sampled_from(names))], ["Const", "int", e]]
        if c == 8:
            return ["Const", "int", d(st.sampled_from(INT_C))]
        if c == 9:
            return list(d(st.sampled_from(MIXED_PY + ONES_PY + ZEROS_PY[:1])))
        if c == 10 and symbolic:
            return list(d(st.sampled_from((
                ["Call", ["Var", "f1"], [["Var", "x"]]],
                ["Subscript", ["Var", "A"], ["Const", "int", 1]],
                ["Power", ["Var", "x"], ["Var", "k"]],
                ["Power", ["Const", "int", 2], ["Const", "int", 3]],
                ["Power", ["Const", "int", 2], ["Const", "int", -2]],
                ["Power", ["Call", ["Var", "f1"], [["Var", "y"]]], ["Const", "int", 2]]))))
        return ["Var", d(st.sampled_from(VARS))]

    def term():
        c = d(st.integers(0, 9))
        if c <= 1:
            return atom()
        return ["Product", [atom() for _ in range(d(st.integers(1, 4)))]]

    pool = [term() for _ in range(d(st.integers(1, 3)))]
    terms = []
    for _ in range(d(st.integers(2, 6))):
        c = d(st.integers(0, 9))
        if c <= 3:
            terms.append(term())
            continue
        t = d(st.sampled_from(pool))
        # a like term: permuted factors, another coefficient
        fs = list(t[1]) if t[0] == "Product" else [t]
        fs = d(st.permutations(fs))
        if d(st.booleans()):
            fs.insert(d(st.integers(0, len(fs))),
                      ["Const", "int", d(st.sampled_from((-1, 2, 3, -2)))])
        terms.append(["Product", list(fs)] if len(fs) != 1 or d(st.booleans()) else fs[0])
    s = ["Sum", terms]
    c = d(st.integers(0, 9))
    if c == 0:
        s = ["Product", [["Var", "y"], s]]
    elif c == 1:
        s = ["Power", s, ["Const", "int", 2]]
    elif c == 2:
        s = ["Quotient", s, ["Var", "z"]]
    elif c == 3:
        s = ["Call", ["Var", "f1"], [s]]
    return sanitize(s, d(st.integers(0, 6)))

# }}}


# {{{ equal-as-function transformations on POLY specs

def _nary(s):
    return is_node_spec(s) and s[0] in ("Sum", "Product") and len(s) == 2 \
        and isinstance(s[1], list)


def t_commute(s, k):
    def rec(s):
        s = map_children(s, rec)
        if _nary(s) and len(s[1]) >= 2:
            n = len(s[1])
            r = s[1][k % n:] + s[1][:k % n]
            if k % 2:
                r = r[::-1]
            return [s[0], r]
        return s
    return rec(s)


def t_reassoc(s, k):
    def rec(s):
        s = map_children(s, rec)
        if _nary(s) and len(s[1]) >= 3:
            ch = s[1]
            if k % 2:
                acc = ch[-1]
                for c in reversed(ch[:-1]):
                    acc = [s[0], [c, acc]]
            else:
                acc = ch[0]
                for c in ch[1:]:
                    acc = [s[0], [acc, c]]
            return acc
        return s
    return rec(s)


def t_distribute_one(s, k):
    """Distribute one Sum factor of the k-th Product that has one."""
    count = [0]

    def rec(s):
        if _nary(s) and s[0] == "Product":
            idx = [i for i, c in enumerate(s[1]) if _nary(c) and c[0] == "Sum" and c[1]]
            if idx:
                count[0] += 1
                if count[0] == k + 1:
                    i = idx[k % len(idx)]
                    return ["Sum", [["Product", s[1][:i] + [t] + s[1][i + 1:]]
                                    for t in s[1][i][1]]]
        return map_children(s, rec)
    return rec(s)


def t_unroll(s, k):
    def rec(s):
        s = map_children(s, rec)
        if is_node_spec(s) and s[0] == "Power" and len(s) == 3:
            n = const_value(s[2])
            if isinstance(n, int) and not isinstance(n, bool) and 0 <= n <= 3:
                if n == 0:
                    return ["Const", "int", 1]
                return ["Product", [s[1]] * n] if n > 1 or k % 2 else s[1]
        return s
    return rec(s)


def _mono_spec(coeff, mono):
    fs = []
    if coeff != 1 or not mono:
        fs.append(["Const", "int", int(coeff)])
    for v, e in mono:
        fs.append(["Var", v] if e == 1 else ["Power", ["Var", v], ["Const", "int", e]])
    return fs[0] if len(fs) == 1 else ["Product", fs]


def poly_to_spec(terms, reverse=False):
    """terms: dict monomial -> integer coefficient"""
    items = sorted(terms.items(), reverse=reverse)
    if not items:
        return ["Const", "int", 0]
    ts = [_mono_spec(c, m) for m, c in items]
    return ts[0] if len(ts) == 1 else ["Sum", ts]


def horner_spec(terms, var):
    """Horner form in *var* of the polynomial {monomial: int coefficient}."""
    by_deg = {}
    for m, c in terms.items():
        deg = dict(m).get(var, 0)
        rest = tuple((v, e) for v, e in m if v != var)
        by_deg.setdefault(deg, {})[rest] = c
    if not by_deg:
        return ["Const", "int", 0]
    top = max(by_deg)
    acc = poly_to_spec(by_deg[top])
    for deg in range(top - 1, -1, -1):
        acc = ["Product", [["Var", var], acc]]
        if deg in by_deg:
            acc = ["Sum", [poly_to_spec(by_deg[deg]), acc]]
    return acc


def int_terms(poly):
    out = {}
    for m, c in poly.t.items():
        if c.denominator != 1:
            raise HarnessError("pair transformations need integer coefficients")
        out[m] = int(c)
    return out


PAIR_OPS = ("commute", "reassoc", "distribute", "unroll", "horner", "canonical",
            "cancel", "split")

# }}}
