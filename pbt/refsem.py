"""Reference interpreter: the denotation of every node type written directly
over Python operators, with no use of pymbolic's mappers.

ref_eval(e, env) -> ("val", v) | ("err", {(exc_type_name, detail), ...})
                    | raises RefSkip (case outside the explorable domain)

For strictly evaluated operands *all* operand errors are collected: the
library may raise any one of them (it evaluates keyword-call arguments before
the function), so the oracle is "raises an error whose type is in the set".
"""
from __future__ import annotations

import operator
from fractions import Fraction
from functools import reduce

import numpy as np

import pymbolic.primitives as p


class RefSkip(Exception):
    """Outside the domain we explore (huge powers/shifts, unsupported node)."""


class RefError(Exception):
    def __init__(self, errs):
        Exception.__init__(self, errs)
        self.errs = frozenset(errs)


MAX_BITS = 20000
MAX_EXP = 64
MAX_SHIFT = 512

_NOINIT = object()

_CMP = {"==": operator.eq, "!=": operator.ne, "<": operator.lt,
        "<=": operator.le, ">": operator.gt, ">=": operator.ge}


def _guard(v):
    if isinstance(v, int) and not isinstance(v, bool) and v.bit_length() > MAX_BITS:
        raise RefSkip("integer too large")
    return v


def _apply(fn, *a):
    try:
        return _guard(fn(*a))
    except RefSkip:
        raise
    except RefError:
        raise
    except RecursionError:
        raise
    except Exception as exc:  # the plain Python computation is undefined here
        raise RefError({(type(exc).__name__, None)}) from None


def _pow(b, x):
    if isinstance(x, (int, np.integer)) and not isinstance(x, bool):
        if abs(int(x)) > MAX_EXP:
            raise RefSkip("exponent too large")
    elif isinstance(x, (float,)) and abs(x) > MAX_EXP:
        raise RefSkip("exponent too large")
    elif isinstance(x, Fraction) and x.denominator == 1 and abs(x.numerator) > MAX_EXP:
        raise RefSkip("exponent too large")     # Fraction(n, 1) exponents are integer powers
    return b ** x


def _lshift(a, s):
    if isinstance(s, (int, np.integer)) and int(s) > MAX_SHIFT:
        raise RefSkip("shift too large")
    return a << s


class RefEvaluator:
    """One instance per evaluation (CSE results are not cached: a common
    subexpression *means* its child)."""

    def __init__(self, env, py_logic=False):
        self.env = env
        # py_logic: and/or return the deciding operand (Python's semantics)
        # instead of a bool (pymbolic's); used to compare parse *structure*
        # with CPython on arbitrary operands
        self.py_logic = py_logic

    def strict(self, exprs):
        """Evaluate all, collecting every operand's errors."""
        vals, errs = [], set()
        for c in exprs:
            try:
                vals.append(self.ev(c))
            except RefError as e:
                errs |= e.errs
        if errs:
            raise RefError(errs)
        return vals

    def fold(self, exprs, fn, init):
        """Left fold that interleaves operand evaluation and application the
        way sum()/reduce()/min() over a generator do: every operand's errors
        and the first application error are all admissible."""
        errs = set()
        acc, acc_ok = init, True
        for c in exprs:
            try:
                v = self.ev(c)
            except RefError as e:
                errs |= e.errs
                acc_ok = False
                continue
            if not acc_ok:
                continue
            if acc is _NOINIT:
                acc = v
                continue
            try:
                acc = _apply(fn, acc, v)
            except RefError as e:
                errs |= e.errs
                acc_ok = False
        if errs:
            raise RefError(errs)
        return acc

    def ev(self, e):
        if not isinstance(e, p.Expression):
            if isinstance(e, tuple):
                return tuple(self.strict(e))
            if isinstance(e, list):
                return list(self.strict(e))
            if isinstance(e, np.ndarray):
                vals = self.strict([e[i] for i in np.ndindex(e.shape)])
                r = np.empty(e.shape, dtype=object)
                for i, v in zip(np.ndindex(e.shape), vals):
                    r[i] = v
                return r
            return e  # constant

        t = type(e).__name__
        if t == "Variable":
            try:
                return self.env[e.name]
            except KeyError:
                raise RefError({("UnknownVariableError", e.name)}) from None
        elif t == "Sum":
            return self.fold(e.children, operator.add, 0)
        elif t == "Product":
            return self.fold(e.children, operator.mul, 1)
        elif t == "Quotient" or t == "Rational":
            a, b = self.strict([e.numerator, e.denominator])
            return _apply(operator.truediv, a, b)
        elif t == "FloorDiv":
            a, b = self.strict([e.numerator, e.denominator])
            return _apply(operator.floordiv, a, b)
        elif t == "Remainder":
            a, b = self.strict([e.numerator, e.denominator])
            return _apply(operator.mod, a, b)
        elif t == "Power":
            a, b = self.strict([e.base, e.exponent])
            return _apply(_pow, a, b)
        elif t == "LeftShift":
            a, b = self.strict([e.shiftee, e.shift])
            return _apply(_lshift, a, b)
        elif t == "RightShift":
            a, b = self.strict([e.shiftee, e.shift])
            return _apply(operator.rshift, a, b)
        elif t == "BitwiseNot":
            (a,) = self.strict([e.child])
            return _apply(operator.invert, a)
        elif t in ("BitwiseOr", "BitwiseXor", "BitwiseAnd"):
            fn = {"BitwiseOr": operator.or_, "BitwiseXor": operator.xor,
                  "BitwiseAnd": operator.and_}[t]
            if not e.children:
                raise RefError({("TypeError", None)})  # reduce() of empty seq
            return self.fold(e.children, fn, _NOINIT)
        elif t == "LogicalNot":
            (a,) = self.strict([e.child])
            return _apply(operator.not_, a)
        elif t == "LogicalOr":
            v = False
            for c in e.children:
                v = self.ev(c)
                if _apply(bool, v):
                    return v if self.py_logic else True
            return v if self.py_logic else False
        elif t == "LogicalAnd":
            v = True
            for c in e.children:
                v = self.ev(c)
                if not _apply(bool, v):
                    return v if self.py_logic else False
            return v if self.py_logic else True
        elif t == "Comparison":
            a, b = self.strict([e.left, e.right])
            return _apply(_CMP[e.operator], a, b)
        elif t == "If":
            c = self.ev(e.condition)
            if _apply(bool, c):
                return self.ev(e.then)
            return self.ev(e.else_)
        elif t == "Min":
            if not e.children:
                raise RefError({("ValueError", None)})
            return self.fold(e.children, lambda a, b: b if b < a else a, _NOINIT)
        elif t == "Max":
            if not e.children:
                raise RefError({("ValueError", None)})
            return self.fold(e.children, lambda a, b: b if b > a else a, _NOINIT)
        elif t == "Call":
            f, *args = self.strict([e.function, *e.parameters])
            return _apply(f, *args)
        elif t == "CallWithKwargs":
            names = list(e.kw_parameters)
            vals = self.strict([e.function, *e.parameters,
                                *[e.kw_parameters[k] for k in names]])
            f = vals[0]
            args = vals[1:1 + len(e.parameters)]
            kw = dict(zip(names, vals[1 + len(e.parameters):]))
            return _apply(lambda: f(*args, **kw))
        elif t == "Subscript":
            a, i = self.strict([e.aggregate, e.index])
            return _apply(operator.getitem, a, i)
        elif t == "Lookup":
            (a,) = self.strict([e.aggregate])
            return _apply(getattr, a, e.name)
        elif t == "CommonSubexpression" or isinstance(e, p.CommonSubexpression):
            return self.ev(e.child)
        elif t == "Slice":
            ch = e.children
            parts = self.strict([c for c in ch if c is not None])
            it = iter(parts)
            vals = [None if c is None else next(it) for c in ch]
            if len(vals) == 1:
                vals = [None, vals[0]]      # a lone part is the stop, as in slice(stop)
            return slice(*vals) if vals else slice(None)
        elif t == "NaN":
            if e.data_type is None:
                return float("nan")
            return e.data_type(float("nan"))
        raise RefSkip(f"no reference semantics for {t}")


def ref_eval(e, env, py_logic=False):
    try:
        return ("val", RefEvaluator(env, py_logic).ev(e))
    except RefError as err:
        return ("err", err.errs)


# {{{ value comparison

def _isnan(v):
    try:
        return v != v
    except Exception:
        return False


def values_agree(a, b):
    """== on scalars (NaN agrees with NaN); containers element-wise with the
    same container type."""
    if isinstance(a, np.ndarray) or isinstance(b, np.ndarray):
        if not (isinstance(a, np.ndarray) and isinstance(b, np.ndarray)):
            return False
        if a.shape != b.shape:
            return False
        return all(values_agree(a[i], b[i]) for i in np.ndindex(a.shape))
    if isinstance(a, (tuple, list)) or isinstance(b, (tuple, list)):
        if type(a) is not type(b) or len(a) != len(b):
            return False
        return all(values_agree(x, y) for x, y in zip(a, b))
    if callable(a) and callable(b) and hasattr(a, "__name__"):
        return a.__name__ == getattr(b, "__name__", None)
    try:
        if _isnan(a) and _isnan(b):
            return True
        r = a == b
        if isinstance(r, np.ndarray):
            return bool(r.all())
        if not r and isinstance(a, (float, np.floating)) and isinstance(b, (float, np.floating)):
            # the builtin sum() (compensated summation since Python 3.12) and a left
            # fold with + are both "the operands added in order"; they differ in the
            # last bits when inexact floats are added
            return abs(a - b) <= 8 * 2.0 ** -53 * max(abs(a), abs(b))
        return bool(r)
    except Exception:
        return False


def describe(v):
    try:
        r = repr(v)
    except Exception as exc:  # e.g. int too large to print
        r = f"<unprintable: {type(exc).__name__}>"
    if len(r) > 200:
        r = r[:200] + "..."
    return f"{type(v).__name__}:{r}"

# }}}


def compare_with_ref(ref, thunk):
    """Run *thunk* (the real code) and compare with the reference outcome.
    Returns None if they agree, else (kind, detail)."""
    try:
        got = thunk()
    except RecursionError:
        raise
    except Exception as exc:
        if ref[0] == "err":
            names = {n for n, _ in ref[1]}
            tn = type(exc).__name__
            if tn in names:
                if tn == "UnknownVariableError":
                    missing = {d for n, d in ref[1] if n == tn}
                    if not (exc.args and exc.args[0] in missing):
                        return ("wrong-unknown-variable-name",
                                f"raised {exc!r}, expected one of {sorted(missing)}")
                return None
            return ("wrong-exception",
                    f"raised {tn}: {exc}; reference raises one of {sorted(names)}")
        return ("unexpected-exception:" + exc_site(exc),
                f"raised {type(exc).__name__}: {exc}; reference value "
                f"{describe(ref[1])}")
    if ref[0] == "err":
        return ("value-instead-of-error",
                f"returned {describe(got)}; reference raises "
                f"{sorted(n for n, _ in ref[1])}")
    if not values_agree(got, ref[1]):
        return ("value-mismatch",
                f"returned {describe(got)}; reference {describe(ref[1])}")
    return None


def exc_site(exc):
    """type @ innermost pymbolic frame (file:function) of the traceback."""
    import traceback
    site = "?"
    for fs in traceback.extract_tb(exc.__traceback__):
        if "/pymbolic/" in fs.filename:
            site = fs.filename.split("/pymbolic/", 1)[1] + ":" + fs.name
    return f"{type(exc).__name__}@{site}"


def values_close(a, b, tol=1e-9):
    """values_agree, but with absolute/relative tolerance *tol* as soon as a
    float or complex takes part (re-association of inexact arithmetic)."""
    import numpy as _np
    if isinstance(a, (tuple, list)) or isinstance(b, (tuple, list)):
        if type(a) is not type(b) or len(a) != len(b):
            return False
        return all(values_close(x, y, tol) for x, y in zip(a, b))
    if isinstance(a, (complex, _np.complexfloating)) or isinstance(
            b, (complex, _np.complexfloating)):
        try:
            ca, cb = complex(a), complex(b)
            parts = (ca.real, ca.imag, cb.real, cb.imag)
            if all(q == q and abs(q) != float("inf") for q in parts):
                return abs(ca - cb) <= tol * max(1, abs(cb))
            # infinities / nans: inf - inf is nan, so compare part by part
            return (values_close(ca.real, cb.real, tol)
                    and values_close(ca.imag, cb.imag, tol))
        except Exception:
            return False
    if isinstance(a, (float, _np.floating)) or isinstance(b, (float, _np.floating)):
        try:
            fa, fb = float(a), float(b)
        except Exception:
            return False
        if fa != fa and fb != fb:
            return True
        if fa == fb:
            return True
        return abs(fa - fb) <= tol * max(1.0, abs(fa), abs(fb))
    return values_agree(a, b)
