"""In-memory reference model of statement streams (property C20).

Nothing in here calls pymbolic.imperative or any pymbolic mapper: statements
are plain records, expressions are inspected through pbt.walk (dataclass
fields), renaming is pbt.walk.transform, the dependency relation is a dict of
sets.

Stream spec (JSON):  a list of statement specs

    {"kind": "Assignment" | "ConditionalAssignment" | "Nop",
     "id": str, "depends_on": [str, ...],
     "lhs": expr-spec, "rhs": expr-spec,          (not for Nop)
     "condition": expr-spec | null}               (ConditionalAssignment only;
                                                   null/absent = not passed,
                                                   i.e. the default True)

Input domain (everything else raises HarnessError): ids are pairwise distinct
non-empty strings inside one stream, depends_on is closed (only ids of the
same stream) and acyclic, an lhs is a Variable or a Subscript whose aggregate
is a Variable (what Assignment.get_written_variables accepts); a
CommonSubexpression wraps only children that are never "zero" for
pymbolic.primitives.is_zero (IdentityMapper, and with it the substitution used
for renaming, folds CSE(<zero>) to the constant 0 - a documented
simplification of that mapper, recorded under C04, not a stream matter).
"""
from __future__ import annotations

import re

import pymbolic.primitives as p

from pbt import walk
from pbt.spec import HarnessError, build

KINDS = ("Assignment", "ConditionalAssignment", "Nop")


class MStmt:
    """Model statement: plain record of freshly built expression objects."""

    __slots__ = ("kind", "id", "deps", "lhs", "rhs", "cond")

    def __init__(self, kind, id, deps, lhs=None, rhs=None, cond=None):
        self.kind = kind
        self.id = id
        self.deps = frozenset(deps)
        self.lhs = lhs
        self.rhs = rhs
        self.cond = cond        # None for kinds without a condition

    def replace(self, **kw):
        d = {k: getattr(self, k) for k in self.__slots__}
        d.update(kw)
        return MStmt(**d)

    def obs(self, canon=None):
        """Comparable observation (strict structural keys of the trees; with
        *canon* modulo called-function names, see canon_functions)."""
        return (self.kind, self.id, self.deps, _key(self.lhs, canon),
                _key(self.rhs, canon), _key(self.cond, canon))

    def text(self):
        if self.kind == "Nop":
            body = "nop"
        else:
            body = f"{self.lhs} <- {self.rhs}"
            if self.kind == "ConditionalAssignment":
                body += f" if {self.cond}"
        return f"{self.id}: {body}  deps={sorted(self.deps)}"


# {{{ spec -> model / domain validation

def _check_lhs(lhs):
    if isinstance(lhs, p.Variable):
        return
    if isinstance(lhs, p.Subscript) and isinstance(lhs.aggregate, p.Variable):
        return
    raise HarnessError("lhs must be a Variable or a Subscript of a Variable")


_CSE_CHILD_OK = ("Var", "Call", "CallWithKwargs", "Subscript", "Lookup")


def _check_cse_children(x):
    if isinstance(x, dict):
        for v in x.values():
            _check_cse_children(v)
    elif isinstance(x, list):
        if len(x) >= 2 and x[0] == "CommonSubexpression":
            c = x[1]
            ok = isinstance(c, list) and c and (
                c[0] in _CSE_CHILD_OK
                or (c[0] == "Sum" and isinstance(c[1], list) and len(c[1]) >= 2))
            if not ok:
                raise HarnessError("CSE around a possibly-zero child")
        for v in x:
            _check_cse_children(v)


def validate_stream(stream_spec):
    if not isinstance(stream_spec, list):
        raise HarnessError("stream spec must be a list")
    _check_cse_children(stream_spec)
    ids = []
    for s in stream_spec:
        if not isinstance(s, dict) or s.get("kind") not in KINDS:
            raise HarnessError(f"bad statement spec {s!r}")
        if not isinstance(s.get("id"), str) or not s["id"]:
            raise HarnessError("statement id must be a non-empty string")
        if not isinstance(s.get("depends_on", []), list) or not all(
                isinstance(d, str) for d in s.get("depends_on", [])):
            raise HarnessError("depends_on must be a list of strings")
        if s["kind"] != "Nop" and ("lhs" not in s or "rhs" not in s):
            raise HarnessError("assignment without lhs/rhs")
        ids.append(s["id"])
    if len(set(ids)) != len(ids):
        raise HarnessError("ids not unique inside one stream")
    idset = set(ids)
    graph = {}
    for s in stream_spec:
        deps = set(s.get("depends_on", []))
        if not deps <= idset:
            raise HarnessError("depends_on not closed")
        graph[s["id"]] = deps
    if not is_acyclic(graph):
        raise HarnessError("depends_on cyclic")


def model_stream(stream_spec):
    """Model statements with freshly built expression objects."""
    validate_stream(stream_spec)
    out = []
    for s in stream_spec:
        kind = s["kind"]
        deps = s.get("depends_on", [])
        if kind == "Nop":
            out.append(MStmt(kind, s["id"], deps))
            continue
        lhs = build(s["lhs"])
        _check_lhs(lhs)
        rhs = build(s["rhs"])
        cond = None
        if kind == "ConditionalAssignment":
            cond = True if s.get("condition") is None else build(s["condition"])
        out.append(MStmt(kind, s["id"], deps, lhs, rhs, cond))
    return out


def real_stream(stream_spec):
    """Fresh pymbolic.imperative statements for the spec (the objects handed
    to the code under test; construction only)."""
    from pymbolic.imperative import statement as st_mod
    validate_stream(stream_spec)
    out = []
    for s in stream_spec:
        kind = s["kind"]
        deps = list(s.get("depends_on", []))
        if kind == "Nop":
            out.append(st_mod.Nop(id=s["id"], depends_on=deps))
            continue
        lhs = build(s["lhs"])
        _check_lhs(lhs)
        kw = {"lhs": lhs, "rhs": build(s["rhs"]), "id": s["id"],
              "depends_on": deps}
        if kind == "ConditionalAssignment":
            if s.get("condition") is not None:
                kw["condition"] = build(s["condition"])
            out.append(st_mod.ConditionalAssignment(**kw))
        else:
            out.append(st_mod.Assignment(**kw))
    return out


def _key(e, canon=None):
    if e is None:
        return None
    return walk.key(e if canon is None else canon_functions(e, canon))


def observe(stmt, canon=None):
    """Observation of a real statement, comparable with MStmt.obs()."""
    kind = type(stmt).__name__
    deps = frozenset(stmt.depends_on)
    if kind == "Nop":
        return (kind, stmt.id, deps, None, None, None)
    cond = None
    if kind == "ConditionalAssignment":
        cond = _key(stmt.condition, canon)
    return (kind, stmt.id, deps, _key(stmt.lhs, canon), _key(stmt.rhs, canon),
            cond)


def obs_diff(real_obs, model_obs):
    """Names of the fields in which two observations differ."""
    names = ("kind", "id", "depends_on", "lhs", "rhs", "condition")
    return [n for n, r, m in zip(names, real_obs, model_obs) if r != m]

# }}}


# {{{ identifier scan

def scan_vars(e, functions=False):
    """Names of all Variable nodes of *e*; sub-trees in the *function*
    position of a call are left out unless functions=True (the library's
    statements configure their dependency mapper with
    include_calls="descend_args": call arguments are read, the called
    function is not a variable)."""
    out = set()
    stack = [e]
    while stack:
        n = stack.pop()
        if isinstance(n, p.Variable):
            out.add(n.name)
            continue
        is_call = isinstance(n, (p.Call, p.CallWithKwargs))
        for lbl, c in walk.children(n):
            if is_call and lbl == "function" and not functions:
                continue
            stack.append(c)
    return out


def function_position_names(e):
    """Names of Variables that are directly the function of some call."""
    return {n.function.name for _, n in walk.occurrences(e)
            if isinstance(n, (p.Call, p.CallWithKwargs))
            and isinstance(n.function, p.Variable)}


def lhs_index_vars(s):
    if s.kind == "Nop" or not isinstance(s.lhs, p.Subscript):
        return set()
    return scan_vars(s.lhs.index)


def assigned_name(s):
    if s.kind == "Nop":
        return None
    if isinstance(s.lhs, p.Variable):
        return s.lhs.name
    return s.lhs.aggregate.name


def scan_reads(s):
    if s.kind == "Nop":
        return frozenset()
    out = scan_vars(s.rhs) | lhs_index_vars(s)
    if s.cond is not None:
        out |= scan_vars(s.cond)
    return frozenset(out)


def scan_reads_without_lhs_index(s):
    """What the read set would be if the lhs were never looked at (used only
    to *classify* failures, never as an oracle)."""
    if s.kind == "Nop":
        return frozenset()
    out = scan_vars(s.rhs)
    if s.cond is not None:
        out |= scan_vars(s.cond)
    return frozenset(out)


def scan_writes(s):
    n = assigned_name(s)
    return frozenset() if n is None else frozenset([n])


def identifiers(stream):
    out = set()
    for s in stream:
        out |= scan_reads(s) | scan_writes(s)
    return out


def lhs_index_only_names(stream):
    """Identifiers of the stream that are visible *only* through the index of
    a subscripted lhs."""
    seen = set()
    for s in stream:
        seen |= scan_reads_without_lhs_index(s) | scan_writes(s)
    return identifiers(stream) - seen

# }}}


# {{{ reference substitution

def rename_expr(e, mapping):
    """Reference renaming: every Variable named k in *mapping* becomes
    Variable(mapping[k]) (simultaneously, everywhere in the tree)."""
    if isinstance(e, p.Variable):
        return p.Variable(mapping[e.name]) if e.name in mapping else e
    if walk.is_leaf_value(e):
        return e
    return walk.rebuild(e, lambda c: rename_expr(c, mapping))


def rename_stmt(s, mapping):
    if s.kind == "Nop":
        return s
    return s.replace(
        lhs=rename_expr(s.lhs, mapping),
        rhs=rename_expr(s.rhs, mapping),
        cond=None if s.cond is None else rename_expr(s.cond, mapping))


def canon_functions(e, canon):
    """Copy of *e* in which a Variable that is directly the function of a call
    is renamed through *canon*.  Comparing canon_functions(x) with
    canon_functions(y) compares x and y modulo the (unspecified) treatment of
    called-function names by a renaming."""
    if isinstance(e, p.Variable) or walk.is_leaf_value(e):
        return e

    def f(c):
        return canon_functions(c, canon)
    r = walk.rebuild(e, f)
    if isinstance(e, (p.Call, p.CallWithKwargs)) \
            and isinstance(e.function, p.Variable):
        fn = p.Variable(canon.get(e.function.name, e.function.name))
        if isinstance(e, p.CallWithKwargs):
            return type(e)(fn, r.parameters, r.kw_parameters)
        return type(e)(fn, r.parameters)
    return r

# }}}


# {{{ dependency relation

def dep_graph(stream):
    return {s.id: set(s.deps) for s in stream}


def is_acyclic(graph):
    state = {}

    def visit(u):
        st = state.get(u)
        if st == 1:
            return False
        if st == 2:
            return True
        state[u] = 1
        for v in graph.get(u, ()):
            if not visit(v):
                return False
        state[u] = 2
        return True
    return all(visit(u) for u in list(graph))


def reachable(graph, start_nodes):
    seen = set()
    todo = list(start_nodes)
    while todo:
        u = todo.pop()
        if u in seen:
            continue
        seen.add(u)
        todo.extend(graph.get(u, ()))
    return seen


def transitive_closure(graph):
    return {u: reachable(graph, graph.get(u, ())) for u in graph}


def transitive_reduction(graph):
    """Edges (u, v) of an acyclic relation that are not implied by a longer
    path: v must not be reachable from any *other* direct successor of u."""
    out = set()
    for u, succ in graph.items():
        for v in succ:
            others = [w for w in succ if w != v]
            if v not in reachable(graph, others):
                out.add((u, v))
    return out


def well_formed_problems(obs_list):
    """Machine invariant on a list of observations: ids distinct, depends_on
    closed and acyclic.  Returns a list of problem kinds."""
    out = []
    ids = [o[1] for o in obs_list]
    if len(set(ids)) != len(ids):
        out.append("ids-not-distinct")
    graph = {o[1]: set(o[2]) for o in obs_list}
    if any(not deps <= set(ids) for deps in graph.values()):
        out.append("dependency-dangling")
    elif not is_acyclic(graph):
        out.append("dependency-cycle")
    return out

# }}}


# {{{ dot text

_EDGE_RE = re.compile(r'^\s*"?([^\s"]+)"?\s*->\s*"?([^\s"\[]+)"?\s*(\[.*\])?;?\s*$')
_NODE_RE = re.compile(r'^\s*"([^"]+)"\s*\[(.*)\];\s*$')


def parse_dot(text):
    """(node ids, list of edges) of the dot text."""
    nodes, edges = [], []
    for ln in text.splitlines():
        m = _EDGE_RE.match(ln)
        if m:
            edges.append((m.group(1), m.group(2)))
            continue
        m = _NODE_RE.match(ln)
        if m:
            nodes.append(m.group(1))
    return nodes, edges

# }}}
