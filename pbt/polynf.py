"""Exact multivariate polynomials / rational functions over Fraction, used as a
normal form to decide value preservation per instance.

Poly: dict {monomial: Fraction}, monomial = tuple(sorted((name, exp)...)).
RatFunc: (num Poly, den Poly); equality by cross-multiplication.
Opaque sub-terms (anything that is not +, *, /, integer power, constant,
variable, CSE) become fresh indeterminates keyed by their strict structural key.
"""
from __future__ import annotations

from fractions import Fraction

import numpy as np

import pymbolic.primitives as p

from pbt import walk


class NotRational(Exception):
    pass


class Poly:
    __slots__ = ("t",)

    def __init__(self, terms=None):
        self.t = {m: c for m, c in (terms or {}).items() if c != 0}

    @staticmethod
    def const(c):
        return Poly({(): Fraction(c)})

    @staticmethod
    def var(name):
        return Poly({((name, 1),): Fraction(1)})

    def __add__(self, o):
        r = dict(self.t)
        for m, c in o.t.items():
            r[m] = r.get(m, 0) + c
        return Poly(r)

    def __neg__(self):
        return Poly({m: -c for m, c in self.t.items()})

    def __sub__(self, o):
        return self + (-o)

    def __mul__(self, o):
        r = {}
        for m1, c1 in self.t.items():
            for m2, c2 in o.t.items():
                d = dict(m1)
                for v, e in m2:
                    d[v] = d.get(v, 0) + e
                m = tuple(sorted(d.items()))
                r[m] = r.get(m, 0) + c1 * c2
        return Poly(r)

    def __pow__(self, n):
        assert n >= 0
        r = Poly.const(1)
        for _ in range(n):
            r = r * self
        return r

    def __eq__(self, o):
        return self.t == o.t

    def __hash__(self):
        return hash(frozenset(self.t.items()))

    def is_zero(self):
        return not self.t

    def degree_in(self, names):
        names = set(names)
        return max((sum(e for v, e in m if v in names) for m in self.t), default=0)

    def variables(self):
        return {v for m in self.t for v, _ in m}

    def n_terms(self):
        return len(self.t)

    def eval(self, env):
        tot = Fraction(0)
        for m, c in self.t.items():
            term = c
            for v, e in m:
                term *= Fraction(env[v]) ** e
            tot += term
        return tot

    def __repr__(self):
        if not self.t:
            return "0"
        return " + ".join(
            f"{c}" + "".join(f"*{v}^{e}" for v, e in m)
            for m, c in sorted(self.t.items()))


class RatFunc:
    __slots__ = ("n", "d")

    def __init__(self, n, d=None):
        self.n = n
        self.d = d if d is not None else Poly.const(1)
        if self.d.is_zero():
            raise ZeroDivisionError("rational function with zero denominator")

    def __add__(self, o):
        if self.d == o.d:
            return RatFunc(self.n + o.n, self.d)
        return RatFunc(self.n * o.d + o.n * self.d, self.d * o.d)

    def __mul__(self, o):
        return RatFunc(self.n * o.n, self.d * o.d)

    def __neg__(self):
        return RatFunc(-self.n, self.d)

    def __sub__(self, o):
        return self + (-o)

    def inv(self):
        return RatFunc(self.d, self.n)

    def __truediv__(self, o):
        return self * o.inv()

    def __pow__(self, k):
        if k >= 0:
            return RatFunc(self.n ** k, self.d ** k)
        return RatFunc(self.d ** (-k), self.n ** (-k))

    def __eq__(self, o):
        return self.n * o.d == o.n * self.d

    def __hash__(self):
        raise TypeError

    def is_zero(self):
        return self.n.is_zero()

    def is_polynomial(self):
        return self.d.variables() == set()

    def as_poly(self):
        """Exact polynomial if the denominator is a constant."""
        if not self.is_polynomial():
            raise NotRational("not a polynomial")
        c = self.d.t[()]
        return Poly({m: v / c for m, v in self.n.t.items()})

    def eval(self, env):
        return self.n.eval(env) / self.d.eval(env)

    def __repr__(self):
        return f"({self.n!r}) / ({self.d!r})"


def _to_fraction(c):
    if isinstance(c, (bool, np.bool_)):
        return Fraction(int(c))
    if isinstance(c, (int, np.integer)):
        return Fraction(int(c))
    if isinstance(c, Fraction):
        return c
    if isinstance(c, (float, np.floating)):
        f = float(c)
        if f != f or f in (float("inf"), float("-inf")):
            raise NotRational("non-finite float")
        return Fraction(f)
    if isinstance(c, (complex, np.complexfloating)):
        if complex(c).imag == 0:
            return Fraction(complex(c).real)
        raise NotRational("complex constant")
    raise NotRational(f"constant of type {type(c).__name__}")


class Converter:
    def __init__(self, opaque=True):
        self.opaque = opaque
        self.opaque_names = {}

    def _opaque(self, e):
        if not self.opaque:
            raise NotRational(f"{type(e).__name__} is not rational")
        k = walk.key(e, strict=True)
        if k not in self.opaque_names:
            self.opaque_names[k] = f"<{type(e).__name__}#{len(self.opaque_names)}>"
        return RatFunc(Poly.var(self.opaque_names[k]))

    def __call__(self, e):
        if not isinstance(e, p.Expression):
            if isinstance(e, (tuple, list, np.ndarray)):
                raise NotRational("container")
            return RatFunc(Poly.const(_to_fraction(e)))
        t = type(e).__name__
        if t == "Variable":
            return RatFunc(Poly.var(e.name))
        if t == "Sum":
            r = RatFunc(Poly.const(0))
            for c in e.children:
                r = r + self(c)
            return r
        if t == "Product":
            r = RatFunc(Poly.const(1))
            for c in e.children:
                r = r * self(c)
            return r
        if t == "Quotient" or t == "Rational":
            return self(e.numerator) / self(e.denominator)
        if t == "Power":
            ex = e.exponent
            if isinstance(ex, (int, np.integer)) and not isinstance(ex, bool) \
                    and abs(int(ex)) <= 12:
                return self(e.base) ** int(ex)
            return self._opaque(e)
        if isinstance(e, p.CommonSubexpression):
            return self(e.child)
        return self._opaque(e)


def ratfunc(e, conv=None):
    return (conv or Converter())(e)


def same_function(a, b):
    """Decide a == b as rational functions (shared opaque-term table)."""
    conv = Converter()
    return conv(a) == conv(b)
