"""Environments for evaluation: JSON env specs -> live values.

Env spec values:  int / bool / float            plain
                  ["Frac", n, d]                fractions.Fraction
                  ["Func", name]                function from FUNCS (optionally counted)
                  ["Tuple", [values]]           tuple aggregate
                  ["Dict", [[key, value], ...]] dict aggregate (keys: int or ["Tuple",[ints]])
                  ["Obj", {attr: value}]        attribute namespace
                  ["Mat", [[a,b],[c,d]]]        2x2 integer matrix (non-commutative ring)
"""
from __future__ import annotations

import itertools
from fractions import Fraction

from pbt.spec import HarnessError


# {{{ deterministic integer functions (positional and keyword arguments)

def f0():
    return 7


def f1(a):
    return 2 * a + 1


def f2(a, b):
    return a - 3 * b


def f3(a, b, c):
    return a * b + c


def g(a, k=1, j=0):
    return a + 10 * k + 100 * j


def h(*args, **kw):
    return sum((i + 1) * v for i, v in enumerate(args)) + sum(
        (ord(k[0]) % 7) * v for k, v in sorted(kw.items()))


def cnt(*args, **kw):
    """value depends on arguments; the wrapper counts calls"""
    return 1 + sum(args) + sum(kw.values())


FUNCS = {"f0": f0, "f1": f1, "f2": f2, "f3": f3, "g": g, "h": h, "cnt": cnt}
FUNC_ARITY = {"f0": (0, 0), "f1": (1, 1), "f2": (2, 2), "f3": (3, 3),
              "g": (1, 1), "h": (0, 3), "cnt": (0, 2)}
FUNC_KW = {"g": ("k", "j"), "h": ("p", "q", "kw"), "cnt": ("n",)}

# }}}


class Obj:
    def __init__(self, attrs):
        for k, v in attrs.items():
            setattr(self, k, v)

    def __eq__(self, other):
        return isinstance(other, Obj) and self.__dict__ == other.__dict__

    def __hash__(self):
        return hash(tuple(sorted(self.__dict__)))

    def __repr__(self):
        return f"Obj({self.__dict__})"


class Mat:
    """2x2 integer matrices: a non-commutative ring supporting + - * and
    scalar operands (scalars act as multiples of the identity)."""
    __slots__ = ("m",)

    def __init__(self, m):
        self.m = tuple(tuple(r) for r in m)

    @staticmethod
    def lift(x):
        if isinstance(x, Mat):
            return x
        if isinstance(x, (int, Fraction)) or (
                isinstance(x, float) and x == int(x)):
            return Mat(((x, 0), (0, x)))
        return None

    def __add__(self, o):
        o = Mat.lift(o)
        if o is None:
            return NotImplemented
        return Mat([[self.m[i][j] + o.m[i][j] for j in range(2)] for i in range(2)])
    __radd__ = __add__

    def __neg__(self):
        return Mat([[-self.m[i][j] for j in range(2)] for i in range(2)])

    def __sub__(self, o):
        o = Mat.lift(o)
        if o is None:
            return NotImplemented
        return self + (-o)

    def __rsub__(self, o):
        o = Mat.lift(o)
        if o is None:
            return NotImplemented
        return o + (-self)

    def __mul__(self, o):
        o = Mat.lift(o)
        if o is None:
            return NotImplemented
        return Mat([[sum(self.m[i][k] * o.m[k][j] for k in range(2))
                     for j in range(2)] for i in range(2)])

    def __rmul__(self, o):
        o = Mat.lift(o)
        if o is None:
            return NotImplemented
        return o * self

    def __pow__(self, n):
        if not isinstance(n, int) or isinstance(n, bool) or n < 0:
            return NotImplemented
        r = Mat(((1, 0), (0, 1)))
        for _ in range(n):
            r = r * self
        return r

    def __eq__(self, o):
        o = Mat.lift(o)
        if o is None:
            return NotImplemented
        return self.m == o.m

    def __hash__(self):
        return hash(self.m)

    def __bool__(self):
        return any(any(r) for r in self.m)

    def __repr__(self):
        return f"Mat({self.m})"


class CallCounter:
    def __init__(self):
        self.calls = []

    def wrap(self, name, fn):
        def counted(*a, **kw):
            self.calls.append((name, a, tuple(sorted(kw.items()))))
            return fn(*a, **kw)
        counted.__name__ = name
        return counted

    def count(self, name=None):
        if name is None:
            return len(self.calls)
        return sum(1 for c in self.calls if c[0] == name)


def build_value(v, counter=None):
    if isinstance(v, list):
        tag = v[0] if v else None
        if tag == "Frac":
            return Fraction(v[1], v[2])
        if tag == "Func":
            fn = FUNCS[v[1]]
            return counter.wrap(v[1], fn) if counter is not None else fn
        if tag == "Tuple":
            return tuple(build_value(c, counter) for c in v[1])
        if tag == "List":
            return [build_value(c, counter) for c in v[1]]
        if tag == "Dict":
            return {(_key(k)): build_value(c, counter) for k, c in v[1]}
        if tag == "Obj":
            return Obj({k: build_value(c, counter) for k, c in v[1].items()})
        if tag == "Mat":
            return Mat(v[1])
        if tag == "Const":
            from pbt.spec import build_const
            return build_const(v[1], v[2])
        raise HarnessError(f"bad env value {v!r}")
    return v


def _key(k):
    if isinstance(k, list):
        if k and k[0] == "Tuple":
            return tuple(_key(c) for c in k[1])
        raise HarnessError(f"bad dict key {k!r}")
    return k


def build_env(env, counter=None):
    return {k: build_value(v, counter) for k, v in env.items()}


# {{{ the exhaustive small box

BOX_INT = (-2, -1, 0, 1, 2, 3)
BOX_EXTRA = (["Frac", 1, 2], ["Frac", -1, 2], True, False)


def box_envs(names, base=None, values=BOX_INT, limit=None):
    """All assignments of *values* to *names* on top of *base*."""
    base = dict(base or {})
    names = list(names)
    out = []
    for combo in itertools.product(values, repeat=len(names)):
        env = dict(base)
        env.update(zip(names, combo))
        out.append(env)
        if limit is not None and len(out) >= limit:
            break
    return out

# }}}
