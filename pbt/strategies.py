"""Hypothesis strategies producing JSON case specs.

The central generator is ``expr(kind, depth, frag)``: a typed recursive
strategy.  Kinds form a light type discipline so trees are well-typed for the
evaluator by construction:

    INT    integer-valued        NUM   rational-valued (INT is a sub-kind)
    BOOL   truth-valued          SMALL small non-negative integer (exponents, shifts)

A ``Frag`` (fragment) selects node types, arities, leaves and names.
"""
from __future__ import annotations

from dataclasses import dataclass, field, replace

from hypothesis import strategies as st

from pbt import envs

CMP_OPS = ("==", "!=", "<", "<=", ">", ">=")

NARY_INT = ("Sum", "Product", "BitwiseOr", "BitwiseXor", "BitwiseAnd", "Min", "Max")
BIN_INT = ("FloorDiv", "Remainder")


@dataclass(frozen=True)
class Frag:
    nodes: frozenset = frozenset({
        "Sum", "Product", "Quotient", "FloorDiv", "Remainder", "Power",
        "LeftShift", "RightShift", "BitwiseNot", "BitwiseOr", "BitwiseXor",
        "BitwiseAnd", "LogicalNot", "LogicalOr", "LogicalAnd", "Comparison",
        "If", "Min", "Max", "Call", "CallWithKwargs", "Subscript", "Lookup",
        "CommonSubexpression"})
    int_vars: tuple = ("x", "y", "z")
    small_vars: tuple = ("k", "m")
    rat_vars: tuple = ("r", "s")
    bool_vars: tuple = ("p", "q")
    funcs: tuple = ("f0", "f1", "f2", "f3", "g", "h")
    min_arity: int = 2          # for n-ary nodes
    max_arity: int = 4
    degenerate_arity: bool = False   # allow 0/1-child n-ary nodes
    int_consts: tuple = (-3, -2, -1, 0, 1, 2, 3, 4, 5, 7, 10)
    big_consts: bool = True
    float_consts: tuple = (0.5, -1.5, 2.0, 0.25, -0.0, 1.0, 4.0)
    np_consts: bool = True
    bool_consts: bool = True
    neg_exponents: bool = True
    poison: bool = False        # 1/0, unbound variable, counting call
    cse_prefixes: tuple = (None, "u", "tmp")
    tuple_index: bool = True
    logical_bool_only: bool = False  # and/or/not operands always truth-valued
    exponents: tuple = (0, 1, 2, 3, 4)
    shifts: tuple = (0, 1, 2, 3, 8)

    def has(self, n):
        return n in self.nodes

    def but(self, **kw):
        return replace(self, **kw)

    def without(self, *names):
        return replace(self, nodes=self.nodes - set(names))


EVALUABLE = Frag()

# standard environment pieces (aggregates / objects) matching the generator
AGG_TUPLE = ["Tuple", [3, -1, 4, 1]]
AGG_DICT = ["Dict", [[["Tuple", [i, j]], 10 * i + j] for i in range(3) for j in range(3)]]
AGG_OBJ = ["Obj", {"a": 5, "b": -2, "inner": ["Obj", {"c": 9}],
                   # names with a trailing underscore next to the plain ones (sklearn style)
                   "b_": 17, "a_": -11, "n_it_": 4, "n_it": 40}]
# never bound in any environment; some are spelled like Python builtins, which an
# evaluator must not fall back to
UNBOUND_NAMES = ("unbound_u", "unbound_u", "abs", "len", "sum", "id", "pow", "hash", "max")

BASE_ENV = {"A": AGG_TUPLE, "D": AGG_DICT, "O": AGG_OBJ,
            **{f: ["Func", f] for f in envs.FUNCS}}


def const_int(frag):
    opts = [st.sampled_from(frag.int_consts).map(lambda v: ["Const", "int", v])]
    if frag.big_consts:
        opts.append(st.integers(-2**40, 2**40).map(lambda v: ["Const", "int", v]))
    if frag.np_consts:
        opts.append(st.sampled_from((0, 1, 3, -2)).map(
            lambda v: ["Const", "np.int64", v]))
    return st.one_of(*opts)


def _arity(draw, frag):
    if frag.degenerate_arity and draw(st.integers(0, 9)) == 0:
        return draw(st.integers(0, 1))
    return draw(st.integers(frag.min_arity, frag.max_arity))


@st.composite
def expr(draw, kind="NUM", depth=4, frag=EVALUABLE):
    """Typed expression spec."""
    d = draw

    def leaf(kind):
        if kind == "SMALL":
            if frag.small_vars and d(st.integers(0, 3)) == 0:
                return ["Var", d(st.sampled_from(frag.small_vars))]
            return ["Const", "int", d(st.sampled_from(frag.shifts + frag.exponents))]
        if kind == "BOOL":
            c = d(st.integers(0, 3))
            if c == 0 and frag.bool_consts:
                return ["Const", "bool", d(st.booleans())]
            if frag.bool_vars:
                return ["Var", d(st.sampled_from(frag.bool_vars))]
            return ["Comparison", ["Var", d(st.sampled_from(frag.int_vars))],
                    d(st.sampled_from(CMP_OPS)), ["Const", "int", 0]]
        if frag.poison and d(st.integers(0, 14)) == 0:
            return d(st.sampled_from([
                ["Quotient", ["Const", "int", 1], ["Const", "int", 0]],
                ["Var", d(st.sampled_from(UNBOUND_NAMES))],
                ["Call", ["Var", "cnt"], [["Const", "int", 1]]],
                ["Remainder", ["Var", "x"], ["Const", "int", 0]],
            ]))
        c = d(st.integers(0, 9))
        if kind == "NUM" and c == 0 and frag.float_consts:
            return ["Const", "float", d(st.sampled_from(frag.float_consts))]
        if kind == "NUM" and c == 1 and frag.rat_vars:
            return ["Var", d(st.sampled_from(frag.rat_vars))]
        if c <= 5 and frag.int_vars:
            return ["Var", d(st.sampled_from(frag.int_vars))]
        if c == 6 and frag.bool_consts and d(st.integers(0, 3)) == 0:
            return ["Const", "bool", d(st.booleans())]
        return d(const_int(frag))

    def rec(kind, depth):
        if depth <= 0 or d(st.integers(0, 5 + depth)) == 0:
            return leaf(kind)
        sub = lambda k: rec(k, depth - 1)  # noqa: E731
        if kind == "SMALL":
            return leaf("SMALL")
        if kind == "BOOL":
            opts = [n for n in ("Comparison", "LogicalNot", "LogicalOr",
                                "LogicalAnd", "If", "CommonSubexpression")
                    if frag.has(n)]
            if not opts:
                return leaf("BOOL")
            n = d(st.sampled_from(opts))
            if n == "Comparison":
                k = d(st.sampled_from(("INT", "NUM")))
                return ["Comparison", sub(k), d(st.sampled_from(CMP_OPS)), sub(k)]
            if n == "LogicalNot":
                return ["LogicalNot", sub(d(st.sampled_from(("BOOL", "BOOL", "INT"))))]
            if n in ("LogicalOr", "LogicalAnd"):
                kinds = ("BOOL",) if frag.logical_bool_only else (
                    "BOOL", "BOOL", "BOOL", "INT")
                return [n, [sub(d(st.sampled_from(kinds)))
                            for _ in range(_arity(d, frag))]]
            if n == "If":
                return ["If", sub("BOOL"), sub("BOOL"), sub("BOOL")]
            return ["CommonSubexpression", sub("BOOL"),
                    d(st.sampled_from(frag.cse_prefixes)), "pymbolic_eval"]
        # INT / NUM
        common = ["Sum", "Product", "Power", "If", "Min", "Max", "Call",
                  "CallWithKwargs", "Subscript", "Lookup", "CommonSubexpression"]
        int_only = ["FloorDiv", "Remainder", "LeftShift", "RightShift",
                    "BitwiseNot", "BitwiseOr", "BitwiseXor", "BitwiseAnd"]
        num_only = ["Quotient", "Quotient"]
        opts = [n for n in common + (int_only if kind == "INT" else
                                     num_only + ["FloorDiv", "Remainder"])
                if frag.has(n)]
        if not opts:
            return leaf(kind)
        n = d(st.sampled_from(opts))
        if n in ("Sum", "Product", "Min", "Max"):
            ar = _arity(d, frag)
            if n in ("Min", "Max"):
                ar = max(ar, 1)
            return [n, [sub(kind) for _ in range(ar)]]
        if n in ("BitwiseOr", "BitwiseXor", "BitwiseAnd"):
            ar = max(1, _arity(d, frag))
            return [n, [sub(d(st.sampled_from(("INT", "INT", "INT", "BOOL"))))
                        for _ in range(ar)]]
        if n == "Quotient":
            return ["Quotient", sub("NUM"), sub("NUM")]
        if n in ("FloorDiv", "Remainder"):
            return [n, sub(kind), sub(kind)]
        if n == "Power":
            if kind == "NUM" and frag.neg_exponents and d(st.integers(0, 3)) == 0:
                ex = ["Const", "int", d(st.sampled_from((-1, -2, -3)))]
            else:
                ex = rec("SMALL", 0)
                if ex[0] == "Const":
                    ex = ["Const", "int", d(st.sampled_from(frag.exponents))]
            return ["Power", sub(kind), ex]
        if n in ("LeftShift", "RightShift"):
            sh = rec("SMALL", 0)
            if sh[0] == "Const":
                sh = ["Const", "int", d(st.sampled_from(frag.shifts))]
            return [n, sub("INT"), sh]
        if n == "BitwiseNot":
            return ["BitwiseNot", sub(d(st.sampled_from(("INT", "INT", "BOOL"))))]
        if n == "If":
            return ["If", sub("BOOL"), sub(kind), sub(kind)]
        if n == "Call":
            f = d(st.sampled_from([f for f in frag.funcs if f != "cnt"] or ["f1"]))
            lo, hi = envs.FUNC_ARITY[f]
            return ["Call", ["Var", f],
                    [sub("INT") for _ in range(d(st.integers(lo, hi)))]]
        if n == "CallWithKwargs":
            fs = [f for f in frag.funcs if f in envs.FUNC_KW and f != "cnt"] or ["g"]
            f = d(st.sampled_from(fs))
            lo, hi = envs.FUNC_ARITY[f]
            names = d(st.lists(st.sampled_from(envs.FUNC_KW[f]), min_size=1,
                               max_size=len(envs.FUNC_KW[f]), unique=True))
            return ["CallWithKwargs", ["Var", f],
                    [sub("INT") for _ in range(d(st.integers(lo, hi)))],
                    [[nm, sub("INT")] for nm in names]]
        if n == "Subscript":
            c = d(st.integers(0, 2))
            if c == 0 and frag.tuple_index:
                return ["Subscript", ["Var", "D"],
                        ["Tuple", [["Const", "int", d(st.integers(0, 2))],
                                   d(st.sampled_from([
                                       ["Const", "int", 1],
                                       ["Remainder", sub("INT"), ["Const", "int", 3]]]))]]]
            if c == 1:
                return ["Subscript", ["Var", "A"],
                        ["Remainder", sub("INT"), ["Const", "int", 4]]]
            return ["Subscript", ["Var", "A"], ["Const", "int", d(st.integers(-4, 3))]]
        if n == "Lookup":
            if d(st.booleans()):
                return ["Lookup", ["Var", "O"], d(st.sampled_from(("a", "b")))]
            return ["Lookup", ["Lookup", ["Var", "O"], "inner"], "c"]
        if n == "CommonSubexpression":
            return ["CommonSubexpression", sub(kind),
                    d(st.sampled_from(frag.cse_prefixes)),
                    d(st.sampled_from(("pymbolic_eval", "pymbolic_eval",
                                       "pymbolic_expr", "pymbolic_global")))]
        return leaf(kind)

    return rec(kind, depth)


@st.composite
def with_sharing(draw, kind="NUM", depth=4, frag=EVALUABLE, pool=2):
    """An expression in which a few drawn sub-specs recur (identical specs;
    build() makes them equal-not-identical, build_shared() identical)."""
    shared = [draw(expr(kind, max(1, depth - 2), frag)) for _ in range(pool)]
    base = draw(expr(kind, depth, frag))

    def plant(s, budget=[3]):  # noqa: B006
        from pbt.spec import is_node_spec
        if budget[0] <= 0 or not is_node_spec(s) or s[0] in ("Var", "Const"):
            return s
        out = [s[0]]
        for c in s[1:]:
            if isinstance(c, list) and c and isinstance(c[0], list):
                lst = []
                for cc in c:
                    if is_node_spec(cc) and cc[0] in ("Var", "Const") \
                            and budget[0] > 0 and draw(st.integers(0, 2)) == 0:
                        budget[0] -= 1
                        lst.append(draw(st.sampled_from(shared)))
                    else:
                        lst.append(plant(cc, budget))
                out.append(lst)
            else:
                out.append(plant(c, budget) if is_node_spec(c) else c)
        return out
    return plant(base, [3])


def int_value(big=True):
    opts = [st.sampled_from(envs.BOX_INT)]
    if big:
        opts.append(st.integers(-2**63, 2**63))
        opts.append(st.integers(-50, 50))
    return st.one_of(*opts)


@st.composite
def env_for(draw, frag=EVALUABLE, fractions=True, unbound=True, zeros=True):
    """An environment binding the names the generator uses."""
    env = dict(BASE_ENV)
    for v in frag.int_vars:
        c = draw(st.integers(0, 9))
        if zeros and c == 0:
            env[v] = 0
        elif fractions and c == 1:
            env[v] = ["Frac", draw(st.integers(-7, 7)), draw(st.sampled_from((2, 3, 5)))]
        else:
            env[v] = draw(int_value())
    for v in frag.small_vars:
        env[v] = draw(st.sampled_from((0, 1, 2, 3, 5, 8, -1)))
    for v in frag.rat_vars:
        env[v] = ["Frac", draw(st.integers(-9, 9)), draw(st.sampled_from((1, 2, 3, 4, 7)))]
    for v in frag.bool_vars:
        env[v] = draw(st.booleans())
    if unbound and draw(st.integers(0, 6)) == 0:
        names = list(frag.int_vars + frag.rat_vars + frag.bool_vars)
        if names:
            del env[draw(st.sampled_from(names))]
    return env


# {{{ untyped trees over every node class (structure only, not evaluable)

from pbt.spec import (CONCRETE, K_DTYPE, K_EXPR, K_EXPRS, K_KWMAP, K_OPTSTR,  # noqa: E402
                      K_STR, K_STRS, NODE_TABLE)

ALL_COMPOSITE = tuple(n for n in CONCRETE if any(
    k in (K_EXPR, K_EXPRS, K_KWMAP) for _, k in NODE_TABLE[n][1])
    and n not in ("Variable",))
ALL_LEAF_NODES = ("NaN", "Wildcard", "DotWildcard", "StarWildcard", "FunctionSymbol")
NAMES = ("x", "y", "z", "f", "a_b", "name")
SCOPES = ("pymbolic_eval", "pymbolic_expr", "pymbolic_global")
CMP_NAMES = ("eq", "ne", "lt", "le", "gt", "ge")


@st.composite
def any_leaf(draw, wild=True, nan=True):
    c = draw(st.integers(0, 11))
    if c <= 4:
        return ["Var", draw(st.sampled_from(NAMES))]
    if c <= 6:
        return ["Const", "int", draw(st.sampled_from((0, 1, -1, 2, 3, 4, 10**12)))]
    if c == 7:
        return ["Const", "float", draw(st.sampled_from((0.0, 1.0, -1.0, 2.5, 4.0, -0.0)))]
    if c == 8:
        return ["Const", "bool", draw(st.booleans())]
    if c == 9:
        return ["Const", draw(st.sampled_from(("np.int64", "np.float64"))),
                draw(st.sampled_from((0, 1, 4)))]
    if c == 10 and nan:
        return ["NaN", draw(st.sampled_from((None, "float", "np.float64")))]
    if c == 11 and wild:
        n = draw(st.sampled_from(("Wildcard", "DotWildcard", "StarWildcard",
                                  "FunctionSymbol")))
        if n in ("DotWildcard", "StarWildcard"):
            return [n, draw(st.sampled_from(("w_", "v_")))]
        return [n]
    return ["Var", draw(st.sampled_from(NAMES))]


@st.composite
def any_expr(draw, depth=3, nodes=ALL_COMPOSITE, containers=True, wild=True,
             deprecated_forms=False, min_arity=0, nan=True):
    """A spec over every node class; field values chosen by field kind."""
    d = draw

    def rec(depth):
        if depth <= 0 or d(st.integers(0, 3 + depth)) == 0:
            return d(any_leaf(wild=wild, nan=nan))
        n = d(st.sampled_from(nodes))
        if n == "Slice":
            ar = d(st.integers(max(0, min_arity - 1), 3))
            return ["Slice", [None if d(st.integers(0, 2)) == 0 else rec(depth - 1)
                              for _ in range(ar)]]
        out = [n]
        for fname, kind in NODE_TABLE[n][1]:
            if kind == K_EXPR:
                if n == "Subscript" and fname == "index" and containers \
                        and d(st.integers(0, 3)) == 0:
                    out.append(["Tuple", [rec(depth - 1) for _ in range(
                        d(st.integers(1 if min_arity else 0, 3)))]])
                else:
                    out.append(rec(depth - 1))
            elif kind == K_EXPRS:
                lo = min_arity if n not in ("Call", "CallWithKwargs", "Substitution") else 0
                k = d(st.integers(lo, 3))
                if n == "Substitution":
                    k = len(out[2])
                out.append([rec(depth - 1) for _ in range(k)])
            elif kind == K_STR:
                if n == "Comparison":
                    ops = CMP_OPS + (CMP_NAMES if deprecated_forms else ())
                    out.append(d(st.sampled_from(ops)))
                elif n == "CommonSubexpression":
                    out.append(d(st.sampled_from(
                        SCOPES + ((None,) if deprecated_forms else ()))))
                else:
                    out.append(d(st.sampled_from(NAMES)))
            elif kind == K_OPTSTR:
                out.append(d(st.sampled_from((None, None, "u", "tmp"))))
            elif kind == K_STRS:
                out.append(d(st.lists(st.sampled_from(NAMES), max_size=2,
                                      unique=True)))
            elif kind == K_KWMAP:
                keys = d(st.lists(st.sampled_from(("k", "j", "kw")), min_size=1,
                                  max_size=3, unique=True))
                out.append([[k, rec(depth - 1)] for k in keys])
            elif kind == K_DTYPE:
                out.append(d(st.sampled_from((None, "float", "np.float64"))))
        if n == "Substitution":
            pass
        return out
    return rec(depth)

# }}}


@st.composite
def nested_containers(draw, inner):
    """A spec in which expressions sit inside tuples / lists that are themselves elements of
    a tuple with no expression among its direct elements (a[(i, j), 0], f(((i, 1), (j, 2)))):
    *inner* is an expression spec placed at the deepest level."""
    other = ["Var", draw(st.sampled_from(NAMES))]
    c0 = ["Const", "int", draw(st.integers(0, 3))]
    return draw(st.sampled_from((
        ["Subscript", ["Var", "a_b"], ["Tuple", [["Tuple", [inner, other]], c0]]],
        ["Call", ["Var", "f"], [["Tuple", [["Tuple", [inner, c0]], ["Tuple", [other, c0]]]]]],
        ["Subscript", ["Var", "a_b"], ["Tuple", [c0, ["Tuple", [c0, ["Tuple", [inner]]]]]]],
        ["Call", ["Var", "f"], [["Tuple", [c0, ["Tuple", [other, inner]]]], inner]])))
