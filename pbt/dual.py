"""Forward-mode dual numbers and a 60-digit decimal number domain (C10).

``Dual(v, d, dep)`` carries a value, the derivative with respect to the one
seeded variable and a flag saying whether the seeded variable occurs
syntactically in the expression the number came from.  It implements the
Python operators the reference interpreter (pbt.refsem) applies, so pushing
an environment of duals through ``ref_eval`` yields the derivative of the
function the *input* expression denotes.  ``DUAL_MATH`` is the namespace put
into the environment as ``math``.

The scalar domain underneath is generic: ints / Fractions (exact part), floats,
or ``HP`` (decimal arithmetic with 60 significant digits and its own
elementary functions), which is used to adjudicate float comparisons that
fail: a difference that disappears at 60 digits is rounding noise of the
double evaluation, not a wrong derivative.

Domain bookkeeping (``TRACE``): the distance to the closest kink (fabs / sign
/ copysign argument, comparison boundary) whose argument depends on the seeded
variable; powers with a non-constant or non-integer exponent on a
non-positive base raise ``DomainSkip``.
"""
from __future__ import annotations

import decimal
import math
from decimal import Decimal
from fractions import Fraction

from pbt.refsem import RefSkip


class DomainSkip(RefSkip):
    """The point is outside the domain on which the input is differentiable."""


class Trace:
    def __init__(self):
        self.reset()

    def reset(self, hp=False):
        self.kink = math.inf      # distance to the closest kink seen
        self.kinks = 0            # number of kink sites evaluated
        # decimal mode: functions of plain constants (log(4), sinh(-1)) are
        # computed with 60 digits as well, like the values they are combined with
        self.hp = hp

    def see(self, dist):
        self.kinks += 1
        try:
            dist = abs(float(dist))
        except (OverflowError, ValueError):
            return
        if dist < self.kink:
            self.kink = dist


TRACE = Trace()


# {{{ HP: 60-digit decimal numbers

PREC = 60
_TRAPS = [decimal.InvalidOperation, decimal.DivisionByZero, decimal.Overflow]
_CTX = decimal.Context(prec=PREC, Emax=10**9, Emin=-10**9, traps=_TRAPS)
_MAX_ADJ = 150     # trigonometric argument reduction gives up beyond 1e150


class HPError(ArithmeticError):
    """Undefined in the decimal domain (or beyond what it implements)."""


class HPUnsupported(RefSkip):
    """The decimal domain cannot decide this point."""


def _ctx(extra=0):
    return decimal.Context(prec=PREC + extra, Emax=10**9, Emin=-10**9, traps=_TRAPS)


class precision:
    """with precision(240): ... -- the decimal domain works with that many digits
    (used when 60 digits cannot settle a comparison: a derivative expression whose
    terms cancel exactly, scaled by something like exp(130), is still rounding
    noise at 60 digits)."""

    def __init__(self, digits):
        self.digits = digits

    def __enter__(self):
        global PREC
        self.old = PREC
        PREC = self.digits
        _CTX.prec = self.digits

    def __exit__(self, *exc):
        global PREC
        PREC = self.old
        _CTX.prec = self.old


def _dec(x):
    if isinstance(x, HP):
        return x.x
    if isinstance(x, Decimal):
        return x
    if isinstance(x, bool):
        return Decimal(int(x))
    if isinstance(x, int):
        return Decimal(x)
    if isinstance(x, float):
        if x != x or x in (math.inf, -math.inf):
            raise HPError("non-finite float")
        return Decimal(x)
    if isinstance(x, Fraction):
        return _ctx(10).divide(Decimal(x.numerator), Decimal(x.denominator))
    if hasattr(x, "item"):     # numpy scalars
        return _dec(x.item())
    raise TypeError(f"cannot convert {type(x).__name__} to HP")


def _wrap(fn):
    def op(*args):
        try:
            return fn(*args)
        except decimal.DecimalException as exc:
            raise HPError(type(exc).__name__) from None
    return op


def _other(o):
    """Decimal of the other operand, or None (-> NotImplemented, so that
    e.g. HP + Dual reaches Dual.__radd__)."""
    try:
        return _dec(o)
    except TypeError:
        return None


def _binop(fn):
    def op(self, o):
        od = _other(o)
        if od is None:
            return NotImplemented
        try:
            return fn(self.x, od)
        except decimal.DecimalException as exc:
            raise HPError(type(exc).__name__) from None
    return op


def _div(a, b):
    if b == 0:
        raise ZeroDivisionError("HP division by zero")
    return HP(_CTX.divide(a, b))


class HP:
    __slots__ = ("x",)

    def __init__(self, x):
        self.x = _dec(x)

    def __repr__(self):
        return f"HP({self.x:.30g})"

    def __float__(self):
        return float(self.x)

    def __bool__(self):
        return self.x != 0

    __hash__ = None

    __add__ = __radd__ = _binop(lambda a, b: HP(_CTX.add(a, b)))
    __sub__ = _binop(lambda a, b: HP(_CTX.subtract(a, b)))
    __rsub__ = _binop(lambda a, b: HP(_CTX.subtract(b, a)))
    __mul__ = __rmul__ = _binop(lambda a, b: HP(_CTX.multiply(a, b)))
    __truediv__ = _binop(lambda a, b: _div(a, b))
    __rtruediv__ = _binop(lambda a, b: _div(b, a))
    __pow__ = _binop(lambda a, b: hp_pow(a, b))
    __rpow__ = _binop(lambda a, b: hp_pow(b, a))
    __lt__ = _binop(lambda a, b: a < b)
    __le__ = _binop(lambda a, b: a <= b)
    __gt__ = _binop(lambda a, b: a > b)
    __ge__ = _binop(lambda a, b: a >= b)
    __eq__ = _binop(lambda a, b: a == b)
    __ne__ = _binop(lambda a, b: a != b)

    def __neg__(self):
        return HP(_CTX.minus(self.x))

    def __pos__(self):
        return self

    def __abs__(self):
        return HP(_CTX.abs(self.x))


def _is_integral(d):
    return d == d.to_integral_value()


@_wrap
def hp_pow(b, e):
    bx, ex = _dec(b), _dec(e)
    if ex == 0:
        return HP(1)                      # Python: x**0 == 1, also for x == 0
    if _is_integral(ex):
        if bx == 0 and ex < 0:
            raise ZeroDivisionError("0 to a negative power")
        if abs(ex) > 10**6:
            raise HPUnsupported("huge integer exponent")
        return HP(_ctx(10).power(bx, ex))
    if bx < 0:
        raise HPError("negative base, non-integer exponent")
    if bx == 0:
        if ex < 0:
            raise ZeroDivisionError("0 to a negative power")
        return HP(0)
    return HP(_ctx(10).power(bx, ex))


_PI_CACHE = {}


def _pi(prec):
    """pi to *prec* digits (recipe from the decimal documentation)."""
    prec = -(-prec // 50) * 50
    if prec not in _PI_CACHE:
        c = decimal.Context(prec=prec + 5)
        three = Decimal(3)
        lasts, t, s, n, na, d, da = 0, three, Decimal(3), 1, 0, 0, 24
        while s != lasts:
            lasts = s
            n, na = n + na, na + 8
            d, da = d + da, da + 32
            t = c.divide(c.multiply(t, n), d)
            s = c.add(s, t)
        _PI_CACHE[prec] = s
    return _PI_CACHE[prec]


def _sincos(x):
    """(sin x, cos x) as Decimals with PREC+15 digits."""
    adj = x.adjusted() if x != 0 else 0
    if adj > _MAX_ADJ:
        raise HPUnsupported("trigonometric argument too large")
    wp = PREC + 20 + max(0, adj)
    c = decimal.Context(prec=wp, Emax=10**9, Emin=-10**9)
    twopi = c.multiply(_pi(wp + 5), 2)
    k = c.divide(x, twopi).to_integral_value(rounding=decimal.ROUND_HALF_EVEN)
    r = c.subtract(x, c.multiply(k, twopi))      # |r| <= pi (+ rounding)
    c = decimal.Context(prec=PREC + 20, Emax=10**9, Emin=-10**9)
    r = c.plus(r)
    r2 = c.multiply(r, r)
    eps = Decimal(10) ** -(PREC + 18)
    # sin
    term, s, i = r, r, 1
    while term != 0 and abs(term) > eps * max(abs(s), eps):
        i += 2
        term = c.divide(c.multiply(term, -r2), (i - 1) * i)
        s = c.add(s, term)
    # cos
    term, co, i = Decimal(1), Decimal(1), 0
    while term != 0 and abs(term) > eps:
        i += 2
        term = c.divide(c.multiply(term, -r2), (i - 1) * i)
        co = c.add(co, term)
    return s, co


def _hp1(fn):
    def f(x):
        try:
            return HP(_CTX.plus(fn(_dec(x))))
        except decimal.DecimalException as exc:
            raise HPError(type(exc).__name__) from None
    return f


def _exp(x, extra=15):
    if x > 10**9:
        raise HPError("Overflow")
    return x.exp(_ctx(extra))


def _sinh(x):
    if x == 0:
        return Decimal(0)
    extra = 15 + max(0, -x.adjusted())
    c = _ctx(extra)
    e = _exp(x, extra)
    return c.divide(c.subtract(e, c.divide(1, e)), 2)


def _cosh(x):
    c = _ctx(15)
    e = _exp(x)
    return c.divide(c.add(e, c.divide(1, e)), 2)


def _tanh(x):
    if x == 0:
        return Decimal(0)
    if abs(x) > 10**4:
        return Decimal(1).copy_sign(x)
    extra = 15 + max(0, -x.adjusted())
    c = _ctx(extra)
    e2 = _exp(c.multiply(x, 2), extra)
    return c.divide(c.subtract(e2, 1), c.add(e2, 1))


def _expm1(x):
    if x == 0:
        return Decimal(0)
    extra = 15 + max(0, -x.adjusted())
    return _ctx(extra).subtract(_exp(x, extra), 1)


def _tan(x):
    s, co = _sincos(x)
    if co == 0:
        raise HPError("tan pole")
    return _ctx(15).divide(s, co)


def _log(x):
    if x <= 0:
        raise HPError("log of non-positive")
    return x.ln(_ctx(15))


def _sqrt(x):
    if x < 0:
        raise HPError("sqrt of negative")
    return x.sqrt(_ctx(15))


def _hp_copysign(a, b):
    return HP(_dec(a).copy_abs().copy_sign(_dec(b)))


def _hp_unsupported(name):
    def f(*a):
        raise HPUnsupported(f"no decimal implementation of {name}")
    return f


HP_FUNCS = {
    "sin": _hp1(lambda x: _sincos(x)[0]),
    "cos": _hp1(lambda x: _sincos(x)[1]),
    "tan": _hp1(_tan),
    "log": _hp1(_log),
    "exp": _hp1(_exp),
    "sinh": _hp1(_sinh),
    "cosh": _hp1(_cosh),
    "tanh": _hp1(_tanh),
    "expm1": _hp1(_expm1),
    "fabs": _hp1(lambda x: x.copy_abs()),
    "sqrt": _hp1(_sqrt),
    "atan": _hp_unsupported("atan"),
    "copysign": _hp_copysign,
}


class _Namespace:
    def __init__(self, name, funcs):
        self._name = name
        self.__dict__.update(funcs)

    def __repr__(self):
        return f"<{self._name}>"


def _with_base(one):
    """log(x) / log(x, base): the two-argument form is log(x)/log(base)"""
    def f(x, *base):
        if not base:
            return one(x)
        if len(base) > 1:
            raise TypeError("log expected at most 2 arguments")
        return one(x) / one(base[0])
    f.__name__ = "log"
    return f


HP_FUNCS["log"] = _with_base(HP_FUNCS["log"])
HP_MATH = _Namespace("hp-math", HP_FUNCS)

# }}}


# {{{ scalar functions dispatching on the domain

def _scalar(name):
    mfn = getattr(math, name)
    hfn = HP_FUNCS[name]

    def f(x):
        if isinstance(x, HP) or TRACE.hp:
            return hfn(x)
        return mfn(x)
    f.__name__ = name
    return f


_S = {n: _scalar(n) for n in HP_FUNCS if n != "copysign"}


def _sign_of(x):
    """+1 / -1 like copysign(1, x) (zero counts by its sign bit)."""
    if isinstance(x, HP):
        return -1 if x.x.is_signed() else 1
    return -1 if math.copysign(1.0, x) < 0 else 1

# }}}


# {{{ Dual

def _num(x):
    return not isinstance(x, Dual)


class Dual:
    __slots__ = ("v", "d", "dep")
    __hash__ = None

    def __init__(self, v, d=0, dep=False):
        self.v = v
        self.d = d
        self.dep = dep

    def __repr__(self):
        return f"Dual({self.v!r}, {self.d!r}{', dep' if self.dep else ''})"

    # -- ring operations ------------------------------------------------------
    def __add__(self, o):
        if _num(o):
            return Dual(self.v + o, self.d, self.dep)
        return Dual(self.v + o.v, self.d + o.d, self.dep or o.dep)

    def __radd__(self, o):
        return Dual(o + self.v, self.d, self.dep)

    def __sub__(self, o):
        if _num(o):
            return Dual(self.v - o, self.d, self.dep)
        return Dual(self.v - o.v, self.d - o.d, self.dep or o.dep)

    def __rsub__(self, o):
        return Dual(o - self.v, -self.d, self.dep)

    def __neg__(self):
        return Dual(-self.v, -self.d, self.dep)

    def __pos__(self):
        return self

    def __mul__(self, o):
        if _num(o):
            return Dual(self.v * o, self.d * o, self.dep)
        return Dual(self.v * o.v, self.d * o.v + self.v * o.d, self.dep or o.dep)

    def __rmul__(self, o):
        return Dual(o * self.v, o * self.d, self.dep)

    def __truediv__(self, o):
        if _num(o):
            return Dual(self.v / o, self.d / o, self.dep)
        q = self.v / o.v
        return Dual(q, (self.d - q * o.d) / o.v, self.dep or o.dep)

    def __rtruediv__(self, o):
        q = o / self.v
        return Dual(q, -q * self.d / self.v, self.dep)

    # -- powers ---------------------------------------------------------------
    def __pow__(self, g):
        if _num(g):
            return _pow_const(self, g)
        return _pow_general(self, g)

    def __rpow__(self, c):
        # constant base, exponent that is not a constant
        if not c > 0:
            raise DomainSkip("nonpositive-base")
        v = c ** self.v
        return Dual(v, _S["log"](c) * v * self.d, self.dep)

    # -- comparisons (kinks of If conditions) ---------------------------------
    def _cmp(self, o, op):
        ov, odep = (o, False) if _num(o) else (o.v, o.dep)
        if self.dep or odep:
            TRACE.see(self.v - ov)
        return op(self.v, ov)

    def __lt__(self, o):
        return self._cmp(o, lambda a, b: a < b)

    def __le__(self, o):
        return self._cmp(o, lambda a, b: a <= b)

    def __gt__(self, o):
        return self._cmp(o, lambda a, b: a > b)

    def __ge__(self, o):
        return self._cmp(o, lambda a, b: a >= b)

    def __eq__(self, o):
        return self._cmp(o, lambda a, b: a == b)

    def __ne__(self, o):
        return self._cmp(o, lambda a, b: a != b)

    def __bool__(self):
        if self.dep:
            TRACE.see(self.v)
        return bool(self.v)


def _integral(g):
    if isinstance(g, (bool, int)):
        return True
    if isinstance(g, HP):
        return _is_integral(g.x)
    try:
        return g == int(g)
    except (OverflowError, ValueError, TypeError):
        return False


def _pow_const(f, g):
    """f dual, g a constant."""
    if _integral(g):
        if g == 0:
            if f.v == 0:
                # 0**0 == 1 is a convention of the number types; g*f**(g-1)
                # has a removable singularity there
                raise DomainSkip("zero-to-the-zero")
            return Dual(f.v ** g, 0 * f.d, f.dep)
        # f.v == 0 and g < 0 raises ZeroDivisionError: undefined
        return Dual(f.v ** g, g * f.v ** (g - 1) * f.d, f.dep)
    if not f.v > 0:
        raise DomainSkip("nonpositive-base")
    return Dual(f.v ** g, g * f.v ** (g - 1) * f.d, f.dep)


def _pow_general(f, g):
    """f dual or constant, g dual: exp(g log f)."""
    fv, fd, fdep = (f, 0, False) if _num(f) else (f.v, f.d, f.dep)
    if not fv > 0:
        raise DomainSkip("nonpositive-base")
    v = fv ** g.v
    return Dual(v, v * (g.d * _S["log"](fv) + g.v * fd / fv), fdep or g.dep)

# }}}


# {{{ elementary functions on duals

def _lift(name, deriv):
    sf = _S[name]

    def fn(u):
        if _num(u):
            return sf(u)
        fv = sf(u.v)
        return Dual(fv, deriv(u.v, fv) * u.d, u.dep)
    fn.__name__ = name
    return fn


def _fabs(u):
    if _num(u):
        return _S["fabs"](u)
    if u.dep:
        TRACE.see(u.v)
    return Dual(_S["fabs"](u.v), _sign_of(u.v) * u.d, u.dep)


def _copysign(u, w):
    """copysign(u, w) = |u| * sign(w): kinks at u = 0 and at w = 0."""
    uv, ud, udep = (u, 0, False) if _num(u) else (u.v, u.d, u.dep)
    wv, wdep = (w, False) if _num(w) else (w.v, w.dep)
    if udep:
        TRACE.see(uv)
    if wdep:
        TRACE.see(wv)
    if isinstance(uv, HP) or isinstance(wv, HP) or TRACE.hp:
        val = _hp_copysign(uv, wv)
    else:
        val = math.copysign(uv, wv)
    if _num(u) and _num(w):
        return val
    return Dual(val, _sign_of(uv) * _sign_of(wv) * ud, udep or wdep)


DUAL_FUNCS = {
    "sin": _lift("sin", lambda v, fv: _S["cos"](v)),
    "cos": _lift("cos", lambda v, fv: -_S["sin"](v)),
    "tan": _lift("tan", lambda v, fv: 1 + fv * fv),
    "log": _lift("log", lambda v, fv: 1 / v),
    "exp": _lift("exp", lambda v, fv: fv),
    "sinh": _lift("sinh", lambda v, fv: _S["cosh"](v)),
    "cosh": _lift("cosh", lambda v, fv: _S["sinh"](v)),
    "tanh": _lift("tanh", lambda v, fv: 1 - fv * fv),
    "expm1": _lift("expm1", lambda v, fv: _S["exp"](v)),
    "sqrt": _lift("sqrt", lambda v, fv: 1 / (2 * fv)),
    "atan": _lift("atan", lambda v, fv: 1 / (1 + v * v)),
    "fabs": _fabs,
    "copysign": _copysign,
}

DUAL_FUNCS["log"] = _with_base(DUAL_FUNCS["log"])
DUAL_MATH = _Namespace("dual-math", DUAL_FUNCS)

# }}}


def split(r):
    """(value, derivative) of a reference result (constants have derivative 0)."""
    if isinstance(r, Dual):
        return r.v, r.d
    return r, 0
