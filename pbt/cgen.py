"""C translation units for C14: render, compile (gcc + UBSan), run, parse.

A *Unit* is one case: the body of a C function (one statement per line) that
prints its values with printf.  Many units are batched into one translation
unit; gcc is started once per batch.  Results are memoised per process by the
sha1 of the unit's text, so a check function can be a pure function of its
spec and still profit from a batch compiled ahead of it (prefetch()).

Outcome of a unit:
    {"status": "ok", "values": [...]}
    {"status": "compile-error", "msg": first gcc error inside the unit}
    {"status": "ubsan", "msg": first UBSan runtime error inside the unit}
    {"status": "crash", "msg": "signal N"}

Scratch files live in a fresh directory below <VERIF_OUT_DIR or /verif>/.work
and are removed after every batch.
"""
from __future__ import annotations

import hashlib
import os
import re
import shutil
import subprocess
import tempfile
from collections import Counter

from pbt.spec import HarnessError

VERIF = os.path.dirname(os.path.dirname(os.path.abspath(__file__)))

# -O0: no value-changing optimisation; UBSan in recovering mode reports every
# undefined operation with its source line (mapped back to the unit) and goes
# on; no -fwrapv: a wrapped signed overflow must be reported, not computed.
CFLAGS = ["-std=gnu11", "-O0", "-w", "-fmax-errors=0", "-ffp-contract=off",
          "-fsanitize=undefined"]
LIBS = ["-lm"]

STATS = Counter()
_CACHE: dict = {}
_GCC = None


class Unit:
    """ctype: 'long long' or 'double' (how V lines are parsed)."""

    def __init__(self, ctype, lines):
        for ln in lines:
            if "\n" in ln:
                raise HarnessError("C statement spans lines")
        self.ctype = ctype
        self.lines = list(lines)
        self.key = hashlib.sha1(
            (ctype + "\0" + "\n".join(self.lines)).encode()).hexdigest()


def print_stmt(ctype, text):
    if ctype == "double":
        return f'printf("V %a\\n", (double)({text}));'
    return f'printf("V %lld\\n", (long long)({text}));'


def gcc_path():
    global _GCC
    if _GCC is None:
        _GCC = shutil.which(os.environ.get("VERIF_CC", "gcc"))
        if _GCC is None:
            raise HarnessError("gcc not found: C14 needs a C compiler")
    return _GCC


def work_base():
    base = os.path.join(os.environ.get("VERIF_OUT_DIR") or VERIF, ".work")
    os.makedirs(base, exist_ok=True)
    return base


def render(units):
    lines = ["#include <stdio.h>", "#include <stdlib.h>", "#include <math.h>"]
    ranges = []
    for i, u in enumerate(units):
        first = len(lines) + 1
        lines.append(f"static void case_{i}(void)")
        lines.append("{")
        lines.extend(u.lines)
        lines.append("}")
        ranges.append((first, len(lines)))
    lines.append("typedef void (*case_fn)(void);")
    lines.append("static case_fn cases[] = {"
                 + ", ".join(f"case_{i}" for i in range(len(units))) + "};")
    lines.append("int main(int argc, char **argv)")
    lines.append("{")
    lines.append("  int start = argc > 1 ? atoi(argv[1]) : 0;")
    lines.append(f"  for (int i = start; i < {len(units)}; i++) {{")
    lines.append('    printf("B %d\\n", i); fflush(stdout);')
    lines.append("    cases[i]();")
    lines.append('    printf("E %d\\n", i); fflush(stdout);')
    lines.append("  }")
    lines.append("  return 0;")
    lines.append("}")
    return "\n".join(lines) + "\n", ranges


_ERR = re.compile(r"^t\.c:(\d+):\d+: (?:fatal )?error: (.*)$", re.M)
_RT = re.compile(r"^t\.c:(\d+):\d+: runtime error: (.*)$", re.M)


def _unit_of_line(ranges, line):
    for i, (a, b) in enumerate(ranges):
        if a <= line <= b:
            return i
    return None


def _parse_value(ctype, tok):
    if ctype == "double":
        t = tok.strip().lower()
        if t in ("inf", "+inf"):
            return float("inf")
        if t == "-inf":
            return float("-inf")
        if "nan" in t:
            return float("nan")
        return float.fromhex(tok)
    return int(tok)


def _compile(workdir, src):
    with open(os.path.join(workdir, "t.c"), "w") as f:
        f.write(src)
    STATS["gcc_runs"] += 1
    try:
        r = subprocess.run([gcc_path(), *CFLAGS, "t.c", "-o", "t", *LIBS],
                           cwd=workdir, capture_output=True, text=True,
                           timeout=300)
    except subprocess.TimeoutExpired:
        raise HarnessError("gcc timed out") from None
    return r.returncode == 0, r.stderr


def _run(workdir, units, ranges, out):
    start = 0
    n = len(units)
    env = {**os.environ, "UBSAN_OPTIONS": "print_stacktrace=0:halt_on_error=0"}
    while start < n:
        try:
            r = subprocess.run(["./t", str(start)], cwd=workdir, capture_output=True,
                               text=True, errors="replace", timeout=120, env=env)
        except subprocess.TimeoutExpired:
            raise HarnessError("generated C program timed out") from None
        ub = {}
        for m in _RT.finditer(r.stderr):
            i = _unit_of_line(ranges, int(m.group(1)))
            if i is None:
                raise HarnessError(f"UBSan report outside any case: {m.group(0)}")
            ub.setdefault(i, m.group(2))
        cur, vals, done = None, [], {}
        for ln in r.stdout.splitlines():
            if ln.startswith("B "):
                cur, vals = int(ln[2:]), []
            elif ln.startswith("V ") and cur is not None:
                vals.append(ln[2:])
            elif ln.startswith("E ") and cur is not None and int(ln[2:]) == cur:
                done[cur] = vals
                cur = None
        for i, toks in done.items():
            u = units[i]
            if i in ub:
                out[u.key] = {"status": "ubsan", "msg": ub[i]}
                continue
            try:
                out[u.key] = {"status": "ok",
                              "values": [_parse_value(u.ctype, t) for t in toks]}
            except ValueError:
                raise HarnessError(f"unparsable program output {toks!r}") from None
        if r.returncode == 0:
            if len(done) != n - start:
                raise HarnessError("generated C program lost cases")
            return
        if cur is None:
            raise HarnessError(
                f"generated C program failed outside a case: rc={r.returncode} "
                f"{r.stderr[-300:]}")
        u = units[cur]
        if cur in ub:
            out[u.key] = {"status": "ubsan", "msg": ub[cur]}
        else:
            out[u.key] = {"status": "crash", "msg": f"exit status {r.returncode}"}
        start = cur + 1


def _compile_and_run(units):
    out = {}
    pending = list(units)
    workdir = tempfile.mkdtemp(prefix="c14-", dir=work_base())
    try:
        rounds = 0
        while pending:
            rounds += 1
            src, ranges = render(pending)
            ok, stderr = _compile(workdir, src)
            if ok:
                STATS["units_run"] += len(pending)
                _run(workdir, pending, ranges, out)
                break
            bad = {}
            for m in _ERR.finditer(stderr):
                i = _unit_of_line(ranges, int(m.group(1)))
                if i is None:
                    raise HarnessError("gcc error outside any case: " + m.group(0))
                bad.setdefault(i, m.group(2))
            if not bad:
                raise HarnessError("gcc failed: " + stderr[-600:])
            if rounds > 8:
                # bisection by messages did not converge: one unit per compile
                for u in pending:
                    out.update(_compile_and_run([u]) if len(pending) > 1 else {
                        u.key: {"status": "compile-error", "msg": stderr[-300:]}})
                break
            for i, msg in bad.items():
                out[pending[i].key] = {"status": "compile-error", "msg": msg}
                STATS["compile_errors"] += 1
            pending = [u for u in pending if u.key not in out]
    finally:
        shutil.rmtree(workdir, ignore_errors=True)
    return out


def prefetch(units):
    """Compile and run, in one translation unit, the units not yet cached."""
    todo, seen = [], set()
    for u in units:
        if u.key not in _CACHE and u.key not in seen:
            seen.add(u.key)
            todo.append(u)
    if todo:
        _CACHE.update(_compile_and_run(todo))


def outcome(unit):
    if unit.key not in _CACHE:
        prefetch([unit])
    return _CACHE[unit.key]


def clear():
    _CACHE.clear()
