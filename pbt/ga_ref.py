"""List-based reference model of a Clifford algebra with a diagonal metric
(DESIGN.md section 4, C18).  No bitmaps anywhere.

A basis blade is a strictly increasing tuple of basis-vector indices.  The
product of two blades concatenates the index lists, bubble-sorts the result
counting adjacent transpositions of *different* (hence anticommuting) basis
vectors, and finally contracts equal neighbours e_i e_i -> g_ii.

A multivector is a dict {blade tuple: coefficient}; entries whose coefficient
is zero (in the coefficient domain) are never stored.  The coefficient domain
is pluggable (Fraction for exact numbers, pbt.polynf.RatFunc for symbolic
coefficients): `Algebra(metric, lift, is_zero)` where `lift` embeds metric
entries / signs / library coefficients into the domain.
"""
from __future__ import annotations

from fractions import Fraction


def sort_with_sign(indices):
    """Bubble sort of a list of indices.  Returns (sorted list, sign) where
    sign = (-1)**(number of adjacent swaps of unequal elements).  Equal
    elements are never swapped, so they end up adjacent."""
    lst = list(indices)
    sign = 1
    n = len(lst)
    changed = True
    while changed:
        changed = False
        for j in range(n - 1):
            if lst[j] > lst[j + 1]:
                lst[j], lst[j + 1] = lst[j + 1], lst[j]
                sign = -sign
                changed = True
    return lst, sign


def blade_product(a, b, metric):
    """e_a e_b for basis blades a, b (sorted index tuples) ->
    (sign, [metric entries picked up], blade tuple)."""
    lst, sign = sort_with_sign(list(a) + list(b))
    out = []
    picked = []
    i = 0
    while i < len(lst):
        if i + 1 < len(lst) and lst[i] == lst[i + 1]:
            picked.append(metric[lst[i]])
            i += 2
        else:
            out.append(lst[i])
            i += 1
    return sign, picked, tuple(out)


def canonical_blade(indices):
    """Blade given by an index list in arbitrary order (no repetitions) ->
    (sign, sorted tuple)."""
    lst, sign = sort_with_sign(indices)
    return sign, tuple(lst)


def all_blades(d):
    """All basis blades of a d-dimensional space ordered by (grade, indices),
    built by list extension (no bit tricks)."""
    out = [()]
    frontier = [()]
    for _ in range(d):
        nxt = []
        for bl in frontier:
            start = bl[-1] + 1 if bl else 0
            for i in range(start, d):
                nxt.append((*bl, i))
        out.extend(nxt)
        frontier = nxt
    return out


class Algebra:
    def __init__(self, metric, lift=Fraction, is_zero=None):
        self.metric = list(metric)
        self.d = len(self.metric)
        self.lift = lift
        self.is_zero = is_zero if is_zero is not None else (lambda c: c == 0)
        self._metric_l = [lift(g) for g in self.metric]
        self._one = lift(1)
        self._minus = lift(-1)
        self._bp = {}

    # -- construction -----------------------------------------------------
    def zero(self):
        return {}

    def scalar(self, c):
        c = self.lift(c)
        return {} if self.is_zero(c) else {(): c}

    def from_terms(self, terms):
        """terms: iterable of (index list in any order, lifted coefficient)."""
        out = {}
        for idx, c in terms:
            sign, bl = canonical_blade(idx)
            self._acc(out, bl, c if sign > 0 else self._minus * c)
        return out

    def _acc(self, out, bl, c):
        if bl in out:
            c = out[bl] + c
        if self.is_zero(c):
            out.pop(bl, None)
        else:
            out[bl] = c

    # -- linear structure -------------------------------------------------
    def add(self, A, B):
        out = dict(A)
        for bl, c in B.items():
            self._acc(out, bl, c)
        return out

    def neg(self, A):
        return {bl: self._minus * c for bl, c in A.items()}

    def sub(self, A, B):
        return self.add(A, self.neg(B))

    def scale(self, k, A):
        out = {}
        for bl, c in A.items():
            self._acc(out, bl, k * c)
        return out

    def equal(self, A, B):
        if set(A) != set(B):
            return False
        return all(A[bl] == B[bl] for bl in A)

    # -- products ---------------------------------------------------------
    def _blade_product(self, a, b):
        key = (a, b)
        r = self._bp.get(key)
        if r is None:
            sign, picked, bl = blade_product(a, b, self._metric_l)
            w = self._one if sign > 0 else self._minus
            for g in picked:
                w = w * g
            r = self._bp[key] = (w, bl)
        return r

    def product(self, A, B, keep=None):
        """Geometric product; with *keep(r, s, k)* only the grade-k parts of
        products of a grade-r with a grade-s blade that satisfy keep."""
        out = {}
        for a, ca in A.items():
            for b, cb in B.items():
                w, bl = self._blade_product(a, b)
                if keep is not None and not keep(len(a), len(b), len(bl)):
                    continue
                if self.is_zero(w):
                    continue
                self._acc(out, bl, w * ca * cb)
        return out

    def gp(self, A, B):
        return self.product(A, B)

    def outer(self, A, B):
        return self.product(A, B, lambda r, s, k: k == r + s)

    def inner(self, A, B):
        # grade |r-s| part for every pair of grades, scalars included (the
        # convention the library's `|` implements; see c18.ASSUMPTIONS)
        return self.product(A, B, lambda r, s, k: k == abs(r - s))

    def lcontract(self, A, B):
        return self.product(A, B, lambda r, s, k: k == s - r)

    def rcontract(self, A, B):
        return self.product(A, B, lambda r, s, k: k == r - s)

    def scalar_product(self, A, B):
        """<A B>_0 as a coefficient."""
        r = self.product(A, B, lambda r, s, k: k == 0)
        return r.get((), self.lift(0))

    # -- unary operations -------------------------------------------------
    def grade_part(self, A, k):
        return {bl: c for bl, c in A.items() if len(bl) == k}

    def rev(self, A):
        """Reverse the order of the vectors of every blade, then restore
        canonical order by the same sign-counting sort."""
        out = {}
        for bl, c in A.items():
            sign, bl2 = canonical_blade(list(reversed(bl)))
            assert bl2 == bl
            out[bl] = c if sign > 0 else self._minus * c
        return out

    def invol(self, A):
        """Replace every basis vector by its negative."""
        out = {}
        for bl, c in A.items():
            k = c
            for _ in bl:
                k = self._minus * k
            out[bl] = k
        return out

    def pseudoscalar(self):
        return {tuple(range(self.d)): self._one}

    def dual(self, A):
        return self.gp(A, self.rev(self.pseudoscalar()))

    def norm_squared(self, A):
        return self.scalar_product(self.rev(A), A)

    def grades(self, A):
        return {len(bl) for bl in A}
