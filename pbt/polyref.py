"""Dict-based reference model of sparse univariate polynomials with exact
coefficients (ints / Fractions), used as the oracle for
pymbolic.polynomial.Polynomial (C19).  A polynomial is {exponent: coefficient}
without zero coefficients.  Nothing here imports pymbolic.

JSON encoding of numbers: int, or ["Frac", num, den].
JSON encoding of terms:   [[exp, number], ...] strictly increasing exponents,
                          no zero coefficients (HarnessError otherwise, so the
                          generic shrinker cannot leave the domain).
"""
from __future__ import annotations

from fractions import Fraction

from pbt.spec import HarnessError


# {{{ numbers

def num(v):
    if isinstance(v, bool):
        raise HarnessError(f"bool is not a coefficient: {v!r}")
    if isinstance(v, int):
        return v
    if (isinstance(v, list) and len(v) == 3 and v[0] == "Frac"
            and all(isinstance(c, int) and not isinstance(c, bool) for c in v[1:])
            and v[2] != 0):
        return Fraction(v[1], v[2])
    raise HarnessError(f"not a number spec: {v!r}")


def num_spec(c):
    if isinstance(c, Fraction):
        if c.denominator == 1:
            return int(c)
        return ["Frac", c.numerator, c.denominator]
    return int(c)

# }}}


def terms(ts, max_exp=400):
    """Validated [(exp, coeff)] from a JSON term list."""
    if not isinstance(ts, list):
        raise HarnessError(f"terms must be a list: {ts!r}")
    out = []
    last = -1
    for t in ts:
        if not (isinstance(t, list) and len(t) == 2 and isinstance(t[0], int)
                and not isinstance(t[0], bool)):
            raise HarnessError(f"bad term {t!r}")
        e, c = t[0], num(t[1])
        if e <= last or e > max_exp:
            raise HarnessError(f"exponents not strictly increasing/in range: {ts!r}")
        if c == 0:
            raise HarnessError(f"zero coefficient in input: {ts!r}")
        last = e
        out.append((e, c))
    return out


def from_terms(ts):
    return dict(ts)


def norm(d):
    return {e: c for e, c in d.items() if c != 0}


def add(a, b):
    r = dict(a)
    for e, c in b.items():
        r[e] = r.get(e, 0) + c
    return norm(r)


def neg(a):
    return {e: -c for e, c in a.items()}


def sub(a, b):
    return add(a, neg(b))


def scale(a, k):
    return norm({e: c * k for e, c in a.items()})


def mul(a, b):
    r = {}
    for e1, c1 in a.items():
        for e2, c2 in b.items():
            r[e1 + e2] = r.get(e1 + e2, 0) + c1 * c2
    return norm(r)


def power(a, n):
    if n < 0:
        raise ValueError(n)
    r = {0: 1}
    for _ in range(n):          # repeated multiplication, on purpose
        r = mul(r, a)
    return r


def degree(a):
    return max(a, default=-1)


def lead(a):
    return a[degree(a)]


def value(a, x):
    tot = 0
    for e, c in a.items():
        tot += c * x ** e
    return tot


def field_divmod(a, b):
    """Exact division with remainder over the rationals (deg r < deg b).
    Also returns the list of lead-coefficient ratios used, in order."""
    if not b:
        raise ZeroDivisionError
    q = {}
    r = dict(a)
    ratios = []
    db, lb = degree(b), Fraction(lead(b))
    while r and degree(r) >= db:
        f = Fraction(lead(r)) / lb
        ratios.append(f)
        d = degree(r) - db
        q[d] = q.get(d, 0) + f
        r = sub(r, {e + d: c * f for e, c in b.items()})
    return norm(q), r, ratios


def euclid_chain_exact(a, b):
    """Run Euclid's algorithm on (a, b) over the rationals.  Returns
    (gcd, all_lead_ratios_integral): the second component says whether every
    single lead-coefficient division of every division step has an integral
    quotient, i.e. whether the computation stays inside what a coefficient
    ring with integer-style divmod can do exactly."""
    if degree(a) < degree(b):
        a, b = b, a
    exact = True
    steps = 0
    while b:
        _, r, ratios = field_divmod(a, b)
        if any(f.denominator != 1 for f in ratios):
            exact = False
        a, b = b, r
        steps += 1
    return a, exact, steps


def cancellation_pattern(a, b):
    """Classify the partial products of a*b per result exponent:
    'none'      every exponent receives exactly one partial product
    'merge'     some exponent receives several, no proper prefix sums to zero
    'cancel'    some exponent's partial products sum to zero as a whole only
    'prefix'    some exponent has a proper prefix (>= 2 entries, in the order
                a-major, b-minor) summing to zero with entries still following
    """
    groups = {}
    for e1, c1 in sorted(a.items()):
        for e2, c2 in sorted(b.items()):
            groups.setdefault(e1 + e2, []).append(c1 * c2)
    worst = "none"
    rank = {"none": 0, "merge": 1, "cancel": 2, "prefix": 3}
    for cs in groups.values():
        if len(cs) < 2:
            continue
        kind = "merge"
        run = 0
        for i, c in enumerate(cs):
            run += c
            if run == 0 and i >= 1:
                kind = "prefix" if i < len(cs) - 1 else "cancel"
                if kind == "prefix":
                    break
        if rank[kind] > rank[worst]:
            worst = kind
    return worst


def show(a, var="x"):
    if not a:
        return "0"
    return " + ".join(f"{c}*{var}^{e}" if e else f"{c}" for e, c in sorted(a.items()))
